"""Shared builders for C01/C02: matrices with prescribed spectra, operator kinds realising a given dense matrix,
broadcast patterns, and the dense column-by-column reference solve.

Everything is a pure function of the case dict (local torch.Generator)."""
from __future__ import annotations

import math

import torch
from hypothesis import strategies as st

from pbt import gen

DT = {"f32": torch.float32, "f64": torch.float64, "c128": torch.complex128}
HERMITIAN_SPECTRA = ("spd", "indef", "few_spd")
NONHERMITIAN_SPECTRA = ("normal_rhp", "general", "few_normal")
SPECTRA = HERMITIAN_SPECTRA + NONHERMITIAN_SPECTRA

# operator kinds realising a dense matrix A (see make_operator)
LEAF_KINDS = ("dense", "mv", "mv_rmv", "mv_mm", "all")
COMPOSED_KINDS = ("add", "sub", "scale", "matmul", "HH", "adjH", "jac")
KINDS = LEAF_KINDS + COMPOSED_KINDS


def cdtype(dtype):
    return torch.complex128 if dtype.is_complex else torch.float64


def H(x):
    return x.transpose(-2, -1).conj()


def rand_unitary(g, batch, n, dtype):
    Z = gen.randn(g, (*batch, n, n), cdtype(dtype))
    Q, _ = torch.linalg.qr(Z)
    return Q


def _logspaced(g, batch, n, kappa):
    """values in [1, kappa], the extremes attained (n>=2)"""
    u = torch.rand((*batch, n), generator=g, dtype=torch.float64)
    if n >= 2:
        u[..., 0] = 0.0
        u[..., -1] = 1.0
    return torch.exp(u * math.log(kappa))


def spectrum_matrix(g, batch, n, dtype, kind, kappa):
    """(*batch, n, n) matrix of the given spectral kind in float64/complex128 (cast by the caller).
    spd / indef / few_spd are exactly Hermitian (symmetrised)."""
    wd = cdtype(dtype)
    if kind in ("spd", "indef", "few_spd"):
        lam = _logspaced(g, batch, n, kappa)
        if kind == "indef" and n >= 2:
            sgn = torch.where(torch.rand((*batch, n), generator=g) < 0.5, -1.0, 1.0).to(torch.float64)
            sgn[..., 0] = 1.0
            sgn[..., -1] = -1.0
            lam = lam * sgn
        if kind == "few_spd":
            ndist = max(1, n - 2)
            vals = _logspaced(g, batch, ndist, kappa)
            idx = torch.randint(0, ndist, (n,), generator=g)
            idx[:ndist] = torch.arange(ndist)
            lam = vals[..., idx]
        Q = rand_unitary(g, batch, n, dtype)
        A = torch.matmul(Q * lam.to(wd).unsqueeze(-2), H(Q))
        return 0.5 * (A + H(A))
    if kind in ("normal_rhp", "few_normal"):
        if kind == "few_normal":
            ndist = max(1, n - 2)
        else:
            ndist = n
        if wd.is_complex:
            a = _logspaced(g, batch, ndist, kappa)
            b = (2 * torch.rand((*batch, ndist), generator=g, dtype=torch.float64) - 1) * a
            vals = torch.complex(a, b)
            idx = torch.randint(0, ndist, (n,), generator=g)
            idx[:ndist] = torch.arange(ndist)
            lam = vals[..., idx]
            Q = rand_unitary(g, batch, n, dtype)
            return torch.matmul(Q * lam.unsqueeze(-2), H(Q))
        # real: 2x2 rotation-scaling blocks [[a, b], [-b, a]] (+ a lone a for odd n)
        nblk = (n + 1) // 2
        ndistb = nblk if kind == "normal_rhp" else max(1, (n - 2) // 2)
        a = _logspaced(g, batch, ndistb, kappa)
        b = (2 * torch.rand((*batch, ndistb), generator=g, dtype=torch.float64) - 1) * a
        idx = torch.randint(0, ndistb, (nblk,), generator=g)
        idx[:ndistb] = torch.arange(ndistb)
        a, b = a[..., idx], b[..., idx]
        D = torch.zeros((*batch, n, n), dtype=torch.float64)
        for k in range(nblk):
            i = 2 * k
            D[..., i, i] = a[..., k]
            if i + 1 < n:
                D[..., i + 1, i + 1] = a[..., k]
                D[..., i, i + 1] = b[..., k]
                D[..., i + 1, i] = -b[..., k]
        Q = rand_unitary(g, batch, n, dtype)
        return torch.matmul(torch.matmul(Q, D), H(Q))
    if kind == "general":
        sig = _logspaced(g, batch, n, kappa)
        U = rand_unitary(g, batch, n, dtype)
        V = rand_unitary(g, batch, n, dtype)
        return torch.matmul(U * sig.to(wd).unsqueeze(-2), H(V))
    raise ValueError(kind)


def spd_matrix(g, batch, n, dtype, lo=0.5, hi=2.0):
    wd = cdtype(dtype)
    u = torch.rand((*batch, n), generator=g, dtype=torch.float64)
    lam = lo * torch.exp(u * math.log(hi / lo))
    Q = rand_unitary(g, batch, n, dtype)
    A = torch.matmul(Q * lam.to(wd).unsqueeze(-2), H(Q))
    return 0.5 * (A + H(A))


# ------------------------------------------------------------------ operator kinds

def _user_class(name, methods, counter, nonlin=False):
    import xitorch

    def tick(k):
        counter[k] = counter.get(k, 0) + 1

    def mat(self):
        # nonlin: the operator's matrix Mat*exp(s) is a *non-linear* function of its scalar parameter s (second derivatives
        # of the operator w.r.t. its own parameters do not vanish)
        return self.Mat * torch.exp(self.s) if nonlin else self.Mat

    def _mv(self, x):
        tick("mv")
        return torch.matmul(mat(self), x.unsqueeze(-1)).squeeze(-1)

    def _rmv(self, x):
        tick("rmv")
        return torch.matmul(H(mat(self)), x.unsqueeze(-1)).squeeze(-1)

    def _mm(self, x):
        tick("mm")
        return torch.matmul(mat(self), x)

    def _rmm(self, x):
        tick("rmm")
        return torch.matmul(H(mat(self)), x)

    def _fullmatrix(self):
        tick("fullmatrix")
        return mat(self)

    def _getparamnames(self, prefix=""):
        return [prefix + "Mat", prefix + "s"] if nonlin else [prefix + "Mat"]

    def __init__(self, Mat, is_hermitian=False, s=None):
        xitorch.LinearOperator.__init__(self, shape=Mat.shape, is_hermitian=is_hermitian, dtype=Mat.dtype, device=Mat.device,
                                        _suppress_hermit_warning=True)
        self.Mat = Mat
        self.s = s
    impl = {"_mv": _mv, "_rmv": _rmv, "_mm": _mm, "_rmm": _rmm, "_fullmatrix": _fullmatrix}
    body = {m: impl[m] for m in methods}
    body["_getparamnames"] = _getparamnames
    body["__init__"] = __init__
    return type(name, (xitorch.LinearOperator,), body)


METHODSETS = {"mv": ["_mv"], "mv_rmv": ["_mv", "_rmv"], "mv_mm": ["_mv", "_mm"],
              "all": ["_mv", "_rmv", "_mm", "_rmm", "_fullmatrix"]}


def make_nonlin_leaf(kind, Mat, s, herm_flag, counter):
    """user-class operator with matrix Mat*exp(s), parameters (Mat, s)"""
    cls = _user_class("N_" + kind, METHODSETS[kind], counter, nonlin=True)
    return cls(Mat, is_hermitian=bool(herm_flag), s=s)


def make_leaf(kind, Mat, herm_flag, counter):
    """a leaf operator whose matrix is the tensor `Mat` (which may be a non-leaf tensor of the autograd graph);
    fresh class per call, so the per-class capability cache never leaks between cases"""
    import xitorch
    if kind == "dense":
        return xitorch.LinearOperator.m(Mat, is_hermitian=bool(herm_flag))
    cls = _user_class("K_" + kind, METHODSETS[kind], counter)
    return cls(Mat, is_hermitian=bool(herm_flag))


def make_operator(kind, A, herm_flag, g, counter, leaf="dense"):
    """LinearOperator whose dense matrix equals A (a tensor, possibly requiring grad), built so that gradients reach A.
    Composed kinds lose the Hermitian flag (as xitorch's composition does) except where noted."""
    import xitorch
    n = A.shape[-1]
    dt = A.dtype
    if kind in LEAF_KINDS:
        return make_leaf(kind, A, herm_flag, counter)
    if kind in ("add", "sub"):
        P = gen.randn(g, A.shape[-2:], dt)          # unbatched constant part
        if kind == "add":
            return make_leaf(leaf, A - P, False, counter) + xitorch.LinearOperator.m(P, is_hermitian=False)
        return make_leaf(leaf, A + P, False, counter) - xitorch.LinearOperator.m(P, is_hermitian=False)
    if kind == "scale":
        c = [2, -0.5, 3.0, -1][int(torch.randint(0, 4, (1,), generator=g))]
        op = make_leaf(leaf, A / c, herm_flag, counter)
        return op * c if int(torch.randint(0, 2, (1,), generator=g)) else c * op
    if kind == "matmul":
        P = rand_unitary(g, (), n, dt).to(dt) * 1.5      # well conditioned constant factor
        Q = torch.matmul(H(P) / 2.25, A)                 # P^-1 A  (P^-1 = P^H / 1.5^2)
        return xitorch.LinearOperator.m(P, is_hermitian=False).matmul(make_leaf(leaf, Q, False, counter))
    if kind == "HH":
        return make_leaf(leaf, A, herm_flag, counter).H.H
    if kind == "adjH":
        return make_leaf(leaf, H(A), herm_flag, counter).H
    if kind == "jac":
        # Jacobian operator of an affine map x -> A x + c   (real, unbatched A only)
        from xitorch.grad import jac
        x0 = torch.zeros((n,), dtype=dt).requires_grad_()
        c = torch.ones((n,), dtype=dt)

        def f(x, Amat):
            return torch.matmul(Amat, x) + c
        return jac(f, params=(x0, A), idxs=0)
    raise ValueError(kind)


# ------------------------------------------------------------------ broadcast patterns

@st.composite
def batch_st(draw, maxrank=2):
    return draw(st.lists(st.integers(1, 3), max_size=maxrank))


def sub_batch(draw, batch):
    """a shape broadcastable to `batch`: drop any number of leading dims, replace dims by 1"""
    k = draw(st.integers(0, len(batch)))
    b = list(batch[k:])
    return [1 if draw(st.integers(0, 3)) == 0 else d for d in b]


def bshape(*shapes):
    return list(torch.broadcast_shapes(*[tuple(s) for s in shapes]))


# ------------------------------------------------------------------ dense reference

def dense_shifted(A, E, M, ncols):
    """(ncols, *batch, n, n): the matrices A - e_c M, broadcast over all batch dims"""
    n = A.shape[-1]
    if E is None:
        return A.unsqueeze(0).expand(ncols, *A.shape)
    Mm = M if M is not None else torch.eye(n, dtype=A.dtype)
    bat = bshape(A.shape[:-2], E.shape[:-1], Mm.shape[:-2])
    Ee = E.expand(*bat, ncols)                                   # (*bat, ncols)
    Ee = Ee.movedim(-1, 0)                                       # (ncols, *bat)
    return A.expand(*bat, n, n).unsqueeze(0) - Ee[..., None, None] * Mm.expand(*bat, n, n).unsqueeze(0)


def dense_solve(A, B, E, M):
    """column-by-column dense solve of A X - M X E = B; returns X (*batch, n, ncols) and the shifted matrices"""
    n, ncols = B.shape[-2:]
    S = dense_shifted(A, E, M, ncols)                            # (ncols, *bS, n, n)
    bS = list(S.shape[1:-2])
    bat = bshape(bS, B.shape[:-2])
    Sb = S.reshape(ncols, *([1] * (len(bat) - len(bS))), *bS, n, n).expand(ncols, *bat, n, n)
    Bb = B.expand(*bat, n, ncols).movedim(-1, 0).unsqueeze(-1)   # (ncols, *bat, n, 1)
    X = torch.linalg.solve(Sb, Bb).squeeze(-1).movedim(0, -1)    # (*bat, n, ncols)
    return X, Sb
