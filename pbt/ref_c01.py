"""Shared builders for C01/C02: matrices with prescribed spectra, operator kinds realising a given dense matrix,
broadcast patterns, and the dense column-by-column reference solve.

Everything is a pure function of the case dict (local torch.Generator)."""
from __future__ import annotations

import math

import torch
from hypothesis import strategies as st

from pbt import gen

DT = {"f32": torch.float32, "f64": torch.float64, "c128": torch.complex128}
HERMITIAN_SPECTRA = ("spd", "indef", "few_spd")
NONHERMITIAN_SPECTRA = ("normal_rhp", "general", "few_normal")
SPECTRA = HERMITIAN_SPECTRA + NONHERMITIAN_SPECTRA
# complex only, used by C01: normal matrix with eigenvalues exp(i theta) (1 + rho z) / (1 - rho), z in the unit disc,
# rho = (kappa-1)/(kappa+1): a disc of condition number <= kappa anywhere around the origin (not part of SPECTRA, which C02 shares)
ROTATED_SPECTRA = ("rot_disc", "few_rot_disc")
# spectra whose field of values lies in a half-plane  Re(exp(-i theta) z) >= 1  (theta = 0 unless rotated)
HALFPLANE_SPECTRA = ("spd", "few_spd", "normal_rhp", "few_normal") + ROTATED_SPECTRA

# operator kinds realising a dense matrix A (see make_operator)
LEAF_KINDS = ("dense", "mv", "mv_rmv", "mv_mm", "all")
COMPOSED_KINDS = ("add", "sub", "scale", "matmul", "HH", "adjH", "jac")
KINDS = LEAF_KINDS + COMPOSED_KINDS


def cdtype(dtype):
    return torch.complex128 if dtype.is_complex else torch.float64


def H(x):
    return x.transpose(-2, -1).conj()


def rand_unitary(g, batch, n, dtype):
    Z = gen.randn(g, (*batch, n, n), cdtype(dtype))
    Q, _ = torch.linalg.qr(Z)
    return Q


def _logspaced(g, batch, n, kappa):
    """values in [1, kappa], the extremes attained (n>=2)"""
    u = torch.rand((*batch, n), generator=g, dtype=torch.float64)
    if n >= 2:
        u[..., 0] = 0.0
        u[..., -1] = 1.0
    return torch.exp(u * math.log(kappa))


def spectrum_matrix(g, batch, n, dtype, kind, kappa, theta=0.0):
    """(*batch, n, n) matrix of the given spectral kind in float64/complex128 (cast by the caller).
    spd / indef / few_spd are exactly Hermitian (symmetrised). theta (radians) only for the rotated kinds."""
    wd = cdtype(dtype)
    if kind in ROTATED_SPECTRA:
        assert wd.is_complex
        ndist = n if kind == "rot_disc" else max(1, n - 2)
        rho = (kappa - 1.0) / (kappa + 1.0)
        rad = torch.rand((*batch, ndist), generator=g, dtype=torch.float64).sqrt()
        ph = torch.rand((*batch, ndist), generator=g, dtype=torch.float64) * (2 * math.pi)
        if ndist >= 2:          # the extremes of the modulus are attained: cond = kappa
            rad[..., 0], ph[..., 0] = 1.0, 0.0
            rad[..., -1], ph[..., -1] = 1.0, math.pi
        vals = (1.0 + rho * torch.polar(rad, ph)) / (1.0 - rho) * complex(math.cos(theta), math.sin(theta))
        idx = torch.randint(0, ndist, (n,), generator=g)
        idx[:ndist] = torch.arange(ndist)
        lam = vals[..., idx]
        Q = rand_unitary(g, batch, n, dtype)
        return torch.matmul(Q * lam.unsqueeze(-2), H(Q))
    if kind in ("spd", "indef", "few_spd"):
        lam = _logspaced(g, batch, n, kappa)
        if kind == "indef" and n >= 2:
            sgn = torch.where(torch.rand((*batch, n), generator=g) < 0.5, -1.0, 1.0).to(torch.float64)
            sgn[..., 0] = 1.0
            sgn[..., -1] = -1.0
            lam = lam * sgn
        if kind == "few_spd":
            ndist = max(1, n - 2)
            vals = _logspaced(g, batch, ndist, kappa)
            idx = torch.randint(0, ndist, (n,), generator=g)
            idx[:ndist] = torch.arange(ndist)
            lam = vals[..., idx]
        Q = rand_unitary(g, batch, n, dtype)
        A = torch.matmul(Q * lam.to(wd).unsqueeze(-2), H(Q))
        return 0.5 * (A + H(A))
    if kind in ("normal_rhp", "few_normal"):
        if kind == "few_normal":
            ndist = max(1, n - 2)
        else:
            ndist = n
        if wd.is_complex:
            a = _logspaced(g, batch, ndist, kappa)
            b = (2 * torch.rand((*batch, ndist), generator=g, dtype=torch.float64) - 1) * a
            vals = torch.complex(a, b)
            idx = torch.randint(0, ndist, (n,), generator=g)
            idx[:ndist] = torch.arange(ndist)
            lam = vals[..., idx]
            Q = rand_unitary(g, batch, n, dtype)
            return torch.matmul(Q * lam.unsqueeze(-2), H(Q))
        # real: 2x2 rotation-scaling blocks [[a, b], [-b, a]] (+ a lone a for odd n)
        nblk = (n + 1) // 2
        ndistb = nblk if kind == "normal_rhp" else max(1, (n - 2) // 2)
        a = _logspaced(g, batch, ndistb, kappa)
        b = (2 * torch.rand((*batch, ndistb), generator=g, dtype=torch.float64) - 1) * a
        idx = torch.randint(0, ndistb, (nblk,), generator=g)
        idx[:ndistb] = torch.arange(ndistb)
        a, b = a[..., idx], b[..., idx]
        D = torch.zeros((*batch, n, n), dtype=torch.float64)
        for k in range(nblk):
            i = 2 * k
            D[..., i, i] = a[..., k]
            if i + 1 < n:
                D[..., i + 1, i + 1] = a[..., k]
                D[..., i, i + 1] = b[..., k]
                D[..., i + 1, i] = -b[..., k]
        Q = rand_unitary(g, batch, n, dtype)
        return torch.matmul(torch.matmul(Q, D), H(Q))
    if kind == "general":
        sig = _logspaced(g, batch, n, kappa)
        U = rand_unitary(g, batch, n, dtype)
        V = rand_unitary(g, batch, n, dtype)
        return torch.matmul(U * sig.to(wd).unsqueeze(-2), H(V))
    raise ValueError(kind)


def spd_matrix(g, batch, n, dtype, lo=0.5, hi=2.0):
    wd = cdtype(dtype)
    u = torch.rand((*batch, n), generator=g, dtype=torch.float64)
    lam = lo * torch.exp(u * math.log(hi / lo))
    Q = rand_unitary(g, batch, n, dtype)
    A = torch.matmul(Q * lam.to(wd).unsqueeze(-2), H(Q))
    return 0.5 * (A + H(A))


# ------------------------------------------------------------------ operator kinds

def _user_class(name, methods, counter, nonlin=False):
    import xitorch

    def tick(k):
        counter[k] = counter.get(k, 0) + 1

    def mat(self):
        # nonlin: the operator's matrix Mat*exp(s) is a *non-linear* function of its scalar parameter s (second derivatives
        # of the operator w.r.t. its own parameters do not vanish)
        return self.Mat * torch.exp(self.s) if nonlin else self.Mat

    def _mv(self, x):
        tick("mv")
        return torch.matmul(mat(self), x.unsqueeze(-1)).squeeze(-1)

    def _rmv(self, x):
        tick("rmv")
        return torch.matmul(H(mat(self)), x.unsqueeze(-1)).squeeze(-1)

    def _mm(self, x):
        tick("mm")
        return torch.matmul(mat(self), x)

    def _rmm(self, x):
        tick("rmm")
        return torch.matmul(H(mat(self)), x)

    def _fullmatrix(self):
        tick("fullmatrix")
        return mat(self)

    def _getparamnames(self, prefix=""):
        return [prefix + "Mat", prefix + "s"] if nonlin else [prefix + "Mat"]

    def __init__(self, Mat, is_hermitian=False, s=None):
        xitorch.LinearOperator.__init__(self, shape=Mat.shape, is_hermitian=is_hermitian, dtype=Mat.dtype, device=Mat.device,
                                        _suppress_hermit_warning=True)
        self.Mat = Mat
        self.s = s
    impl = {"_mv": _mv, "_rmv": _rmv, "_mm": _mm, "_rmm": _rmm, "_fullmatrix": _fullmatrix}
    body = {m: impl[m] for m in methods}
    body["_getparamnames"] = _getparamnames
    body["__init__"] = __init__
    return type(name, (xitorch.LinearOperator,), body)


METHODSETS = {"mv": ["_mv"], "mv_rmv": ["_mv", "_rmv"], "mv_mm": ["_mv", "_mm"],
              "all": ["_mv", "_rmv", "_mm", "_rmm", "_fullmatrix"]}


def make_nonlin_leaf(kind, Mat, s, herm_flag, counter):
    """user-class operator with matrix Mat*exp(s), parameters (Mat, s)"""
    cls = _user_class("N_" + kind, METHODSETS[kind], counter, nonlin=True)
    return cls(Mat, is_hermitian=bool(herm_flag), s=s)


def make_leaf(kind, Mat, herm_flag, counter):
    """a leaf operator whose matrix is the tensor `Mat` (which may be a non-leaf tensor of the autograd graph);
    fresh class per call, so the per-class capability cache never leaks between cases"""
    import xitorch
    if kind == "dense":
        return xitorch.LinearOperator.m(Mat, is_hermitian=bool(herm_flag))
    cls = _user_class("K_" + kind, METHODSETS[kind], counter)
    return cls(Mat, is_hermitian=bool(herm_flag))


def make_operator(kind, A, herm_flag, g, counter, leaf="dense", pscale=1.0):
    """LinearOperator whose dense matrix equals A (a tensor, possibly requiring grad), built so that gradients reach A.
    Composed kinds lose the Hermitian flag (as xitorch's composition does) except where noted.
    pscale: magnitude of A (unit of the operator); the constant parts of sums/differences are drawn at that magnitude so
    that the composed matrix equals A up to a few eps |A| (1.0 leaves everything as it was)."""
    import xitorch
    n = A.shape[-1]
    dt = A.dtype
    if kind in LEAF_KINDS:
        return make_leaf(kind, A, herm_flag, counter)
    if kind in ("add", "sub"):
        P = gen.randn(g, A.shape[-2:], dt)          # unbatched constant part
        if pscale != 1.0:
            P = P * pscale
        if kind == "add":
            return make_leaf(leaf, A - P, False, counter) + xitorch.LinearOperator.m(P, is_hermitian=False)
        return make_leaf(leaf, A + P, False, counter) - xitorch.LinearOperator.m(P, is_hermitian=False)
    if kind == "scale":
        c = [2, -0.5, 3.0, -1][int(torch.randint(0, 4, (1,), generator=g))]
        op = make_leaf(leaf, A / c, herm_flag, counter)
        return op * c if int(torch.randint(0, 2, (1,), generator=g)) else c * op
    if kind == "matmul":
        P = rand_unitary(g, (), n, dt).to(dt) * 1.5      # well conditioned constant factor
        Q = torch.matmul(H(P) / 2.25, A)                 # P^-1 A  (P^-1 = P^H / 1.5^2)
        return xitorch.LinearOperator.m(P, is_hermitian=False).matmul(make_leaf(leaf, Q, False, counter))
    if kind == "HH":
        return make_leaf(leaf, A, herm_flag, counter).H.H
    if kind == "adjH":
        return make_leaf(leaf, H(A), herm_flag, counter).H
    if kind == "jac":
        # Jacobian operator of an affine map x -> A x + c   (real, unbatched A only)
        from xitorch.grad import jac
        x0 = torch.zeros((n,), dtype=dt).requires_grad_()
        c = torch.ones((n,), dtype=dt)

        def f(x, Amat):
            return torch.matmul(Amat, x) + c
        return jac(f, params=(x0, A), idxs=0)
    raise ValueError(kind)


# ------------------------------------------------------------------ expression trees of operators (C01)
#
# A tree is a nested list (JSON):  ["leaf", kind] | ["adj", t] | ["scale", ci, side, t] | [op, swap, t1, t2] with op in
# add / sub / matmul.  make_tree(tree, T, ...) returns an operator whose dense matrix is T (up to rounding):
#   adj     (tree of T^H).H
#   scale   c * (tree of T/c)  or  (tree of T/c) * c
#   add     (tree of T-P) + (tree of P)         swap: (tree of P) + (tree of T-P)
#   sub     (tree of T+P) - (tree of P)         swap: (tree of P) - (tree of P-T)
#   matmul  (tree of P) @ (tree of P^-1 T)      swap: (tree of T P^-1) @ (tree of P)      P = 1.5 * unitary
# with P a constant unbatched random matrix (Hermitian when the node is flagged Hermitian, so that the flag survives
# xitorch's composition rules; a product is flagged through matmul's documented is_hermitian argument).

TREE_LEAVES = LEAF_KINDS + ("jac",)
SCALES = (2, -0.5, 3.0, -1)


@st.composite
def tree_st(draw, depth=2):
    if depth == 0:
        return ["leaf", draw(st.sampled_from(TREE_LEAVES))]
    op = draw(st.sampled_from(["leaf", "adj", "adj", "scale", "add", "sub", "sub", "matmul"] if depth < 2 else
                              ["adj", "adj", "scale", "add", "sub", "matmul"]))
    if op == "leaf":
        return ["leaf", draw(st.sampled_from(TREE_LEAVES))]
    if op == "adj":
        return ["adj", draw(tree_st(depth - 1))]
    if op == "scale":
        return ["scale", draw(st.integers(0, len(SCALES) - 1)), draw(st.integers(0, 1)), draw(tree_st(depth - 1))]
    return [op, draw(st.integers(0, 1)), draw(tree_st(depth - 1)), draw(tree_st(depth - 1))]


def tree_signature(tree):
    """shape of the tree without its leaves, e.g. 'adj(sub)', 'matmul(scale,leaf)'"""
    if tree[0] == "leaf":
        return "leaf"
    subs = [t for t in tree[1:] if isinstance(t, list)]
    if all(t[0] == "leaf" for t in subs):
        return tree[0]
    return tree[0] + "(" + ",".join(tree_signature(t) for t in subs) + ")"


def tree_leaves(tree):
    if tree[0] == "leaf":
        return [tree[1]]
    return [k for t in tree[1:] if isinstance(t, list) for k in tree_leaves(t)]


def make_tree(tree, T, herm_flag, g, counter, pscale=1.0):
    """pscale: magnitude of T; constant parts of sums/differences are drawn at that magnitude, the constant factor of a
    product at its square root (so both factors, and their sub-trees, carry sqrt(pscale)); 1.0 leaves everything as it was"""
    import xitorch
    op = tree[0]
    n = T.shape[-1]
    dt = T.dtype
    if op == "leaf":
        kind = tree[1]
        if kind == "jac":
            if dt.is_complex or T.ndim > 2:
                kind = "mv_rmv"
            else:
                return make_operator("jac", T, False, g, counter)
        return make_leaf(kind, T, herm_flag, counter)
    if op == "adj":
        return make_tree(tree[1], H(T), herm_flag, g, counter, pscale).H
    if op == "scale":
        c = SCALES[tree[1]]
        sub = make_tree(tree[3], T / c, herm_flag, g, counter, pscale)
        return sub * c if tree[2] else c * sub
    swap = tree[1]
    if op in ("add", "sub"):
        P = gen.randn(g, (n, n), dt)
        if pscale != 1.0:
            P = P * pscale
        if herm_flag:
            P = 0.5 * (P + H(P))
        if op == "add":
            a, b = make_tree(tree[2], T - P, herm_flag, g, counter, pscale), make_tree(tree[3], P, herm_flag, g, counter, pscale)
            return b + a if swap else a + b
        if swap:
            return make_tree(tree[2], P, herm_flag, g, counter, pscale) - make_tree(tree[3], P - T, herm_flag, g, counter, pscale)
        return make_tree(tree[2], T + P, herm_flag, g, counter, pscale) - make_tree(tree[3], P, herm_flag, g, counter, pscale)
    if op == "matmul":
        P = rand_unitary(g, (), n, dt).to(dt) * 1.5
        Pinv = H(P) / 2.25
        ps = 1.0
        if pscale != 1.0:
            ps = math.sqrt(pscale)
            P, Pinv = P * ps, Pinv / ps
        if swap:
            a, b = make_tree(tree[2], torch.matmul(T, Pinv), False, g, counter, ps), make_tree(tree[3], P, False, g, counter, ps)
        else:
            a, b = make_tree(tree[2], P, False, g, counter, ps), make_tree(tree[3], torch.matmul(Pinv, T), False, g, counter, ps)
        # (two dense operands are folded into one matrix, whose Hermiticity xitorch verifies elementwise: a product is
        # Hermitian only up to rounding, so the flag is given to genuinely composite products only)
        folded = isinstance(a, xitorch.LinearOperator) and type(a).__name__ == type(b).__name__ == "MatrixLinearOperator"
        return a.matmul(b, is_hermitian=True) if (herm_flag and not folded) else a.matmul(b)
    raise ValueError(op)


# ------------------------------------------------------------------ broadcast patterns

@st.composite
def batch_st(draw, maxrank=2):
    return draw(st.lists(st.integers(1, 3), max_size=maxrank))


def sub_batch(draw, batch):
    """a shape broadcastable to `batch`: drop any number of leading dims, replace dims by 1"""
    k = draw(st.integers(0, len(batch)))
    b = list(batch[k:])
    return [1 if draw(st.integers(0, 3)) == 0 else d for d in b]


def bshape(*shapes):
    return list(torch.broadcast_shapes(*[tuple(s) for s in shapes]))


# ------------------------------------------------------------------ dense reference

def dense_shifted(A, E, M, ncols):
    """(ncols, *batch, n, n): the matrices A - e_c M, broadcast over all batch dims"""
    n = A.shape[-1]
    if E is None:
        return A.unsqueeze(0).expand(ncols, *A.shape)
    Mm = M if M is not None else torch.eye(n, dtype=A.dtype)
    bat = bshape(A.shape[:-2], E.shape[:-1], Mm.shape[:-2])
    Ee = E.expand(*bat, ncols)                                   # (*bat, ncols)
    Ee = Ee.movedim(-1, 0)                                       # (ncols, *bat)
    return A.expand(*bat, n, n).unsqueeze(0) - Ee[..., None, None] * Mm.expand(*bat, n, n).unsqueeze(0)


def dense_solve(A, B, E, M):
    """column-by-column dense solve of A X - M X E = B; returns X (*batch, n, ncols) and the shifted matrices"""
    n, ncols = B.shape[-2:]
    S = dense_shifted(A, E, M, ncols)                            # (ncols, *bS, n, n)
    bS = list(S.shape[1:-2])
    bat = bshape(bS, B.shape[:-2])
    Sb = S.reshape(ncols, *([1] * (len(bat) - len(bS))), *bS, n, n).expand(ncols, *bat, n, n)
    Bb = B.expand(*bat, n, ncols).movedim(-1, 0).unsqueeze(-1)   # (ncols, *bat, n, 1)
    X = torch.linalg.solve(Sb, Bb).squeeze(-1).movedim(0, -1)    # (*bat, n, ncols)
    return X, Sb
