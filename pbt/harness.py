"""Runner for the property checks: sharding, seeding, Hypothesis settings, violation handling,
bounded shrinking, replay files, known findings, evidence, exit codes.

A property module (pbt/props/cNN.py) exposes

    PID, RULE, ASSUMPTIONS            (strings / list of strings)
    LEVEL                             (optional, default "exploration")
    SITES                             (optional) {name: predicate(case)} used by known_findings.json
    tasks(tier) -> [Task, ...]

Every Task owns a Hypothesis strategy producing a *case* (JSON-serialisable dict) and
`run(case) -> Verdict`; replay is `run(json.load(file)["case"])`, bypassing Hypothesis.
Stateful tasks provide `machine` (a factory returning a RuleBasedStateMachine class whose rules
append JSON ops to `self.ops` and interpret them with the same code that `run` uses).

Exit codes: 0 property held on everything explored (KNOWN-FINDING lines allowed),
1 violation (line `VIOLATION property=<id> replay=<path>`), 2 harness error.
"""
from __future__ import annotations

import hashlib
import importlib
import json
import os
import subprocess
import sys
import time
import traceback
import warnings
import zlib
from collections import Counter
from dataclasses import dataclass, field
from typing import Any, Callable, Dict, List, Optional

ROOT = os.path.dirname(os.path.dirname(os.path.abspath(__file__)))
REPO = os.environ.get("XITORCH_REPO", "/repo")
REPO_PKG = os.path.join(REPO, "xitorch") + os.sep


# ----------------------------------------------------------------------------------------------
# verdicts

@dataclass
class Verdict:
    status: str                      # "ok" | "violation" | "discard"
    kind: str = ""                   # violation kind / discard reason
    detail: str = ""
    labels: tuple = ()
    nontrivial: bool = False
    key: Any = None                  # distinctness key (defaults to the canonical case hash)


def ok(labels=(), nontrivial=False, key=None) -> Verdict:
    return Verdict("ok", labels=tuple(labels), nontrivial=nontrivial, key=key)


def violation(kind: str, detail: str = "", labels=()) -> Verdict:
    return Verdict("violation", kind=kind, detail=str(detail)[:2000], labels=tuple(labels))


def discard(reason: str, labels=()) -> Verdict:
    return Verdict("discard", kind=reason, labels=tuple(labels))


class HarnessError(Exception):
    pass


class Violation(AssertionError):
    pass


class XitorchRaised(Exception):
    """an exception that came out of a call into xitorch (or out of autograd running xitorch's backward)"""
    def __init__(self, kind, detail):
        super().__init__(kind)
        self.kind = kind
        self.detail = detail


def xt_call(fn, *args, _where="backward", **kwargs):
    """call into xitorch / autograd-through-xitorch; any exception becomes a violation candidate.
    (the autograd engine raises some errors - e.g. a gradient returned for a non-tensor input - from C++,
    without any xitorch frame on the traceback, so frame-based classification alone would miss them)"""
    import re
    try:
        return fn(*args, **kwargs)
    except (HarnessError, KeyboardInterrupt, MemoryError):
        raise
    except Exception as e:  # noqa: BLE001
        site = xitorch_frame(e.__traceback__) or _where
        msg = re.sub(r"[0-9]+", "#", str(e).splitlines()[0] if str(e) else "")[:80]
        tbtxt = "".join(traceback.format_exception(type(e), e, e.__traceback__)[-5:])
        raise XitorchRaised("exception:%s@%s:%s" % (type(e).__name__, site, msg), "%s: %s\n%s" % (type(e).__name__, e, tbtxt[-1200:])) from e


@dataclass
class Task:
    name: str
    strategy: Any = None                     # hypothesis strategy -> case dict
    run: Callable[[dict], Verdict] = None    # case -> Verdict
    examples: Dict[str, int] = field(default_factory=lambda: {"quick": 200, "thorough": 2000})
    machine: Any = None                      # factory(stats_cb) -> RuleBasedStateMachine subclass
    steps: Dict[str, int] = field(default_factory=lambda: {"quick": 20, "thorough": 40})
    enumerate: Any = None                    # callable(tier, shard, nshards) -> iterable of cases
    exhaustive: bool = False


# ----------------------------------------------------------------------------------------------
# exception classification

def xitorch_frame(tb) -> Optional[str]:
    """innermost frame that lies in the xitorch package, as 'file:function', or None"""
    site = None
    for fs in traceback.extract_tb(tb):
        fn = os.path.abspath(fs.filename)
        if fn.startswith(REPO_PKG):
            site = "%s:%s" % (os.path.relpath(fn, REPO), fs.name)
    return site


def classify_exception(e: BaseException) -> Optional[str]:
    """violation kind for an exception raised below an xitorch frame, None for harness errors"""
    site = xitorch_frame(e.__traceback__)
    if site is None:
        return None
    return "exception:%s@%s" % (type(e).__name__, site)


def safe_run(run: Callable[[dict], Verdict], case: dict) -> Verdict:
    """run a case; exceptions with an xitorch frame become violations, others harness errors"""
    try:
        with warnings.catch_warnings():
            warnings.simplefilter("ignore")
            v = run(case)
    except (HarnessError, KeyboardInterrupt, MemoryError):
        raise
    except XitorchRaised as e:
        return violation(e.kind, e.detail)
    except Exception as e:  # noqa: BLE001 - classified, not swallowed
        kind = classify_exception(e)
        if kind is None:
            raise HarnessError("harness/reference code raised on case %s:\n%s" % (
                json.dumps(case)[:1500], traceback.format_exc())) from e
        tbtxt = "".join(traceback.format_exception(type(e), e, e.__traceback__)[-6:])
        return violation(kind, "%s: %s\n%s" % (type(e).__name__, e, tbtxt[-1500:]))
    if not isinstance(v, Verdict):
        raise HarnessError("run_case returned %r" % (v,))
    return v


# ----------------------------------------------------------------------------------------------
# known findings

def load_known(pid: str) -> List[dict]:
    path = os.path.join(ROOT, "known_findings.json")
    if not os.path.exists(path):
        return []
    with open(path) as f:
        data = json.load(f)
    return [e for e in data.get("findings", []) if e.get("property") == pid and e.get("status") == "known"]


def match_known(known: List[dict], sites: Dict[str, Callable], case: dict, v: Verdict) -> Optional[str]:
    for e in known:
        if not v.kind.startswith(e.get("kind_prefix", "")):
            continue
        pred = sites.get(e["site"])
        if pred is None:
            raise HarnessError("known finding refers to unknown site %r" % e["site"])
        try:
            if pred(case):
                return e["id"]
        except Exception as ex:  # noqa: BLE001
            raise HarnessError("site predicate %r failed: %r" % (e["site"], ex))
    return None


# ----------------------------------------------------------------------------------------------
# worker

def canon(case) -> str:
    return json.dumps(case, sort_keys=True, separators=(",", ":"), default=str)


def stable_seed(*parts) -> int:
    return zlib.crc32("|".join(str(p) for p in parts).encode()) & 0x7FFFFFFF


class Stats:
    def __init__(self):
        self.evaluations = 0
        self.keys = set()
        self.labels = Counter()
        self.discards = Counter()
        self.samples: Dict[str, list] = {}
        self.known_hits = Counter()
        self.violations: List[dict] = []
        self.collected: Dict[str, dict] = {}
        self.skipped_budget = 0
        self.per_task = Counter()
        self.extra = Counter()

    def record(self, task: str, case: dict, v: Verdict):
        self.evaluations += 1
        self.per_task[task] += 1
        for lb in v.labels:
            self.labels[lb] += 1
        if v.status == "discard":
            self.discards[v.kind] += 1
            return
        if v.nontrivial:
            key = v.key if v.key is not None else canon(case)
            h = hashlib.sha1((task + "|" + canon(key)).encode()).hexdigest()[:16]
            if h not in self.keys:
                self.keys.add(h)
                group = task + (":" + v.labels[0] if v.labels else "")
                lst = self.samples.setdefault(group, [])
                if len(lst) < 1:
                    lst.append(case)

    def dump(self) -> dict:
        return {
            "evaluations": self.evaluations,
            "keys": sorted(self.keys),
            "labels": dict(self.labels),
            "discards": dict(self.discards),
            "samples": self.samples,
            "known_hits": dict(self.known_hits),
            "violations": self.violations,
            "collected": self.collected,
            "skipped_budget": self.skipped_budget,
            "per_task": dict(self.per_task),
            "extra": dict(self.extra),
        }


def _hyp_settings(n, tier, shrink=True, steps=None):
    from hypothesis import settings, HealthCheck, Phase
    phases = [Phase.explicit, Phase.generate] + ([Phase.shrink] if shrink else [])
    kw = dict(max_examples=max(1, n), database=None, deadline=None, derandomize=False,
              report_multiple_bugs=False, suppress_health_check=list(HealthCheck), phases=phases,
              print_blob=False)
    if steps is not None:
        kw["stateful_step_count"] = steps
    return settings(**kw)


def run_worker(pid: str, tier: str, seed: int, shard: int, nshards: int, deadline_s: float,
               collect: bool, scale: float, only_task: Optional[str]) -> dict:
    import torch
    torch.set_num_threads(1)
    import hypothesis
    from hypothesis import given
    try:        # a runaway case must end as a harness error (exit 2) of this worker, not as an out-of-memory machine
        import resource
        cap = int(os.environ.get("VERIF_WORKER_MEM_GB", "10")) << 30
        resource.setrlimit(resource.RLIMIT_AS, (cap, cap))
    except Exception:  # noqa: BLE001
        pass

    cov = None
    if os.environ.get("VERIF_COV"):     # dev: line/branch coverage of xitorch reached by this check (tools/cov_report.py)
        import coverage
        os.makedirs(os.environ["VERIF_COV"], exist_ok=True)
        cov = coverage.Coverage(data_file=os.path.join(os.environ["VERIF_COV"], "%s.%d.cov" % (pid, shard)), branch=True,
                                source=[os.path.join(os.environ.get("XITORCH_REPO", "/repo"), "xitorch")], config_file=False)
        cov.start()
        import atexit
        atexit.register(lambda: (cov.stop(), cov.save()))

    mod = importlib.import_module("pbt.props." + pid.lower())
    sites = getattr(mod, "SITES", {})
    known = load_known(pid)
    stats = Stats()
    t_end = time.time() + deadline_s
    shrink_budget = 25.0 if tier == "quick" else 120.0

    # committed regression cases first (shard 0 only)
    if shard == 0:
        rdir = os.path.join(ROOT, "regress", pid)
        tasks_by_name = {t.name: t for t in mod.tasks(tier)}
        if os.path.isdir(rdir):
            for fn in sorted(os.listdir(rdir)):
                if not fn.endswith(".json"):
                    continue
                with open(os.path.join(rdir, fn)) as f:
                    rec = json.load(f)
                t = tasks_by_name.get(rec.get("task"))
                if t is None:
                    continue
                v = safe_run(t.run, rec["case"])
                stats.extra["regress_cases"] += 1
                if v.status == "violation":
                    kid = match_known(known, sites, rec["case"], v)
                    if kid:
                        stats.known_hits[kid] += 1
                    else:
                        stats.violations.append({"task": t.name, "case": rec["case"], "kind": v.kind,
                                                 "detail": v.detail, "from": "regress/" + fn})

    for task in mod.tasks(tier):
        if only_task and task.name != only_task:
            continue
        n_total = int(task.examples.get(tier, 100) * scale)
        n = max(1, (n_total + nshards - 1) // nshards)
        hseed = stable_seed(seed, pid, task.name, shard)
        state = {"best": None, "t_fail": None, "harness": None}

        def body(case, task=task, state=state):
            if state["harness"] is not None:
                raise state["harness"]
            now = time.time()
            if state["best"] is None and now > t_end:
                stats.skipped_budget += 1
                return
            if state["t_fail"] is not None and now > state["t_fail"] + shrink_budget:
                # shrink budget exhausted: only the best known failing case still fails
                if canon(case) != canon(state["best"]["case"]):
                    return
            try:
                v = safe_run(task.run, case)
            except HarnessError as he:
                state["harness"] = he
                raise
            stats.extra["_ncalls"] += 1
            if stats.extra["_ncalls"] % 20 == 0:
                # autograd graphs caught in reference cycles are few objects but much memory: do not wait for
                # the generational collector's object-count thresholds
                import gc
                gc.collect()
            if state["best"] is None:
                stats.record(task.name, case, v)
            if v.status != "violation":
                return
            kid = match_known(known, sites, case, v)
            if kid is not None:
                stats.known_hits[kid] += 1
                stats.samples.setdefault("known:" + kid, [case] if len(canon(case)) < 4000 else [])
                return
            if collect:
                b = stats.collected.get(v.kind)
                if b is None or len(canon(case)) < len(canon(b["case"])):
                    stats.collected[v.kind] = {"task": task.name, "case": case, "kind": v.kind,
                                               "detail": v.detail, "count": (b or {}).get("count", 0) + 1}
                else:
                    b["count"] += 1
                return
            if state["t_fail"] is None:
                state["t_fail"] = now
            state["best"] = {"task": task.name, "case": case, "kind": v.kind, "detail": v.detail}
            raise Violation("%s: %s" % (v.kind, v.detail[:300]))

        try:
            if task.enumerate is not None:
                for case in task.enumerate(tier, shard, nshards):
                    body(case)
            elif task.machine is not None:
                from hypothesis.stateful import run_state_machine_as_test
                holder = {"submit": body}
                Machine = task.machine(holder)
                Machine = hypothesis.seed(hseed)(Machine)
                run_state_machine_as_test(Machine, settings=_hyp_settings(n, tier, steps=task.steps.get(tier, 20)))
            else:
                test = given(task.strategy)(lambda case: body(case))
                test = hypothesis.seed(hseed)(test)
                test = _hyp_settings(n, tier)(test)
                test()
        except HarnessError:
            raise
        except BaseException as e:  # noqa: BLE001
            if state["harness"] is not None:
                raise state["harness"]
            if state["best"] is not None:
                stats.violations.append(state["best"])
            elif isinstance(e, KeyboardInterrupt):
                raise
            else:
                raise HarnessError("hypothesis/task failure in %s: %s" % (task.name, traceback.format_exc()))
    return stats.dump()


# ----------------------------------------------------------------------------------------------
# parent

def write_replay(pid: str, rec: dict) -> str:
    d = os.path.join(ROOT, "replays", pid)
    os.makedirs(d, exist_ok=True)
    body = {"property": pid, "task": rec["task"], "kind": rec["kind"], "detail": rec["detail"], "case": rec["case"]}
    h = hashlib.sha1(canon(body["case"]).encode() + rec["task"].encode()).hexdigest()[:12]
    path = os.path.join(d, h + ".json")
    with open(path, "w") as f:
        json.dump(body, f, indent=1, sort_keys=True, default=str)
    return os.path.relpath(path, ROOT)


def replay(pid: str, path: str) -> int:
    import torch
    torch.set_num_threads(1)
    mod = importlib.import_module("pbt.props." + pid.lower())
    with open(path) as f:
        rec = json.load(f)
    tasks = {t.name: t for t in mod.tasks("thorough")}
    t = tasks[rec["task"]]
    v = safe_run(t.run, rec["case"])
    if v.status == "violation":
        known = load_known(pid)
        kid = match_known(known, getattr(mod, "SITES", {}), rec["case"], v)
        if kid:
            print("KNOWN-FINDING: property=%s %s" % (pid, kid))
            return 0
        print("replay: %s\n%s" % (v.kind, v.detail))
        print("VIOLATION property=%s replay=%s" % (pid, path))
        return 1
    print("replay: %s (%s) — no violation" % (v.status, v.kind))
    return 0


def main(argv=None) -> int:
    import argparse
    ap = argparse.ArgumentParser()
    ap.add_argument("pid")
    ap.add_argument("--tier", default=os.environ.get("VERIF_TIER", "quick"), choices=["quick", "thorough"])
    ap.add_argument("--replay")
    ap.add_argument("--workers", type=int)
    ap.add_argument("--scale", type=float, default=1.0)
    ap.add_argument("--collect", action="store_true", help="dev: bucket violations by kind, never stop")
    ap.add_argument("--task")
    ap.add_argument("--worker", help=argparse.SUPPRESS)
    ap.add_argument("--no-evidence", action="store_true")
    a = ap.parse_args(argv)
    pid = a.pid.upper()
    try:
        seed = int(os.environ.get("VERIF_SEED", "1"))
    except ValueError:
        seed = stable_seed(os.environ.get("VERIF_SEED"))

    if a.replay:
        try:
            return replay(pid, a.replay)
        except HarnessError as e:
            print("HARNESS-ERROR:", e)
            return 2

    if a.worker:
        spec = json.loads(a.worker)
        try:
            res = run_worker(pid, a.tier, seed, spec["shard"], spec["nshards"], spec["deadline_s"],
                             a.collect, a.scale, a.task)
        except HarnessError as e:
            sys.stderr.write("HARNESS-ERROR: %s\n" % e)
            return 2
        with open(spec["out"], "w") as f:
            json.dump(res, f, default=str)
        return 0

    t0 = time.time()
    mod = importlib.import_module("pbt.props." + pid.lower())
    nworkers = a.workers or (8 if a.tier == "quick" else 16)
    nworkers = min(nworkers, os.cpu_count() or 1)
    deadline_s = float(getattr(mod, "WALL", {}).get(a.tier, 240 if a.tier == "quick" else 1500))
    work = os.path.join(ROOT, ".work")
    os.makedirs(work, exist_ok=True)
    procs = []
    env = dict(os.environ)
    env["PYTHONHASHSEED"] = "0"
    env["OMP_NUM_THREADS"] = "1"
    env["MKL_NUM_THREADS"] = "1"
    for w in range(nworkers):
        out = os.path.join(work, "%s-%s-%d-%d.json" % (pid, a.tier, os.getpid(), w))
        if os.path.exists(out):
            os.remove(out)
        spec = {"shard": w, "nshards": nworkers, "deadline_s": deadline_s, "out": out}
        cmd = [sys.executable, os.path.join(ROOT, "check"), pid, "--tier", a.tier, "--scale", str(a.scale),
               "--worker", json.dumps(spec)]
        if a.collect:
            cmd.append("--collect")
        if a.task:
            cmd += ["--task", a.task]
        procs.append((subprocess.Popen(cmd, env=env, cwd=ROOT, stdout=subprocess.PIPE, stderr=subprocess.PIPE), out))

    results, harness_errors = [], []
    for p, out in procs:
        so, se = p.communicate()
        if p.returncode != 0 or not os.path.exists(out):
            harness_errors.append("worker exit %s\n%s\n%s" % (p.returncode, so.decode()[-3000:], se.decode()[-6000:]))
            continue
        with open(out) as f:
            results.append(json.load(f))
        os.remove(out)

    # merge
    ev = 0
    keys = set()
    labels, discards, known_hits, per_task, extra = Counter(), Counter(), Counter(), Counter(), Counter()
    samples: Dict[str, list] = {}
    viols, collected = [], {}
    skipped = 0
    for r in results:
        ev += r["evaluations"]
        keys.update(r["keys"])
        labels.update(r["labels"])
        discards.update(r["discards"])
        known_hits.update(r["known_hits"])
        per_task.update(r["per_task"])
        extra.update(r["extra"])
        skipped += r["skipped_budget"]
        for g, lst in r["samples"].items():
            samples.setdefault(g, [])
            if len(samples[g]) < 1:
                samples[g].extend(lst[:1])
        viols.extend(r["violations"])
        for k, b in r["collected"].items():
            c = collected.get(k)
            if c is None or len(canon(b["case"])) < len(canon(c["case"])):
                b["count"] += (c or {}).get("count", 0)
                collected[k] = b
            else:
                c["count"] += b["count"]

    if a.collect:
        for k, b in sorted(collected.items()):
            print("=== [%d] %s (task %s)\n%s\ncase=%s" % (b["count"], k, b["task"], b["detail"][:1200], canon(b["case"])))
            print("replay:", write_replay(pid, b))

    sample_list = []
    for g in sorted(samples):
        for c in samples[g]:
            if len(sample_list) < 16:
                sample_list.append({"group": g, "case": c})

    wall = time.time() - t0
    evidence = {
        "property_id": pid,
        "tier": a.tier,
        "seed": seed,
        "level": getattr(mod, "LEVEL", "exploration"),
        "coverage": {
            "evaluations": ev,
            "distinct_nontrivial": len(keys),
            "rule": mod.RULE,
            "samples": sample_list,
            "exhaustive": bool(getattr(mod, "EXHAUSTIVE", False)),
            "labels": dict(sorted(labels.items())),
            "per_task": dict(sorted(per_task.items())),
            "discarded": dict(sorted(discards.items())),
            "known_finding_hits": dict(known_hits),
            "skipped_after_wall_budget": skipped,
            "inconclusive_budget": skipped > 0,
            "workers": nworkers,
            "extra": dict(extra),
        },
        "assumptions": list(mod.ASSUMPTIONS),
        "wall_s": round(wall, 2),
        "violations": len(viols),
    }
    if harness_errors:
        for h in harness_errors[:3]:
            print("HARNESS-ERROR:", h)
        return 2
    if not a.no_evidence and not a.task:
        os.makedirs(os.path.join(ROOT, "evidence"), exist_ok=True)
        with open(os.path.join(ROOT, "evidence", pid + ".json"), "w") as f:
            json.dump(evidence, f, indent=1, sort_keys=True, default=str)

    print("%s tier=%s seed=%d: %d cases, %d distinct non-trivial, %d discarded, %.1fs%s" % (
        pid, a.tier, seed, ev, len(keys), sum(discards.values()), wall,
        " (wall budget reached: inconclusive for %d skipped cases)" % skipped if skipped else ""))
    known = load_known(pid)
    for e in known:
        if known_hits.get(e["id"]):
            print("KNOWN-FINDING: property=%s %s [%s; %d cases]" % (pid, e["what"], e["id"], known_hits[e["id"]]))
        else:
            print("KNOWN-FINDING-NOT-REPRODUCED: property=%s %s" % (pid, e["id"]))
    if viols:
        seen = set()
        for rec in viols:
            path = write_replay(pid, rec)
            if path in seen:
                continue
            seen.add(path)
            print("violation kind: %s\n%s" % (rec["kind"], rec["detail"][:1500]))
            print("VIOLATION property=%s replay=%s" % (pid, path))
        return 1
    return 0
