"""C05 — symeig and svd return the requested, correctly normalised spectral pairs.

Tasks
  dense     symeig with exacteig (explicit and default) / custom_exacteig: f64 and c128, n 2..8 (thorough 12)
  davidson  symeig with davidson: real, n 8..32 (thorough 64), neig <= 4, options min_eps / v_init / max_niter / max_addition
  svd       svd of tall / wide / square operators, k in 1..min(m,n), both modes, dense paths (+ davidson, real)

Oracle, both directions (DESIGN.md C05):
  shape     E (*BAM, k), X (*BAM, n, k) with BAM = broadcast(batch A, batch M); E real, X in A's dtype, all finite
  order     E non-decreasing along the last axis
  validity  column residuals ||A x_i - E_i M x_i||_2 and ||X^H M X - I||_max, against the dense A and M
  extreme   E equals the k lowest / uppermost values of scipy.linalg.eigh(A, M) of every broadcast batch element
Vectors are judged through `validity` only, so any basis of a degenerate subspace is accepted (also when the repeated
value sits at the cut between kept and dropped values).

Tolerances (eps = 2.2e-16, kM = cond(M), lmin = lambda_min(M), ||A||, ||M|| = max(2-norm, norm scale of the leaves the
operator is built from: a sum operator stores 0.25 A + R and 0.75 A - R and realises A only up to eps |R|)):
  dense paths: tau = 1e3 n eps kM;  residual <= tau (||A|| + |E_i| ||M||) ||x_i||;  orthonormality <= tau;
               values <= tau ||A|| / lmin  (backward stability of Cholesky reduction + eigh, constant 1e3)
  davidson:    the loop ends when max|A X - M X diag(E)| < min_eps (entry-wise, over the whole batch), when the search space is the
               full space, or after max_niter iterations, and returns the best iterate; unless the residual test was met a
               ConvergenceWarning is emitted (since the repair `fix: davidson returned unconverged eigenpairs without ...`).
               Claim: a *silent* return has max|R| <= min_eps + tau_r (tau_r = rounding of our dense recomputation); a warned return
               voids the accuracy claims (discard) but keeps shape / dtype / finiteness.  Values: by the Hermitian residual bound (Kahan)
               the k Ritz values are within rho = 1.01 sqrt(n k) max|R| / sqrt(lmin) of k eigenvalues.  That these are the *extreme*
               ones cannot follow from a residual: the generator therefore draws min_eps such that rho <= (smallest non-zero gap of the
               generated spectrum)/4, so every returned vector is resolved to one eigenvalue (or one exactly repeated group).  What remains
               is genuine mis-convergence (start block nearly orthogonal to a wanted eigenvector; seen once in 5.7e4 thorough cases, on a
               fully clustered spectrum with min_eps 1e-5): such a case is re-run with 1e-4 min_eps and discarded
               (`davidson_misconverged_at_loose_min_eps`, counted) only if that run agrees with LAPACK; a wrong selection fails both.
               Orthonormality: a single Cholesky-QR pass of [V, t] loses orthogonality like eps cond([V,t])^2 (measured up to 1.3e-7, and
               6e-6 in the regress case, before the CholeskyQR2 repair; ~1e-13 after), which min_eps does not control; required: <= tau + 4 sqrt(n k) min_eps / ||A||, i.e. at least as good as the
               eigenvector accuracy sqrt(n k) min_eps / ||A|| that the residual test itself implies.
Units (homogeneity): A is generated as unitA * (the matrix above) and M as unitM * (...), units drawn independently from
  {1e-9, 1e-7, 1e-4, 1, 1e3, 1e6} (5 in 12 draws are 1), realised by scaling the leaf tensors of every operator kind.  The pencil
  then has eigenvalues (unitA/unitM) lam and M-orthonormal vectors X/sqrt(unitM); svd(unit A) = (U, unit S, Vh).  All tolerances above are
  relative to the scaled magnitudes (||A||, ||M||, lmin, smax, smin are those of the scaled data), so a floor / jitter / threshold that is
  absolute in the data's units shows.  davidson's min_eps is an absolute bound on A X - M X diag(E), which carries the unit
  unitA/sqrt(unitM) (svd: unit^2, the Gram matrix): the caller states it in those units (min_eps = drawn value * that unit; the default
  1e-6 is only used with unit data); the orthonormality allowance uses min_eps sqrt(unitM) / ||A||.  Measured on the unchanged tree:
  scaled and unscaled davidson cases end identically (300 pairs: same silent / warned outcome).
  svd documents one absolute floor (s is clamped at 1e-12 before the division): generated s >= 0.3 * 1e-9 = 3e-10 >= 1e-10.
svd (through symeig of A^H A or A A^H, singular values s in [0.3, 3] * unit by construction):
  tau_s = 1e3 max(m,n) eps (smax/smin)^2;  U^H U = I, Vh Vh^H = I within tau_s;  A v_i = s_i u_i, A^H u_i = s_i v_i, U diag(S) Vh = A
  (full k) and S vs the k extreme scipy svdvals within tau_s smax;  S >= 0;  davidson: tau_s + 4 sqrt(max(m,n) k) min_eps / smin^2.

Recorded finding (SITES, see with_recorded_finding): davidson orthonormalises its expansion block [V, t] by a Cholesky factorisation of
the Gram matrix.  When the block is numerically rank deficient (a residual column that is ~0 or nearly parallel to another while a pair is
not converged) this raises LinAlgError in tallqr or silently loses orthogonality (wrong Ritz pairs, unexpected warning).  With exactly
repeated eigenvalues it is structural: multiplicity > neig (block-Krylov exhaustion) or neig not dividing n (dim V + multiplicity > n before
the full space): that region (`davidson_rank_deficient_expansion`) is generated only if known_findings.json lists the site
`davidson_clustered`; otherwise multiplicities are capped at neig and n is a multiple of neig by construction (repetition at the cut is
still generated: neig=2, spectrum 1,2,2,...).  On spectra with 1e-3 clusters it also occurs (after the CholeskyQR2 repair: the LinAlgError about once in 7000 thorough-size cases) and
cannot be excluded by construction: for davidson cases whose spectrum has a cluster or repeat, the kinds `exception:_LinAlgError@...tallqr`
and `davidson_numerics:*` are known-finding hits when the site is listed and explicitly named discards
(`recorded_finding_not_listed:*`) otherwise.  On well separated spectra they are always violations.
"""
from __future__ import annotations

import math
import warnings

import numpy as np
import scipy.linalg
import torch
from hypothesis import strategies as st

from pbt import gen
from pbt import ref_c05 as R
from pbt.harness import Task, ok, violation, discard, xt_call, XitorchRaised

PID = "C05"
RULE = ("symeig: prescribed generalised spectra (separated / clustered 1e-3 / exactly repeated, also at the cut; all-negative, "
        "all-positive, mixed) realised as A = S Q diag(lam) Q^H S^H, M = S S^H (cond(M) <= 10) or M absent; operator kinds dense, "
        "matrix-free (mv / mv+mm / mv+mm+fullmatrix), sums, differences, scalings; independent batch patterns of A and M (rank 0..2, "
        "broadcast by construction); neig in 1..n or None; mode spelled lowest/uppest/uppermost in mixed case; entry points symeig / "
        "lsymeig / usymeig; with and without grad mode. dense: exacteig (named or default) and custom_exacteig, f64/c128, n 2..8 "
        "(thorough 12), 1 in 6 with exactly diagonal A and M. davidson: real, n 8..32 (thorough 64), neig<=4, min_eps in {1e-4..1e-9}, v_init randn/rand/eye, "
        "max_niter default / sufficient / 1..4 (must then warn). Units: A and (independently) M multiplied by a unit in "
        "{1e-9,1e-7,1e-4,1,1e3,1e6} (all tasks; davidson's min_eps stated in the unit of its residual), tolerances relative. svd: m,n<=8, "
        "tall/wide/square, real/complex, k in 1..min(m,n) or None, both modes, singular values in [0.3,3]*unit incl. repeated and clustered. "
        "Non-trivial = at least two distinct eigen/singular values and (k < full or M given or a batch dimension > 1 or a "
        "composite/matrix-free operator); distinct by canonical case.")
ASSUMPTIONS = [
    "dense reference: scipy.linalg.eigh(A, M) / scipy.linalg.svdvals of every broadcast batch element (LAPACK)",
    "tolerances: see module docstring; constants 1e3 on n*eps*cond(M) (dense); davidson: silent return => entry-wise residual <= min_eps (+rounding)",
    "davidson: a ConvergenceWarning voids the accuracy claims of that case (counted as discard `convergence_warning`; about 8% of the davidson "
    "cases use max_niter in 1..4 on purpose); min_eps is drawn such that the residual resolution is <= 1/4 of the smallest non-zero gap",
    "davidson: exact repeats only with multiplicity <= neig and n a multiple of neig unless known_findings.json lists site davidson_clustered (recorded finding); "
    "numerical failures of davidson on spectra with clusters/repeats are that recorded finding: known-finding hits if listed, named discards otherwise",
    "davidson with max_niter >= ceil(n/neig)+1 (or default) must return without a ConvergenceWarning (the full space is reached, where Rayleigh-Ritz is exact)",
    "davidson's start block is generic w.r.t. the eigenvectors (A = S Q diag Q^H S^H with seeded random Q), so mis-convergence from a start "
    "vector orthogonal to a wanted eigenvector is not generated (DESIGN.md section 6)",
    "davidson supports real dtypes only (it transposes without conjugation); complex is generated for the dense paths only",
    "svd: singular values kept in [0.3, 3] * unit (condition <= 10) because the second factor is obtained by dividing A v (or A^H u) by s; "
    "unit >= 1e-9 keeps s >= 3e-10, above the documented floor 1e-12 of that division",
    "units: symeig / svd are homogeneous (symeig(a A, b M) = (a/b E, X/sqrt(b)), svd(c A) = (U, c S, Vh)); no absolute threshold is documented "
    "for the forward pass other than svd's 1e-12 floor and davidson's min_eps (which the generated caller scales with the data)",
]
LEVEL_TEXT = ("Exploration against LAPACK (scipy) over generated spectra, operator kinds, batch patterns, neig/mode spellings and methods, "
              "checking validity of the returned pairs and extremality of the returned values separately.")
LEVEL_NOTE = "trusts scipy.linalg.eigh/svdvals and dense torch.matmul; n<=12 dense, n<=64 davidson, cond(M)<=10, data units 1e-9..1e6"
TECHNIQUE = "Hypothesis property-based testing: differential oracle (LAPACK) + residual/orthonormality invariants with derived tolerances"
WALL = {"quick": 300, "thorough": 1800}

EPS = R.EPS
MODES_LOW = ["lowest", "Lowest", "LOWEST"]
MODES_UP = ["uppest", "uppermost", "Uppest", "UpperMost", "UPPERMOST"]


BREAKDOWN_KIND = "exception:_LinAlgError@xitorch/_utils/tensor.py:tallqr"


def forward_call(call, nograd):
    if nograd:
        with torch.no_grad():
            return xt_call(call, _where="forward")
    return xt_call(call, _where="forward")


NUMERICS = ("residual", "orthonormality", "u_orthonormal", "v_orthonormal", "pairing", "pairing_adjoint", "reconstruction",
            "nonconvergence_with_sufficient_budget")


def with_recorded_finding(run):
    """davidson orthonormalises its expansion block [V, t] by a Cholesky factorisation of the Gram matrix and reuses A V of the old columns.
    When the block is (numerically) rank deficient this raises LinAlgError in tallqr or silently loses orthogonality (then the cached A V, the
    residual test and the Ritz pairs are wrong).  This is a recorded, unrepaired finding.  Its region is partly structural (exact repeats:
    rank_deficient_expansion_region, avoided by construction) and partly not (spectra with 1e-3 clusters; before the repair `fix: davidson lost
    the orthonormality ...` (second Cholesky-QR pass) about 1 in 3000 cases incl. separated spectra, afterwards only the LinAlgError, about 1 in 7000).
    Policy for davidson cases whose spectrum has a cluster or an exact repeat: the kinds `exception:_LinAlgError@...tallqr` and
    `davidson_numerics:*` are passed on as violations when known_findings.json lists the site `davidson_clustered` (the harness counts them
    as known-finding hits) and are turned into explicitly named discards otherwise.  On well separated spectra they are always violations
    (none in > 2e4 thorough-size cases on the repaired tree; the davidson mutants are caught there)."""
    def wrapped(case):
        try:
            v = run(case)
        except XitorchRaised as e:
            v = violation(e.kind, e.detail)
        if v.status != "violation" or case.get("method") != "davidson":
            return v
        if v.kind in NUMERICS:
            v = violation("davidson_numerics:" + v.kind, v.detail, v.labels)
        elif not v.kind.startswith(BREAKDOWN_KIND):
            return v
        if not has_cluster(case.get("lam") or case.get("sv")) or _listed("davidson_clustered"):
            return v
        return discard("recorded_finding_not_listed:" + ("tallqr_LinAlgError" if v.kind.startswith(BREAKDOWN_KIND) else v.kind), v.labels)
    return wrapped


def _listed(site):
    from pbt.harness import load_known
    return any(e.get("site") == site for e in load_known(PID))


def _fmt(t):
    return [float("%.12g" % float(v)) for v in t.reshape(-1)[:8]]


# units in which the caller expresses A (and, independently, M): the decompositions are homogeneous, so everything the oracle
# requires is relative to the scaled magnitudes.  svd documents one absolute floor (s is clamped at 1e-12 before the division):
# generated singular values are >= 0.3 unit >= 3e-10.
UNITS = [1e-9, 1e-7, 1e-4, 1.0, 1e3, 1e6]
UNIT_DRAW = [1.0] * 5 + [1e-9, 1e-9, 1e-7, 1e-7, 1e-4, 1e3, 1e6]


def scale_leaves(kind, leaves, c):
    """leaves of the operator kind realising c * dense_of(kind, leaves): every kind is linear in each leaf; a product is scaled
    through its first factor only"""
    if c == 1.0:
        return leaves
    if kind == "matmul":
        return [leaves[0] * c, leaves[1]]
    return [l * c for l in leaves]


def rescale_pencil(p, ua, um):
    """the pencil (ua A, um M): eigenvalues ua/um lam, M-orthonormal vectors X / sqrt(um); updates what the generator knows"""
    if ua != 1.0:
        p.A = p.A * ua
    if p.M is not None and um != 1.0:
        p.M = p.M * um
        p.mscal = p.mscal * um
        p.m_lmin *= um
        p.m_norm *= um
    else:
        um = 1.0
    p.lam = p.lam * (ua / um)
    p.gapscale *= ua / um
    return p


def symeig_case_labels(case, p, k):
    lam = case["lam"]
    n = len(lam)
    low = case["mode"].lower() == "lowest"
    incs = [lam[i + 1] - lam[i] for i in range(n - 1)]
    spec = "repeated" if any(d == 0 for d in incs) else ("clustered" if any(d < 0.01 for d in incs) else "separated")
    cut = "none"
    if k < n:
        d = incs[k - 1] if low else incs[n - k - 1]
        cut = "repeated" if d == 0 else ("clustered" if d < 0.01 else "gap")
    sign = "neg" if lam[-1] < 0 else ("pos" if lam[0] > 0 else "mixed")
    return ["method=%s" % case["method"], "mode=%s" % ("lowest" if low else "uppest"), "M=%s" % (case["mop"] if case["batchM"] is not None else "none"),
            "aop=%s" % case["aop"], "dtype=%s" % case["dtype"], "spectrum=%s" % spec, "cut=%s" % cut, "sign=%s" % sign,
            "neig=%s" % ("none" if case["neig"] is None else ("full" if k == n else "partial")),
            "batch=%dx%d" % (len(case["batchA"]), -1 if case["batchM"] is None else len(case["batchM"])),
            "entry=%s" % case["entry"], "grad=%s" % (not case["nograd"]), "modestr=%s" % case["mode"],
            "structure=%s" % case.get("structure", "generic")]


def _run_symeig(case):
    import xitorch.linalg as xl
    torch.manual_seed(case["seed"] & 0x7FFFFFFF)
    g = gen.seeded(case["seed"])
    dtype = R.DT[case["dtype"]]
    lam = case["lam"]
    n = len(lam)
    hasM = case["batchM"] is not None
    p = R.build_pencil(g, lam, dtype, case["batchA"], case["batchM"], case["mkappa"], structure=case.get("structure", "generic"))
    k = n if case["neig"] is None else case["neig"]
    low = case["mode"].lower() == "lowest"
    labels = symeig_case_labels(case, p, k)
    method = case["method"]
    ua = float(case.get("ua", 1.0))
    um = float(case.get("um", 1.0)) if hasM else 1.0
    labels += ["unitA=%g" % ua, "unitM=%s" % (("%g" % um) if hasM else "none")]
    Aleaves = scale_leaves(case["aop"], R.split_leaves(case["aop"], p.A, g), ua)
    Mleaves = scale_leaves(case["mop"], R.split_leaves(case["mop"], p.M, g), um) if hasM else None
    p = rescale_pencil(p, ua, um)
    Aop = R.make_operator(case["aop"], Aleaves, True)
    Mop = R.make_operator(case["mop"], Mleaves, True) if hasM else None
    opts = dict(case.get("opts") or {})
    kwargs = dict(opts)
    if method != "default":
        kwargs["method"] = method
    entry = case["entry"]

    def call():
        if entry == "symeig":
            return xl.symeig(Aop, case["neig"], case["mode"], Mop, **kwargs)
        if entry == "lsymeig":
            return xl.lsymeig(Aop, case["neig"], Mop, **kwargs)
        return xl.usymeig(Aop, case["neig"], Mop, **kwargs)
    with warnings.catch_warnings(record=True) as wlist:
        warnings.simplefilter("always")
        out = forward_call(call, case["nograd"])
    warned = [w for w in wlist if "onverge" in type(w.message).__name__ or "onverge" in str(w.message)]
    if not (isinstance(out, tuple) and len(out) == 2):
        return violation("return_type", "symeig returned %r" % (type(out),), labels)
    E, X = out
    batch = p.batch
    # ---- shape / dtype / finiteness (hold whatever the accuracy)
    if list(E.shape) != [*batch, k] or list(X.shape) != [*batch, n, k]:
        return violation("shape", "E %s X %s, expected (*%s,%d) and (*%s,%d,%d)" % (tuple(E.shape), tuple(X.shape), batch, k, batch, n, k), labels)
    if E.is_complex() or X.dtype != dtype:
        return violation("dtype", "E %s X %s for A of dtype %s" % (E.dtype, X.dtype, dtype), labels)
    if not (bool(torch.isfinite(E).all()) and bool(torch.isfinite(X.abs()).all())):
        return violation("nonfinite", "non-finite eigenpairs: E=%s" % _fmt(E), labels)
    if warned:
        if method == "davidson":
            mn = opts.get("max_niter")
            if mn is None or mn >= -(-n // k) + 1:
                # with that many iterations the search space is the full space, where Rayleigh-Ritz is exact: a warning means that the
                # orthonormalisation went wrong (recorded finding on clustered spectra, see with_recorded_finding; a violation otherwise)
                return violation("nonconvergence_with_sufficient_budget", "davidson warned %r although max_niter=%s allows the full space "
                                 "(n=%d, neig=%d, opts=%s)" % (str(warned[0].message)[:120], mn, n, k, opts), labels + ["conv=warned"])
        return discard("convergence_warning", labels + ["conv=warned"])
    E = E.detach().to(torch.float64)
    X = X.detach()
    # ---- order
    if k > 1 and not bool((E[..., 1:] >= E[..., :-1]).all()):
        return violation("order", "eigenvalues not ascending: %s" % _fmt(E), labels)
    # ---- tolerances
    # norm scales of the data (an operator kind such as add_du realises A only up to eps * scale of its leaves)
    a_norm = max(float(torch.linalg.matrix_norm(p.A, 2).max()), R.leaves_scale(case["aop"], Aleaves))
    m_norm = max(p.m_norm, R.leaves_scale(case["mop"], Mleaves)) if hasM else 1.0
    tau = 1e3 * n * EPS * p.m_kappa
    Ab = p.A.expand(*batch, n, n)
    MX = X if not hasM else p.M.expand(*batch, n, n) @ X
    Res = Ab @ X - MX * E.to(dtype)[..., None, :]
    xnorm = torch.linalg.vector_norm(X, dim=-2)                       # (*batch,k)
    resn = torch.linalg.vector_norm(Res, dim=-2)
    G = R.ct(X) @ MX - torch.eye(k, dtype=dtype)
    orth = float(G.abs().max())
    vals, _ = R.ref_eigh(p.A, p.M, batch)
    Eref = vals[..., :k] if low else vals[..., n - k:]
    verr = float((E - Eref).abs().max())
    scale_r = (a_norm + E.abs() * m_norm) * xnorm
    if method == "davidson":
        min_eps = float(opts.get("min_eps", 1e-6))
        lmin_case = p.m_lmin
        gap = min_positive_gap(lam) * p.gapscale
        if resolution(n, k, min_eps, lmin_case) > gap / 4.0:
            return discard("min_eps_coarser_than_gap", labels)      # hand-written cases only: the strategies construct min_eps
        tau_r = tau * float(scale_r.max())
        rinf = float(Res.abs().max())
        tol_rinf = min_eps + tau_r
        if not rinf <= tol_rinf:
            return violation("residual", "davidson returned silently with max|A X - M X E| = %.3e > min_eps=%.1e (+ rounding %.1e); n=%d neig=%d opts=%s E=%s ref=%s" % (
                rinf, min_eps, tau_r, n, k, opts, _fmt(E), _fmt(Eref)), labels)
        # Cholesky-QR loses orthogonality like eps*cond([V,t])^2, which min_eps does not control; what the residual test does imply is
        # an eigenvector accuracy of ~sqrt(n k) min_eps / ||A||, and the normalisation is required to be at least that good (factor 4)
        # (X carries the unit 1/sqrt(unit of M), the residual the unit of A / sqrt(unit of M))
        tol_orth = tau + 4.0 * math.sqrt(n * k) * min_eps * math.sqrt(um) / max(float(torch.linalg.matrix_norm(p.A, 2).min()), 1e-300)
        tol_val = resolution(n, k, tol_rinf, lmin_case) * (1 + tol_orth) + tau * a_norm / p.m_lmin
    else:
        bad = resn > tau * scale_r
        if bool(bad.any()):
            return violation("residual", "||A x - e M x|| = %.3e > %.3e (n=%d, cond(M)=%g); E=%s ref=%s" % (
                float(resn.max()), float((tau * scale_r).min()), n, p.m_kappa, _fmt(E), _fmt(Eref)), labels)
        tol_orth = tau
        tol_val = tau * a_norm / p.m_lmin
    if not orth <= tol_orth:
        return violation("orthonormality", "max|X^H M X - I| = %.3e > %.3e (n=%d k=%d)" % (orth, tol_orth, n, k), labels)
    if method == "davidson":
        labels = labels + ["conv=silent", "n=%s" % ("2-7" if n < 8 else ("8-32" if n <= 32 else "33-64")),
                           "davidson:%s,%s,cut=%s" % ("M" if hasM else "noM", "lowest" if low else "uppest",
                                                       [lb for lb in labels if lb.startswith("cut=")][0][4:])]
    if not verr <= tol_val:
        if method == "davidson":
            # A residual test cannot tell an extreme eigenpair from an interior one: a Krylov method whose start block has a small
            # component along a wanted eigenvector legitimately stops at the next eigenvalue (mis-convergence; likelier the tighter the
            # cluster and the looser min_eps).  It is told apart from a wrong selection by asking for 1e-4 * min_eps: the missed component
            # is then amplified until it shows in the residual.  Only if the tighter run agrees with LAPACK is the case discarded.
            kw2 = dict(kwargs)
            kw2["min_eps"] = 1e-4 * min_eps
            kw2.pop("max_niter", None)

            def call2():
                return xl.symeig(Aop, case["neig"], case["mode"], Mop, **kw2)
            torch.manual_seed(case["seed"] & 0x7FFFFFFF)
            with warnings.catch_warnings():
                warnings.simplefilter("ignore")
                with torch.no_grad():
                    E2, _ = xt_call(call2, _where="forward")
            if float((E2.to(torch.float64) - Eref).abs().max()) <= tol_val:
                return discard("davidson_misconverged_at_loose_min_eps", labels)
        return violation("extremality", "eigenvalues differ from the %d %s of scipy.linalg.eigh by %.3e > %.3e: got %s ref %s all %s" % (
            k, "lowest" if low else "uppermost", verr, tol_val, _fmt(E), _fmt(Eref), _fmt(vals)), labels)
    distinct = len(set(lam)) >= 2
    nontriv = distinct and (k < n or hasM or any(b > 1 for b in batch) or case["aop"] != "dense")
    return ok(labels, nontrivial=nontriv)


# ------------------------------------------------------------------------------------------------ svd

def _run_svd(case):
    import xitorch.linalg as xl
    torch.manual_seed(case["seed"] & 0x7FFFFFFF)
    g = gen.seeded(case["seed"])
    dtype = R.DT[case["dtype"]]
    m, n = case["m"], case["n"]
    r = min(m, n)
    sv = case["sv"]                                     # ascending singular values, len r
    batch = case["batch"]
    U0 = R.rand_unitary(g, batch, m, dtype)[..., :, :r]
    V0 = R.rand_unitary(g, batch, n, dtype)[..., :, :r]
    sc = R.pick(g, [1.0, 0.5, 2.0], batch) if case.get("affine", True) else torch.ones(tuple(batch), dtype=torch.float64)
    unit = float(case.get("ua", 1.0))
    S0 = sc[..., None] * torch.tensor(sv, dtype=torch.float64)          # (*batch, r)
    herm = bool(case.get("herm")) and m == n
    if herm:
        # a Hermitian *indefinite* square operator, flagged Hermitian: its singular values are |eigenvalues|, so a selection made on
        # the signed eigenvalues would pick the wrong triplets
        sgn = torch.where(torch.rand((r,), generator=g) < 0.5, -1.0, 1.0).to(torch.float64)
        if r >= 2:
            sgn[0], sgn[-1] = 1.0, -1.0
        A = (U0 * (S0 * sgn).to(dtype)[..., None, :]) @ R.ct(U0)
        A = 0.5 * (A + R.ct(A))
    else:
        A = (U0 * S0.to(dtype)[..., None, :]) @ R.ct(V0)
    kind = case["aop"]
    if herm and kind not in R.HERM_KINDS:
        kind = "mv"                                    # the Hermitian-flagged operator kinds only
    Aleaves = scale_leaves(kind, R.split_leaves(kind, A, g), unit)
    if unit != 1.0:
        A = A * unit
        S0 = S0 * unit
    Aop = R.make_operator(kind, Aleaves, herm)
    smin = float(S0.min())
    smax = max(float(S0.max()), R.leaves_scale(kind, Aleaves))      # data scale (see ref_c05.leaves_scale)
    k = r if case["k"] is None else case["k"]
    low = case["mode"].lower() == "lowest"
    method = case["method"]
    opts = dict(case.get("opts") or {})
    kwargs = dict(opts)
    if method != "default":
        kwargs["method"] = method
    incs = [sv[i + 1] - sv[i] for i in range(r - 1)]
    spec = "repeated" if any(d == 0 for d in incs) else ("clustered" if any(d < 0.01 for d in incs) else "separated")
    cut = "none"
    if k < r:
        d = incs[k - 1] if low else incs[r - k - 1]
        cut = "repeated" if d == 0 else ("clustered" if d < 0.01 else "gap")
    labels = ["svd_method=%s" % method, "svd_mode=%s" % ("lowest" if low else "uppest"), "svd_shape=%s" % ("tall" if m > n else ("wide" if m < n else "square")),
              "svd_aop=%s" % kind, "svd_dtype=%s" % case["dtype"], "svd_spectrum=%s" % spec, "svd_cut=%s" % cut,
              "svd_k=%s" % ("none" if case["k"] is None else ("full" if k == r else "partial")), "svd_batch=%d" % len(batch),
              "svd_modestr=%s" % case["mode"], "svd_modearg=%s" % case["modearg"], "svd_hermitian_flagged=%s" % herm,
              "svd_unit=%g" % unit]

    def call():
        if case["modearg"] == "default":      # documented default is "uppest"
            return xl.svd(Aop, case["k"], **kwargs)
        return xl.svd(Aop, case["k"], case["mode"], **kwargs)
    with warnings.catch_warnings(record=True) as wlist:
        warnings.simplefilter("always")
        out = forward_call(call, case["nograd"])
    warned = [w for w in wlist if "onverge" in type(w.message).__name__ or "onverge" in str(w.message)]
    if not (isinstance(out, tuple) and len(out) == 3):
        return violation("return_type", "svd returned %r" % (type(out),), labels)
    U, S, Vh = out
    if list(U.shape) != [*batch, m, k] or list(S.shape) != [*batch, k] or list(Vh.shape) != [*batch, k, n]:
        return violation("shape", "U %s S %s Vh %s for A (*%s,%d,%d), k=%d" % (tuple(U.shape), tuple(S.shape), tuple(Vh.shape), batch, m, n, k), labels)
    if S.is_complex() or U.dtype != dtype or Vh.dtype != dtype:
        return violation("dtype", "U %s S %s Vh %s for A of dtype %s" % (U.dtype, S.dtype, Vh.dtype, dtype), labels)
    if not all(bool(torch.isfinite(t.abs()).all()) for t in (U, S, Vh)):
        return violation("nonfinite", "non-finite svd factors, S=%s" % _fmt(S), labels)
    if warned:
        return discard("convergence_warning", labels)
    U, S, Vh = U.detach(), S.detach().to(torch.float64), Vh.detach()
    if not bool((S >= 0).all()):
        return violation("negative_s", "S=%s" % _fmt(S), labels)
    tau = 1e3 * max(m, n) * EPS * (smax / smin) ** 2
    if method == "davidson":
        tau = tau + 4.0 * math.sqrt(max(m, n) * k) * float(opts.get("min_eps", 1e-6)) / smin ** 2
    Sref_all = torch.tensor(np.array([scipy.linalg.svdvals(a) for a in A.reshape(-1, m, n).numpy()])).reshape(*batch, r)   # descending
    Sref_all = torch.flip(Sref_all, dims=[-1])                       # ascending
    Sref = Sref_all[..., :k] if low else Sref_all[..., r - k:]
    Ssorted = torch.sort(S, dim=-1).values
    verr = float((Ssorted - Sref).abs().max())
    if not verr <= tau * smax:
        return violation("extremality", "singular values differ from the %d %s svdvals by %.3e > %.3e: got %s ref %s all %s" % (
            k, "lowest" if low else "largest", verr, tau * smax, _fmt(S), _fmt(Sref), _fmt(Sref_all)), labels)
    eye = torch.eye(k, dtype=dtype)
    eu = float((R.ct(U) @ U - eye).abs().max())
    ev = float((Vh @ R.ct(Vh) - eye).abs().max())
    if not eu <= tau:
        return violation("u_orthonormal", "max|U^H U - I| = %.3e > %.3e; S=%s" % (eu, tau, _fmt(S)), labels)
    if not ev <= tau:
        return violation("v_orthonormal", "max|Vh Vh^H - I| = %.3e > %.3e; S=%s" % (ev, tau, _fmt(S)), labels)
    V = R.ct(Vh)
    pair = float((A @ V - U * S.to(dtype)[..., None, :]).abs().max())
    if not pair <= tau * smax:
        return violation("pairing", "max|A v_i - s_i u_i| = %.3e > %.3e; S=%s" % (pair, tau * smax, _fmt(S)), labels)
    pair2 = float((R.ct(A) @ U - V * S.to(dtype)[..., None, :]).abs().max())
    if not pair2 <= tau * smax:
        return violation("pairing_adjoint", "max|A^H u_i - s_i v_i| = %.3e > %.3e; S=%s" % (pair2, tau * smax, _fmt(S)), labels)
    if k == r:
        rec = float(((U * S.to(dtype)[..., None, :]) @ Vh - A).abs().max())
        if not rec <= tau * smax:
            return violation("reconstruction", "max|U diag(S) Vh - A| = %.3e > %.3e" % (rec, tau * smax), labels)
    nontriv = len(set(sv)) >= 2 and (k < r or m != n or any(b > 1 for b in batch) or kind != "dense")
    return ok(labels, nontrivial=nontriv)


run_symeig = with_recorded_finding(_run_symeig)
run_svd = with_recorded_finding(_run_svd)


# ------------------------------------------------------------------------------------------------ strategies

@st.composite
def spectrum_st(draw, n, style=None, maxmult=None):
    """ascending list of n floats: increments are 0 (exact repeat), 1e-3 (cluster) or 0.25..1.5; offset decides the signs.
    maxmult caps the multiplicity of every value (construction, not rejection)."""
    style = style or draw(st.sampled_from(["separated", "mixed", "mixed", "repeated", "clustered"]))
    incs = []
    run = 1
    for i in range(n - 1):
        if style == "separated":
            c = "sep"
        elif style == "repeated":
            c = draw(st.sampled_from(["rep", "rep", "sep"]))
        elif style == "clustered":
            c = draw(st.sampled_from(["clu", "clu", "sep"]))
        else:
            c = draw(st.sampled_from(["rep", "clu", "sep", "sep"]))
        if c == "rep" and maxmult is not None and run >= maxmult:
            c = "sep"
        run = run + 1 if c == "rep" else 1
        incs.append(0.0 if c == "rep" else (1e-3 if c == "clu" else draw(st.sampled_from([0.25, 0.5, 1.0, 1.5]))))
    total = sum(incs)
    where = draw(st.sampled_from(["neg", "pos", "mixed", "mixed"]))
    start = {"neg": -total - 0.5, "pos": 0.5, "mixed": -0.5 * total - 0.125}[where]
    lam = [start]
    for d in incs:
        lam.append(lam[-1] + d)
    return lam


@st.composite
def batch_pair_st(draw, tier, allow_m=True):
    """batch shapes of A and M, broadcastable by construction; M None = absent"""
    rank = draw(st.sampled_from([0, 0, 1, 1, 2] if tier == "quick" else [0, 1, 1, 2, 2, 3]))
    target = [draw(st.sampled_from([1, 2, 2, 3])) for _ in range(rank)]

    def part():
        drop = draw(st.integers(0, rank))
        dims = target[drop:]
        return [1 if draw(st.sampled_from([False, False, True])) else d for d in dims]
    bA = part()
    bM = part() if (allow_m and draw(st.sampled_from([True, True, False]))) else None
    return bA, bM


def neig_mode_st(draw, n, maxk=None):
    maxk = maxk or n
    neig = draw(st.one_of(st.integers(1, maxk), st.integers(1, maxk), st.just(None) if maxk == n else st.integers(1, maxk)))
    mode = draw(st.sampled_from(MODES_LOW[:1] * 3 + MODES_LOW[1:] + MODES_UP[:2] * 2 + MODES_UP[2:]))
    entry = draw(st.sampled_from(["symeig", "symeig", "symeig", "wrapper"]))
    if entry == "wrapper":
        entry = "lsymeig" if mode.lower() == "lowest" else "usymeig"
    return neig, mode, entry


@st.composite
def dense_case_st(draw, tier="quick"):
    n = draw(st.integers(2, 8 if tier == "quick" else 12))
    lam = draw(spectrum_st(n))
    bA, bM = draw(batch_pair_st(tier))
    neig, mode, entry = neig_mode_st(draw, n)
    ua = draw(st.sampled_from(UNIT_DRAW))
    um = draw(st.sampled_from(UNIT_DRAW)) if bM is not None else 1.0
    return {"lam": lam, "dtype": draw(st.sampled_from(["f64", "c128"])), "batchA": bA, "batchM": bM, "ua": ua, "um": um,
            "mkappa": draw(st.sampled_from([1.0, 2.0, 4.0, 10.0])),
            "aop": draw(st.sampled_from(R.HERM_KINDS)), "mop": draw(st.sampled_from(["dense", "dense", "mv", "full", "scaled", "add_du"])),
            "method": draw(st.sampled_from(["exacteig", "custom_exacteig", "default"])), "neig": neig, "mode": mode, "entry": entry,
            "structure": draw(st.sampled_from(["generic"] * 5 + ["diag"])),
            "nograd": draw(st.sampled_from([False, False, True])), "opts": {}, "seed": draw(st.integers(0, 2 ** 31 - 1))}


def has_cluster(vals):
    """some neighbouring values closer than 0.01 (generated increments are 0, 1e-3 or >= 0.125)"""
    return any(vals[i + 1] - vals[i] < 0.01 for i in range(len(vals) - 1))


def max_multiplicity(vals):
    best = run = 1
    for i in range(1, len(vals)):
        run = run + 1 if vals[i] == vals[i - 1] else 1
        best = max(best, run)
    return best


def min_positive_gap(vals):
    gaps = [vals[i + 1] - vals[i] for i in range(len(vals) - 1) if vals[i + 1] > vals[i]]
    return min(gaps) if gaps else float("inf")


def resolution(n, k, min_eps, lmin):
    """Hermitian residual bound on the eigenvalue error of k Ritz pairs whose residual entries are below min_eps"""
    return 1.01 * math.sqrt(n * k) * min_eps / math.sqrt(lmin)


MIN_EPS_CHOICES = [1e-4, 1e-5, 1e-6, 1e-7, 1e-8, 1e-9]


def allowed_min_eps(n, k, mkappa, has_m, gap):
    """values of min_eps whose eigenvalue resolution is at least 4x finer than the smallest non-zero gap of the generated spectrum
    (worst case over the batch scalings: gaps shrink by at most 4, lambda_min(M) >= 0.5/sqrt(cond M))"""
    lmin = 0.5 / math.sqrt(mkappa) if has_m else 1.0
    return [e for e in MIN_EPS_CHOICES if resolution(n, k, e, lmin) <= 0.25 * gap / 4.0]


@st.composite
def davidson_case_st(draw, tier="quick", known_region=False):
    nmax = 32 if tier == "quick" else 64
    n = draw(st.integers(8, nmax)) if draw(st.sampled_from([True] * 5 + [False])) else draw(st.integers(2, 7))
    neig, mode, entry = neig_mode_st(draw, n, maxk=min(4, n))
    k = n if neig is None else neig
    # rank-deficient expansion blocks (see rank_deficient_expansion_region) are a recorded finding: generated only when it is listed;
    # otherwise exact repeats have multiplicity <= neig and n is rounded down to a multiple of neig (construction, not rejection)
    unsafe = known_region and draw(st.sampled_from([False] * 7 + [True]))
    style = draw(st.sampled_from(["separated", "mixed", "repeated", "clustered"]))
    if not unsafe and style in ("mixed", "repeated"):
        n = max(k, n - n % k)
    lam = draw(spectrum_st(n, style=style, maxmult=None if unsafe else k))
    bA, bM = draw(batch_pair_st(tier))
    mkappa = draw(st.sampled_from([1.0, 2.0, 4.0, 10.0]))
    opts = {}
    allowed = allowed_min_eps(n, k, mkappa, bM is not None, min_positive_gap(lam))
    ua = draw(st.sampled_from(UNIT_DRAW))
    um = draw(st.sampled_from(UNIT_DRAW)) if bM is not None else 1.0
    # min_eps is an absolute bound on the entries of A X - M X diag(E), which carry the unit of A / sqrt(unit of M): the caller
    # states it in those units (the default 1e-6 is meaningful for unit data only)
    if 1e-6 not in allowed or (ua, um) != (1.0, 1.0) or draw(st.booleans()):
        opts["min_eps"] = draw(st.sampled_from(allowed)) * (ua / math.sqrt(um))
    if draw(st.booleans()):
        opts["v_init"] = draw(st.sampled_from(["randn", "rand", "eye", "RandN"]))
    c = draw(st.sampled_from(["default", "default", "enough", "enough", "short"]))
    if c == "enough":
        opts["max_niter"] = -(-n // k) + 1 + draw(st.integers(0, 3))
    elif c == "short":
        opts["max_niter"] = draw(st.integers(1, 4))
    if draw(st.sampled_from([False, False, True])):
        opts["max_addition"] = draw(st.integers(1, 4))
    return {"lam": lam, "dtype": "f64", "batchA": bA, "batchM": bM, "mkappa": mkappa, "ua": ua, "um": um,
            "aop": draw(st.sampled_from(R.HERM_KINDS)), "mop": draw(st.sampled_from(["dense", "dense", "mv", "full", "scaled", "add_du"])),
            "method": "davidson", "neig": neig, "mode": mode, "entry": entry,
            "nograd": draw(st.sampled_from([False, False, True])), "opts": opts, "seed": draw(st.integers(0, 2 ** 31 - 1))}


@st.composite
def svd_case_st(draw, tier="quick"):
    method = draw(st.sampled_from(["exacteig", "default", "custom_exacteig", "davidson"]))
    dav = method == "davidson"
    if dav:
        m, n = draw(st.integers(6, 10)), draw(st.integers(6, 10))      # (r is rounded to a multiple of k below when values repeat)
    else:
        m, n = draw(st.integers(1, 8)), draw(st.integers(1, 8))
    r = min(m, n)
    kmax = min(r, 3) if dav else r
    k = draw(st.one_of(st.integers(1, kmax), st.just(None) if kmax == r else st.integers(1, kmax)))
    # singular values ascending in [0.6, 1.45] (times a batch scale in {0.5,1,2}): increments 0 / 1e-3 / regular.
    # davidson: no clusters (resolution of min_eps) and multiplicities <= k (block exhaustion, see SITES)
    style = draw(st.sampled_from(["separated", "repeated"] if dav else ["separated", "mixed", "repeated", "clustered"]))
    if dav and style == "repeated" and r % k != 0:          # see rank_deficient_expansion_region: k must divide r
        r = r - r % k
        if m <= n:
            m = r
        else:
            n = r
    incs = []
    run = 1
    for i in range(r - 1):
        c = "sep" if style == "separated" else draw(st.sampled_from({"mixed": ["rep", "clu", "sep", "sep"], "repeated": ["rep", "rep", "sep"],
                                                                     "clustered": ["clu", "clu", "sep"]}[style]))
        if c == "rep" and dav and run >= k:
            c = "sep"
        run = run + 1 if c == "rep" else 1
        incs.append(0.0 if c == "rep" else (1e-3 if c == "clu" else draw(st.sampled_from([0.125, 0.25, 0.5]))))
    tot = sum(incs)
    f = min(1.0, 0.85 / tot) if tot > 0 else 1.0
    sv = [0.6]
    for d in incs:
        sv.append(sv[-1] + (d * f if d > 1e-3 else d))
    dtype = "f64" if dav else draw(st.sampled_from(["f64", "c128"]))
    rank = draw(st.sampled_from([0, 0, 1, 2]))
    batch = [draw(st.sampled_from([1, 2, 3])) for _ in range(rank)]
    mode = draw(st.sampled_from(MODES_LOW + MODES_UP))
    modearg = "given"
    if mode == "uppest" and draw(st.booleans()):
        modearg = "default"
    opts = {}
    unit = draw(st.sampled_from(UNIT_DRAW))
    # davidson works on the Gram matrix, whose residual carries unit^2 (default min_eps 1e-6: unit data only)
    if dav and (unit != 1.0 or draw(st.booleans())):
        opts["min_eps"] = draw(st.sampled_from([1e-7, 1e-8, 1e-9] if unit == 1.0 else [1e-6, 1e-7, 1e-8, 1e-9])) * unit * unit
    return {"m": m, "n": n, "sv": sv, "ua": unit, "dtype": dtype, "batch": batch, "aop": draw(st.sampled_from(R.GEN_KINDS)), "k": k, "mode": mode,
            "modearg": modearg, "method": method, "opts": opts, "nograd": draw(st.sampled_from([False, False, True])),
            "herm": draw(st.sampled_from([False, False, True])), "seed": draw(st.integers(0, 2 ** 31 - 1))}


def rank_deficient_expansion_region(vals, k):
    """davidson expands its basis V (d = k, 2k, ... columns) by the residuals t of the k wanted Ritz pairs and orthonormalises [V, t] by a
    Cholesky factorisation of the Gram matrix.  A residual column that is numerically zero while another pair is not converged makes that
    matrix singular.  With an exactly repeated eigenvalue of multiplicity g this happens (i) when g > k: the block-Krylov space is exhausted
    before the full space; (ii) when d + g > n for some d reached before the full space: the eigenspace then meets V, so V contains exact
    eigenvectors.  d takes the values k, 2k, ... < n, so (ii) is excluded iff g <= k and k divides n."""
    g = max_multiplicity(vals)
    return g > 1 and (g > k or len(vals) % k != 0)


def _davidson_rank_deficient(case):
    if case.get("method") != "davidson":
        return False
    if "sv" in case:
        return rank_deficient_expansion_region(case["sv"], case["k"] or len(case["sv"]))
    return rank_deficient_expansion_region(case["lam"], case["neig"] or len(case["lam"]))


# recorded finding (no small repair): generated only if known_findings.json lists this site
SITES = {"davidson_clustered": lambda case: case.get("method") == "davidson" and has_cluster(case.get("lam") or case.get("sv")),
         "davidson_rank_deficient_expansion": _davidson_rank_deficient}


def _known_region():
    return _listed("davidson_clustered")


def tasks(tier):
    kr = _known_region()
    return [
        Task("dense", strategy=dense_case_st(tier), run=run_symeig, examples={"quick": 4000, "thorough": 100000}),
        Task("davidson", strategy=davidson_case_st(tier, known_region=kr), run=run_symeig, examples={"quick": 1500, "thorough": 30000}),
        Task("svd", strategy=svd_case_st(tier), run=run_svd, examples={"quick": 2500, "thorough": 70000}),
    ]
