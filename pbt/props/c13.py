"""C13 — quad gradients in parameters and limits match the forward rule's accuracy.

Oracle (DESIGN.md C13): parameter gradients = the n_b-point Gauss-Legendre rule (n_b = bck_options["n"] if given
else the forward n) applied to df/dtheta — a differentiable plain-torch sum over numpy's nodes; limit gradients by
the Leibniz rule (+f(xu), -f(xl)); second order by differentiating those reference expressions (Leibniz again for
the limits).  n is kept small and != 100 so that a lost option changes the result by many orders above tolerance.

Caller-supplied quadrature rules (`method` may be a callable `method(fcn, xl, xu, params, **options)`): the forward and / or
the backward method (bck_options["method"]) may be a composite trapezoid / midpoint / Simpson rule given as a plain function, a
callable object or a functools.partial with its option bound.  The backward rule is resolved as the statement says: the method
named in bck_options, otherwise the forward one; every option from bck_options, otherwise from the forward call, otherwise the
rule's own default.  The reference is THAT rule (same nodes and weights) applied to df/dtheta - at 2..8 points far away from any
Gauss-Legendre value, so a method that is lost, replaced or given the wrong options on the way to the backward quadrature is
visible by VALUE at first and second order.
"""
from __future__ import annotations

import functools
import math

import numpy as np
import torch
from hypothesis import strategies as st

from pbt import gen
from pbt.harness import Task, ok, violation, discard, xt_call

PID = "C13"
RULE = ("(optionally piecewise through Python control flow on x: on one side of a point inside the interval the integrand does not use c) "
        "integrand f(x;a,c) = scale * c_j sin(a_j x + j) (x envelope exp(-x^2/2) for infinite limits), output scalar/vector/tuple; "
        "forward method: Gauss-Legendre n in 2..12 (named by default) or a CALLER-SUPPLIED rule (composite trapezoid / midpoint / Simpson, option npt in 2..8; "
        "given as function / callable object / functools.partial with npt bound and no forward option); bck_options absent, n_b != n, only the rule's option "
        "(npt_b != npt: forward callable with that option), naming 'leggauss' (with n_b, or without: documented default n=100) or naming another "
        "caller-supplied rule (with its npt; without only when the forward method is Gauss-Legendre: the rule's default npt=3); limits: python float / tensor / tensor requiring grad / infinite; "
        "function kind from pbt/gen.py (pure, nn.Module, nested, EditableModule incl. containers, siblings) with optional unused "
        "tensor (explicit or object-held) and non-tensor parameter; which leaves require grad; first and second order; "
        "history of backward passes through the ONE forward graph (single pass; or 2-3 passes with retain_graph: plain then "
        "graph-recording then second order, another cotangent first, graph-recording twice with the same / another cotangent, "
        "graph-recording then plain, plain twice / three times with alternating cotangents) - every pass is compared with the "
        "reference, second order is taken from every graph-recording pass after all passes have run. "
        "Non-trivial = at least one leaf or limit requires grad and its reference gradient is non-zero; distinct by canonical case.")
ASSUMPTIONS = [
    "float64 only; tolerance 1e3*N*eps*scale of the summed absolute terms (N = number of nodes of the backward rule)",
    "an infinite limit is never asked for a gradient itself",
    "the reference n_b-point rule uses numpy.polynomial.legendre.leggauss nodes/weights",
    "a callable method is called as method(fcn, tl, tu, params, **options) with tensor limits (atan-transformed when infinite) and returns the weighted sum; "
    "the caller's rules accept and ignore options they do not know (as leggauss does); the reference applies the same nodes/weights to the derivative integrand",
    "backward rule = method named in bck_options else the forward method; each option = bck_options' value else the forward call's else the rule's default "
    "(leggauss n=100, caller's rules npt=3); a second caller-supplied rule named in bck_options while the forward is caller-supplied always comes with its own npt "
    "(inheritance of the forward's npt by ANOTHER rule is not asserted)",
    "torch.autograd semantics: a graph kept with retain_graph may be back-propagated any number of times, with any cotangent, "
    "with or without create_graph, each pass giving the gradient of that cotangent's contraction (same tolerance per pass)",
]
LEVEL_TEXT = ("Exploration against an independent differentiable re-derivation of the rule: at n in 2..12 the n-point and the 100-point "
              "rules differ by many orders above tolerance, so option propagation, Leibniz terms and unused-tensor handling are all observable; "
              "caller-supplied low-order rules (2..17 nodes) differ from every Gauss-Legendre value by 1e-1..1e-4, so method propagation is observable by value.")
LEVEL_NOTE = "trusts torch autograd on the plain-torch reference sum and numpy's Gauss-Legendre nodes"
TECHNIQUE = "Hypothesis property-based testing: differentiable reference model (autograd through an independent GL sum) + Leibniz oracle"

DT = torch.float64


def make_core(out_kind, envelope, x0=None):
    def core(xs, eff, scale):
        x = torch.as_tensor(xs[0], dtype=DT)
        a, c = eff[0], eff[1]
        j = torch.arange(a.numel(), dtype=DT).reshape(a.shape)
        if x0 is not None and bool(x.reshape(-1)[0] < x0):
            # Python control flow on x: on this side of x0 the integrand does not use `c` at all
            y = scale * torch.sin(a * x + j)
        else:
            y = scale * c * torch.sin(a * x + j)
        if envelope:
            y = y * torch.exp(-0.5 * x * x)
        if out_kind == "scalar":
            return y.sum().reshape(x.shape) if x.numel() == 1 else y.sum()
        if out_kind == "vector":
            return y.reshape(-1)
        if out_kind == "tuple":
            return y.reshape(-1), (y * y).sum().reshape(1)
        raise ValueError(out_kind)
    return core


NPT_DEFAULT = 3     # default of the option `npt` of the caller-supplied rules
N_DEFAULT = 100     # documented default of leggauss' option `n`


def gl_rule(rule, tl, tu):
    """nodes and weights on [tl, tu] of rule = n (int: n-point Gauss-Legendre) or [name, npt] (caller-supplied composite rule:
    'trap' npt points, 'mid' npt cells, 'simp' npt panels = 2 npt + 1 points)"""
    if isinstance(rule, int):
        nodes, w = np.polynomial.legendre.leggauss(rule)
        t = torch.tensor(nodes, dtype=DT) * (0.5 * (tu - tl)) + 0.5 * (tu + tl)
        wt = torch.tensor(w, dtype=DT) * (0.5 * (tu - tl))
        return t, wt
    name, k = rule
    tl = torch.as_tensor(tl, dtype=DT).detach().reshape(())
    tu = torch.as_tensor(tu, dtype=DT).detach().reshape(())
    if name == "trap":
        u = torch.arange(k, dtype=DT) / (k - 1)
        w = torch.ones(k, dtype=DT) / (k - 1)
        w[0] = w[-1] = 0.5 / (k - 1)
    elif name == "mid":
        u = (torch.arange(k, dtype=DT) + 0.5) / k
        w = torch.ones(k, dtype=DT) / k
    elif name == "simp":
        u = torch.arange(2 * k + 1, dtype=DT) / (2 * k)
        w = torch.full((2 * k + 1,), 2.0, dtype=DT)
        w[1::2] = 4.0
        w[0] = w[-1] = 1.0
        w = w / (6 * k)
    else:
        raise ValueError(name)
    return tl + u * (tu - tl), w * (tu - tl)


def nnodes(rule):
    return rule if isinstance(rule, int) else {"trap": rule[1], "mid": rule[1], "simp": 2 * rule[1] + 1}[rule[0]]


def rule_str(rule):
    return "leggauss(n=%d)" % rule if isinstance(rule, int) else "%s(npt=%d)" % tuple(rule)


class _RuleObject:
    """a caller-supplied quadrature rule given as a callable object"""

    def __init__(self, name, log):
        self.name, self.log = name, log

    def __call__(self, fcn, xl, xu, params, npt=NPT_DEFAULT, **unused):
        self.log.append([self.name, int(npt)])
        t, w = gl_rule([self.name, int(npt)], xl, xu)
        res = w[0] * fcn(t[0], *params)
        for i in range(1, t.numel()):
            res = res + w[i] * fcn(t[i], *params)
        return res


def make_method(name, form, bound, log):
    """the rule `name` as the kind of callable `form`: function / callable object / functools.partial with npt bound"""
    obj = _RuleObject(name, log)
    if form == "obj":
        return obj

    def rule_function(fcn, xl, xu, params, npt=NPT_DEFAULT, **unused):
        return obj(fcn, xl, xu, params, npt=npt)
    if form == "func":
        return rule_function
    if form == "partial":
        return functools.partial(rule_function, npt=bound)
    raise ValueError(form)


def resolve(case, log):
    """(keyword arguments of the forward quad call, forward rule, backward rule the statement asks for)"""
    fwd, bck = case.get("fwd"), case.get("bck")
    if fwd:
        bound = fwd["form"] == "partial"
        kwargs = {"method": make_method(fwd["rule"], fwd["form"], fwd["npt"], log)}
        fopts = {} if bound else {"npt": fwd["npt"]}
        fmeth, fdef = fwd["rule"], {"npt": fwd["npt"] if bound else NPT_DEFAULT}
    else:
        kwargs, fopts, fmeth, fdef = {}, {"n": case["n"]}, "leggauss", {"n": N_DEFAULT}
    kwargs.update(fopts)
    bopts = {}
    bmeth, bdef = fmeth, fdef
    if bck:
        if bck.get("method") == "leggauss":
            bopts["method"] = "leggauss"
            bmeth, bdef = "leggauss", {"n": N_DEFAULT}
        elif bck.get("method"):
            bound = bck["form"] == "partial"
            bopts["method"] = make_method(bck["method"], bck["form"], bck.get("npt"), log)
            bmeth, bdef = bck["method"], {"npt": bck["npt"] if bound else NPT_DEFAULT}
        if bck.get("n") is not None:
            bopts["n"] = bck["n"]
        if bck.get("npt") is not None and not (bck.get("method") not in (None, "leggauss") and bck["form"] == "partial"):
            bopts["npt"] = bck["npt"]
    elif case.get("nb"):
        bopts["n"] = case["nb"]
    if bopts or (bck is not None):
        kwargs["bck_options"] = bopts
    eff = dict(bdef)
    eff.update({k: v for k, v in fopts.items() if k != "method"})
    eff.update({k: v for k, v in bopts.items() if k != "method"})
    frule = case["n"] if fmeth == "leggauss" else [fmeth, fwd["npt"]]
    brule = int(eff["n"]) if bmeth == "leggauss" else [bmeth, int(eff["npt"])]
    return kwargs, frule, brule


def ref_integral(core, eff, scale, n, xlv, xuv, W):
    """<W, rule n of f> as a differentiable function of eff (limits are plain floats)"""
    if math.isinf(xlv) or math.isinf(xuv):
        t, wt = gl_rule(n, math.atan(xlv), math.atan(xuv))
        xs = torch.tan(t)
        wt = wt / torch.cos(t) ** 2
    else:
        xs, wt = gl_rule(n, xlv, xuv)
    tot = 0.0
    mag = 0.0
    for x, w in zip(xs, wt):
        val = contract(core((x,), eff, scale), W)
        tot = tot + w * val
        mag = mag + abs(float(w)) * abs(float(val))
    return tot, mag


def ref_outs(core, eff, scale, n, xlv, xuv):
    """the n-point rule of every output component, as flattened differentiable tensors (limits are plain floats)"""
    if math.isinf(xlv) or math.isinf(xuv):
        t, wt = gl_rule(n, math.atan(xlv), math.atan(xuv))
        xs = torch.tan(t)
        wt = wt / torch.cos(t) ** 2
    else:
        xs, wt = gl_rule(n, xlv, xuv)
    tot = None
    for x, w in zip(xs, wt):
        out = core((x,), eff, scale)
        outs = [out.reshape(-1)] if isinstance(out, torch.Tensor) else [o.reshape(-1) for o in out]
        tot = [w * o for o in outs] if tot is None else [t_ + w * o for t_, o in zip(tot, outs)]
    return tot


def contract(out, W):
    if isinstance(out, torch.Tensor):
        return (out.reshape(-1) * W[0]).sum()
    return sum((o.reshape(-1) * w).sum() for o, w in zip(out, W))


def grads_or_zero(y, xs, create_graph=False):
    if not isinstance(y, torch.Tensor) or not y.requires_grad:
        return [torch.zeros_like(x) for x in xs]
    gs = torch.autograd.grad(y, xs, create_graph=create_graph, allow_unused=True, retain_graph=True)
    return [torch.zeros_like(x) if g is None else g for g, x in zip(gs, xs)]


def bck_label(case):
    b = case.get("bck")
    if b is None:
        return "nb" if case.get("nb") else "same"
    if b.get("method") == "leggauss":
        return "leggauss" if b.get("n") is not None else "leggauss_default"
    if b.get("method"):
        return "callable/" + b["form"] + ("" if b.get("npt") is not None else "_own_default")
    return "opts"


def run_case(case):
    from xitorch.integrate import quad
    torch.manual_seed(0)
    g = gen.seeded(case["seed"])
    m = case["m"]
    n = case["n"]
    calls = []          # [rule, npt] of every call of a caller-supplied rule
    kwargs, frule, nb = resolve(case, calls)        # nb: the backward rule (int n_b: Gauss-Legendre; [name, npt]: caller's rule)
    spec = case["spec"]
    out_kind = case["out"]
    inf = float("inf")

    def val(v):
        return {"ninf": -inf, "pinf": inf}.get(v, v)
    xlv, xuv = val(case["xl"]), val(case["xu"])
    envelope = math.isinf(xlv) or math.isinf(xuv)
    x0 = None
    if case.get("piece") is not None and not envelope:
        x0 = xlv + case["piece"] * (xuv - xlv)
    core = make_core(out_kind, envelope, x0)
    values = [0.5 + torch.rand((m,), generator=g, dtype=DT), torch.randn((m,), generator=g, dtype=DT)]
    leaves = gen.make_leaves(values, case["req"], spec["kind"])
    fcn, params, info = gen.build_function(core, leaves, spec)

    def mk(v, form):
        if form == "float":
            return float(v)
        if form == "t":
            return torch.tensor(v, dtype=DT)
        if form == "tg":
            return torch.tensor(v, dtype=DT, requires_grad=True)
        raise ValueError(form)
    xl, xu = mk(xlv, case["xlform"]), mk(xuv, case["xuform"])
    limits_g = [t for t in (xl, xu) if isinstance(t, torch.Tensor) and t.requires_grad]
    diff_leaves = [l for l in leaves if l.requires_grad]
    extra = [info["unused"]] if info["unused"] is not None else []
    wrt = diff_leaves + limits_g + extra
    labels = ["kind=" + spec["kind"], "out=" + out_kind, "xl=" + case["xlform"] + ("_inf" if math.isinf(xlv) else ""),
              "xu=" + case["xuform"] + ("_inf" if math.isinf(xuv) else ""), "bck=" + bck_label(case),
              "fwd=" + ("leggauss" if not case.get("fwd") else case["fwd"]["rule"] + "/" + case["fwd"]["form"]),
              "bckrule=" + ("leggauss" if isinstance(nb, int) else "callable") + ("_same" if nb == frule else ""),
              "order=%d" % case["order"], "unused=%s" % spec.get("unused"), "nleafgrad=%d" % len(diff_leaves), "piecewise=%s" % (x0 is not None)]
    if not wrt:
        return discard("nothing_to_differentiate", labels)

    res = xt_call(quad, fcn, xl, xu, params=params, _where='forward', **kwargs)
    outs = (res,) if isinstance(res, torch.Tensor) else tuple(res)
    W = [torch.randn((o.numel(),), generator=g, dtype=DT) for o in outs]
    loss = sum((o.reshape(-1) * w).sum() for o, w in zip(outs, W))
    # history of backward passes through the ONE forward graph: [cotangent index, graph-recording?] each
    passes = [list(p_) for p_ in (case.get("passes") or [[0, case["order"] == 2]])]
    multi = len(passes) > 1
    second = any(cg for _, cg in passes)
    labels = labels + ["passes=" + "".join(("G" if cg else "p") + ("'" if wi else "") for wi, cg in passes)]
    if not loss.requires_grad:
        return violation("no_graph", "quad output does not require grad although %d inputs do" % len(wrt), labels)
    if case.get("loss") == "fit" and second and diff_leaves and not limits_g:
        # least-squares loss at a perfect fit: the cotangent reaching quad is exactly zero, the first-order gradient vanishes
        # and the second-order one is J^T diag(w) J (Gauss-Newton term) - a backward that short-cuts a zero cotangent cuts this graph
        labels = labels + ["loss=fit"]
        wpos = [w.abs() + 0.5 for w in W]
        lossf = sum(0.5 * (w * (o.reshape(-1) - o.reshape(-1).detach()) ** 2).sum() for o, w in zip(outs, wpos))
        if multi and not passes[0][1]:
            # the graph is back-propagated once without recording first (e.g. to log the gradient norm)
            g0 = xt_call(torch.autograd.grad, lossf, diff_leaves, retain_graph=True, allow_unused=True, _where="backward")
            for gk in g0:
                if gk is not None and float(gk.detach().abs().max()) != 0.0:
                    return violation("fit_grad1", "gradient of a perfectly fitted least-squares loss is not zero: %r" % gk.detach().reshape(-1).tolist()[:4], labels)
        g1 = xt_call(torch.autograd.grad, lossf, diff_leaves, create_graph=True, allow_unused=True, _where="backward")
        Cf = [torch.randn(x.shape, generator=g, dtype=DT) for x in diff_leaves]
        for gk in g1:
            if gk is not None and float(gk.detach().abs().max()) != 0.0:
                return violation("fit_grad1", "gradient of a perfectly fitted least-squares loss is not zero: %r" % gk.detach().reshape(-1).tolist()[:4], labels)
        terms = [(c * gk).sum() for c, gk in zip(Cf, g1) if gk is not None and gk.requires_grad]
        eff_r = gen.derive_all(spec["derive"], leaves)
        R = ref_outs(core, eff_r, float(spec.get("scale", 1.0)), nb, xlv, xuv)
        lossr = sum(0.5 * (w * (r - r.detach()) ** 2).sum() for r, w in zip(R, wpos))
        r1 = grads_or_zero(lossr, diff_leaves, create_graph=True)
        rterms = [(c * rk).sum() for c, rk in zip(Cf, r1) if rk.requires_grad]
        ref2 = grads_or_zero(sum(rterms), diff_leaves) if rterms else [torch.zeros_like(x) for x in diff_leaves]
        if not terms:
            if any(float(r_.abs().max()) > 0 for r_ in ref2):
                return violation("fit_no_second_graph", "the zero first-order gradient carries no graph, reference Gauss-Newton term is %r" % [r_.reshape(-1).tolist()[:3] for r_ in ref2], labels)
            return ok(labels, False)
        got2 = xt_call(torch.autograd.grad, sum(terms), diff_leaves, allow_unused=True, _where="backward2")
        nz = False
        for k, (gk, rk, x) in enumerate(zip(got2, ref2, diff_leaves)):
            gk0 = torch.zeros_like(x) if gk is None else gk
            sc = float(rk.abs().max())
            nz = nz or sc > 0
            err = float((gk0.detach() - rk.detach()).abs().max())
            if not err <= 1e-9 * (1 + sc) * nnodes(nb):
                return violation("fit_grad2", "Gauss-Newton second-order term w.r.t. leaf #%d: got %s ref %s (err %.3e); forward %s backward %s" % (
                    k, gk0.reshape(-1).tolist()[:4], rk.reshape(-1).tolist()[:4], err, rule_str(frule), rule_str(nb)), labels)
        return ok(labels, nontrivial=nz)
    # ---------------- all backward passes of the history first, on the one graph of `loss`'s quad node ...
    Ws = {0: W}
    if any(wi for wi, _ in passes):
        Ws[1] = [torch.randn((o_.numel(),), generator=g, dtype=DT) for o_ in outs]
    gots = []
    for wi, cg in passes:
        lossk = loss if wi == 0 else sum((o_.reshape(-1) * w_).sum() for o_, w_ in zip(outs, Ws[wi]))
        kw = {"retain_graph": True} if multi else {}
        gots.append(xt_call(torch.autograd.grad, lossk, wrt, create_graph=bool(cg), allow_unused=True, _where='backward', **kw))

    # ---------------- ... then each of them against the reference (and second order from every graph-recording one)
    eff = gen.derive_all(spec["derive"], leaves)
    scale = float(spec.get("scale", 1.0))
    nonzero = False
    for k, ((wi, cg), got) in enumerate(zip(passes, gots)):
        v, nz = check_pass(got, Ws[wi], bool(cg), "" if k == 0 else "_rep", "pass %d of %d: " % (k + 1, len(passes)) if multi else "",
                           core, eff, scale, frule, nb, xlv, xuv, xl, xu, diff_leaves, limits_g, extra, wrt, g, labels, multi)
        if v is not None:
            return v
        nonzero = nonzero or nz
    return ok(labels, nontrivial=nonzero)


def check_pass(got, W, second, sfx, where, core, eff, scale, n, nb, xlv, xuv, xl, xu, diff_leaves, limits_g, extra, wrt, g, labels, multi):
    """one backward pass (cotangent W, graph-recording or not) against the reference: (violation or None, non-zero reference?)"""
    # ---------------- reference, first order
    I_b, mag = ref_integral(core, eff, scale, nb, xlv, xuv, W)
    tol = 1e3 * nnodes(nb) * 2.3e-16 * (mag + 1.0)
    ref_leaf = grads_or_zero(I_b, diff_leaves, create_graph=second) if diff_leaves else []

    def f_at(xt):
        return contract(core((xt,), eff, scale), W)
    ref_lim = []
    for t in limits_g:
        ref_lim.append(-f_at(t) if t is xl else f_at(t))
    ref = list(ref_leaf) + ref_lim + [None] * len(extra)

    nonzero = False
    for k, (gk, rk, x) in enumerate(zip(got, ref, wrt)):
        if rk is None:      # unused tensor: zero or absent
            if gk is not None and float(gk.abs().max()) != 0.0:
                return violation("unused_grad" + sfx, where + "unused tensor received gradient %r" % gk.tolist(), labels), False
            continue
        gk0 = torch.zeros_like(x) if gk is None else gk
        err = float((gk0.detach() - rk.detach()).abs().max())
        sc = float(rk.detach().abs().max())
        nonzero = nonzero or sc > 0
        if not err <= tol * (1 + sc):
            what = "limit" if any(x is t_ for t_ in limits_g) else "leaf"
            return violation("grad1_" + what + sfx, where + "first-order gradient w.r.t. %s #%d: got %s ref %s (err %.3e, tol %.3e); forward %s backward %s" % (
                what, k, gk0.detach().reshape(-1).tolist()[:4], rk.detach().reshape(-1).tolist()[:4], err, tol * (1 + sc), rule_str(n), rule_str(nb)), labels), False

    if second:
        # L1 = sum <C_k, g_k> over leaves and limits
        C = [torch.randn(x.shape, generator=g, dtype=DT) for x in wrt]
        terms = [(c * gk).sum() for c, gk, rk in zip(C, got, ref) if rk is not None and gk is not None and gk.requires_grad]
        expect_graph = any(rk is not None and isinstance(rk, torch.Tensor) and rk.requires_grad for rk in ref)
        if not terms:
            if expect_graph:
                return violation("no_second_graph" + sfx, where + "create_graph=True produced gradients without graph", labels), False
            return None, nonzero
        kw = {"retain_graph": True} if multi else {}
        got2 = xt_call(torch.autograd.grad, sum(terms), diff_leaves + limits_g, allow_unused=True, _where='backward2', **kw)
        # reference: theta-part by autograd of the reference expression with limits fixed
        L_ref = sum((c * rk).sum() for c, rk in zip(C, ref) if rk is not None)
        ref2_leaf = grads_or_zero(L_ref, diff_leaves) if diff_leaves else []
        # limit part: Leibniz on the backward integral + derivative of the boundary term
        ref2_lim = []
        nleaf = len(diff_leaves)
        for t in limits_g:
            sign = -1.0 if t is xl else 1.0
            ft = f_at(t)
            # <C_theta, d f(t)/d theta>
            part = 0.0
            if diff_leaves:
                gth = grads_or_zero(ft, diff_leaves, create_graph=False)
                part = sum((c * gg).sum() for c, gg in zip(C[:nleaf], gth))
            k = nleaf + [id(z) for z in limits_g].index(id(t))
            dfdt = grads_or_zero(ft, [t])[0]
            ref2_lim.append(sign * (part + C[k] * dfdt))
        ref2 = list(ref2_leaf) + ref2_lim
        tol2 = 10 * tol
        for k, (gk, rk, x) in enumerate(zip(got2, ref2, diff_leaves + limits_g)):
            gk0 = torch.zeros_like(x) if gk is None else gk
            rk = torch.as_tensor(rk, dtype=DT)
            err = float((gk0.detach() - rk.detach()).abs().max())
            sc = float(rk.detach().abs().max())
            if not err <= tol2 * (1 + sc):
                what = "limit" if k >= nleaf else "leaf"
                return violation("grad2_" + what + sfx, where + "second-order gradient w.r.t. %s #%d: got %s ref %s (err %.3e, tol %.3e); forward %s backward %s" % (
                    what, k, gk0.detach().reshape(-1).tolist()[:4], rk.detach().reshape(-1).tolist()[:4], err, tol2 * (1 + sc), rule_str(n), rule_str(nb)), labels), False
    return None, nonzero


# ------------------------------------------------------------------ strategy

@st.composite
def case_st(draw, tier="quick"):
    n = draw(st.integers(2, 12))
    nb = draw(st.one_of(st.none(), st.integers(2, 12).filter(lambda k: k != n)))
    # caller-supplied quadrature rules as forward and / or backward method
    rules, kforms, npts = st.sampled_from(["trap", "mid", "simp"]), st.sampled_from(["func", "obj", "partial"]), st.integers(2, 8)
    fwd = bck = None
    if draw(st.sampled_from([False, False, False, True, True])):
        fwd = {"rule": draw(rules), "npt": draw(npts), "form": draw(kforms)}
        how = draw(st.sampled_from(["same", "same", "opts", "opts", "leggauss", "leggauss", "leggauss_default", "callable", "callable"]))
        if how == "opts":
            bck = {"npt": draw(npts.filter(lambda k: k != fwd["npt"]))}
        elif how == "leggauss":
            bck = {"method": "leggauss", "n": draw(st.integers(2, 12))}
        elif how == "leggauss_default":
            bck = {"method": "leggauss"}
        elif how == "callable":
            # another rule, or the same rule with another npt; bound in a partial only if the forward call passes no npt of its own
            r2 = draw(rules)
            bck = {"method": r2, "npt": draw(npts.filter(lambda k: (r2, k) != (fwd["rule"], fwd["npt"]))),
                   "form": draw(kforms if fwd["form"] == "partial" else st.sampled_from(["func", "obj"]))}
        nb = None
    elif draw(st.sampled_from([False, False, False, True])):
        # Gauss-Legendre forward, caller's rule for the backward quadrature (with its npt, bound in a partial, or its own default)
        bck = {"method": draw(rules), "npt": draw(npts), "form": draw(kforms)}
        if bck["form"] != "partial" and draw(st.sampled_from([False, False, True])):
            bck["npt"] = None
        nb = None
    elif draw(st.sampled_from([False, False, False, False, True])):
        # the backward method named explicitly
        bck = {"method": "leggauss", "n": nb if nb is not None else n}
        nb = None
    ends = draw(st.sampled_from(["finite", "finite", "finite", "upinf", "loinf", "bothinf"]))
    fl = st.floats(-2, 2, allow_subnormal=False, width=32)
    forms = ["float", "t", "tg", "tg"]
    if ends == "finite":
        xl, xu = draw(fl), draw(fl)
        xlform, xuform = draw(st.sampled_from(forms)), draw(st.sampled_from(forms))
    elif ends == "upinf":
        xl, xu = draw(fl), "pinf"
        xlform, xuform = draw(st.sampled_from(forms)), draw(st.sampled_from(["float", "t"]))
    elif ends == "loinf":
        xl, xu = "ninf", draw(fl)
        xlform, xuform = draw(st.sampled_from(["float", "t"])), draw(st.sampled_from(forms))
    else:
        xl, xu = "ninf", "pinf"
        xlform, xuform = draw(st.sampled_from(["float", "t"])), draw(st.sampled_from(["float", "t"]))
    spec = draw(gen.funspec_st(2, 2))
    # history of backward passes on the one forward graph, [cotangent 0/1, graph-recording?] each (all but a single pass
    # with retain_graph): plain then recording (then second order), another cotangent first, recording twice, recording then plain
    order = draw(st.sampled_from([1, 1, 2]))
    if order == 1:
        passes = draw(st.sampled_from([[[0, False]], [[0, False]], [[0, False], [0, False]], [[0, False], [1, False]],
                                       [[1, False], [0, False], [1, False]]]))
    else:
        passes = draw(st.sampled_from([[[0, True]], [[0, True]], [[0, False], [0, True]], [[0, False], [0, True]], [[1, False], [0, True]],
                                       [[0, True], [0, True]], [[0, True], [1, True]], [[0, True], [1, False]],
                                       [[0, False], [0, True], [1, True]]]))
    # effective tensor 0 is `a`, 1 is `c`
    return {"n": n, "nb": nb, "fwd": fwd, "bck": bck, "m": draw(st.integers(1, 3)), "xl": xl, "xu": xu, "xlform": xlform, "xuform": xuform,
            "out": draw(st.sampled_from(["scalar", "vector", "tuple"])), "spec": spec,
            "req": [draw(st.sampled_from([True, True, False])), draw(st.sampled_from([True, True, False]))],
            "order": order, "passes": passes, "seed": draw(st.integers(0, 2 ** 31 - 1)),
            "piece": draw(st.sampled_from([None, None, 0.3, 0.6])), "loss": draw(st.sampled_from(["linear", "linear", "linear", "fit"]))}


def tasks(tier):
    return [Task("quadgrad", strategy=case_st(tier), run=run_case, examples={"quick": 1200, "thorough": 20000})]
