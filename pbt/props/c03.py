"""C03 — rootfinder / equilibrium / minimize return a point meeting the stopping test.

Task "single": one call with generated options.  Always: shape and dtype of y0.  Silent (no ConvergenceWarning and no warning
saying "does not converge") => the *returned tensor*, re-inserted into the user function, passes exactly the test the method
promises (derived from the TerminationCondition classes, see `silent_claims`).  Contractive class with adequate options =>
the call must be silent and the point lies within residual-bound/sigma of the independent reference solution.
gd/adam (minimize): every evaluation of the caller's objective is traced; a silent return needs two consecutively evaluated points that meet
one of the documented OR-type criteria on the CHANGE of f / x (`stagnation_test_met`); the objective is also handed over shifted by a constant
so that its value at y0 is exactly 0 / tiny / ordinary (`phishift`) — the value itself must never decide the stop.
Task "allmethods": one contractive problem, every built-in method of the chosen API with the same tolerance: all silent, all
within f_tol/sigma of the reference solution (hence pairwise within twice that).
Task "anyproblem": the 'silent => the returned tensor itself meets the test' part (and shape/dtype) holds for ANY problem, so it is
also exercised outside the contractive / unique-solution domain: equilibrium (all methods) on relaxation maps y - K f(y) whose Jacobian
has spectral radius > 1 at the solution (the plain iteration diverges, the accelerated / quasi-Newton methods still converge), and
rootfinder / minimize (and relaxed equilibrium) on non-monotone / non-convex variants where the methods converge from some starts only.
Warned runs are only counted there; the fraction of silent returns is labelled (outcome:<kind>/<api>/<method>=silent|warned).
"""
from __future__ import annotations

import json
import math

import torch
from hypothesis import strategies as st

from pbt import gen
from pbt import ref_c03 as R
from pbt.harness import Task, ok, violation, discard, xt_call, XitorchRaised

PID = "C03"
RULE = ("problem families with a unique known solution (tanh contraction, strongly monotone D y + eps tanh, holomorphic complex c sin on the "
        "unit ball, strongly convex quadratic + log cosh), n 1..8 (thorough 16), y of shape (*batch,n) or (n,k), f64/f32/c128; APIs rootfinder / "
        "equilibrium / minimize x methods newton, broyden1, broyden2, linearmixing, anderson_acc, gd, adam (lower-case names) x initial guess "
        "(zero, sphere of radius 0.5 / 3 / 1e4 / 1e6 [far-away: initial residual up to ~1e7, eps |f(y0)| above the tight f_tol settings; not for the complex "
        "family], near the solution, the solution itself) x f_tol, f_rtol, x_tol, x_rtol, maxiter (incl. far too small), line search on/off, "
        "alpha, max_rank, msize/beta/lmbda, step/gamma. minimize: the objective is handed over as the family gives it (value exactly 0 at y0 = 0, no constant "
        "term) or plus a constant chosen so that its VALUE at y0 is exactly 0 / +-3e-11 / 3e-9 (key phishift; below / around the absolute f_tol settings "
        "1e-5..1e-10 of gd/adam), gd with only x_tol or only the absolute f_tol active (step in {0.5,1}/lmax, gamma 0), with momentum, with the defaults; "
        "adam with f_tol alone or with the default relative tolerances; every evaluation of the objective by gd/adam is traced (label "
        "silent_with_|f(y0)|<f_tol:<method> counts the silent runs whose objective value at y0 is below f_tol). "
        "Non-trivial = the user function was evaluated at least 3 times (>= 2 iterations) and y0 "
        "differs from the reference solution by more than 1e-6; distinct by canonical case. Task anyproblem (no contractivity, only shape/dtype and "
        "silent => test met; warned runs counted): equilibrium x all five methods on relaxation maps y - K f(y) of the four families with K lmax = rho "
        "in {1.5, 2.2, 3, 4, 5, 8} (eigenvalues of the map's Jacobian down to 1 - rho; label silent:specrad_of_map_at_returned_point), and rootfinder / "
        "minimize / relaxed equilibrium on the non-monotone mono and non-convex quad variants (tanh / log cosh term with coefficient -L lmin, L in "
        "{0.5, 1.5, 3, 6}; y0 zero or on a sphere of radius 0.5 / 3), f64/f32/c128, maxiter None/100/300; non-trivial there = the call was silent after "
        ">= 3 function evaluations (labels outcome:<kind>/<api>/<method> give the silent fraction).")
ASSUMPTIONS = [
    "silence = no ConvergenceWarning and no warning whose text says the method did not converge (gd/adam emit a plain UserWarning); a run the "
    "root solvers end with 'Jacobian inversion yielded zero vector' after the iterates overflowed counts as not converged outside the must-converge class",
    "f_tol=None means the code's default 1e-6 (root solvers / anderson_acc); the residual is re-evaluated with the same function on the "
    "returned tensor, slack 1e-12 relative (reduction order only)",
    "root solvers / anderson_acc promise (AND of) |f| < f_tol and, root solvers only, |f| < f_rtol |f(y0)| (anderson's reference norm is internal); "
    "gd/adam promise no residual bound but an OR-type stagnation test on the CHANGE of f and of x between iterations (documented f_tol / f_rtol / x_tol / "
    "x_rtol, defaults 0, 1e-8, 0, 1e-8), plus the objective claim; a silent gd/adam return (maxiter != 0) therefore needs two consecutively evaluated "
    "points a, b (every evaluation of the caller's objective is traced) with |f_b - f_a| < f_tol or < f_rtol max(|f_a|,|f_b|) or |b - a| < x_tol or "
    "< x_rtol max(|a|,|b|), each with slack 1 + 1000 N eps; the VALUE of f (zero at y0, shifted by a constant) never enters a criterion, there is no "
    "iterate before y0 to compare with; extra evaluations only add pairs (lenient)",
    "minimize: phi(y) <= phi(y0) + f_tol^2/(2 sigma) + rounding for root-finding methods (strong convexity: phi(y)-phi* <= |grad|^2/(2 sigma)); "
    "gd/adam: phi(y) <= phi(y0) + rounding for all options (the statement's claim; y0 is among the points they evaluate); rounding = 64 N eps (|phi|+lmax|y0|^2+1)",
    "must-converge class = y -> y - f(y) has Lipschitz constant <= 0.5, f64/c128, default algorithm parameters (alpha, max_rank, line search, msize, beta, "
    "lmbda, maxiter), initial guess within radius 3 (from the far-away guesses of radius 1e4 / 1e6 no convergence is demanded: only shape/dtype, "
    "silent => test met and the distance bound residual/sigma, none of which depends on y0), no x_rtol/f_rtol, x_tol >= 1e-9, f_tol >= 1e-11 sqrt(N); broyden1/broyden2 additionally |f(y0)| >= 0.05 (their default first step has "
    "length 0.5 max(|y0|,1) whatever the residual, SciPy's heuristic, so an already converged guess is thrown away with an inverse-Jacobian estimate of "
    "norm 0.5 max(|y0|,1)/|f(y0)|); there every method must be silent and |y - y*| <= residual/sigma + 1e-10(1+|y*|)",
    "gd in the class: gamma=0, step in [0.5,1]/lmax, only x_tol active, maxiter 5000: the last step had |grad phi(x_k)| < x_tol/step and "
    "|I - step H| <= 1, the returned point has an objective no larger than x_{k+1}'s, so |y-y*|^2 <= (x_tol/(step sigma))^2 + 2 rounding/sigma "
    "(also asserted for silent runs with tiny maxiter); gd in the class with only the absolute f_tol active (x_tol = x_rtol = f_rtol = 0): two consecutive "
    "iterates had |phi(x_{k-1}) - phi(x_k)| < f_tol + 2 rounding, descent lemma for step s <= 1/lmax: that decrease is >= (s/2)|grad phi(x_{k-1})|^2, strong "
    "convexity: phi(x_{k-1}) - phi* <= |grad|^2/(2 sigma), monotone descent and best-point return: |y-y*|^2 <= 2 (f_tol + 2 rounding)/(s sigma^2) + 2 rounding/sigma "
    "(independent of any constant added to the objective; |shift| enters the rounding magnitude); adam has no derived accuracy bound and is left out of "
    "the cross-method comparison (it is held to shape/dtype, the objective claim and the stagnation test)",
    "complex family: uniqueness only inside the unit ball; a returned point outside it is held to the residual test only",
    "reference solution: damped Newton with closed-form Jacobians in f64/c128, self-certified to 1e-12",
    "task anyproblem: 'silent => the returned tensor meets the promised test' needs no assumption on the problem, so no convergence is demanded there; "
    "relaxation maps g(y) = y - K f(y) keep the unique solution of f and |g(u)-u-(g(v)-v)| >= K sigma |u-v|, so the distance bound residual/(K sigma) is "
    "kept for them; the non-monotone / non-convex variants have several roots / stationary points: no reference solution, no distance bound, and the "
    "objective claim of the root-finding methods (phi(y) <= phi(y0) + f_tol^2/(2 sigma), strong convexity) is dropped (a root of the gradient may be a "
    "saddle above phi(y0)); gd/adam keep phi(y) <= phi(y0) + rounding (the initial guess is among the points they choose from); on these variants "
    "newton may stall at a non-root local minimiser of |f| where the Jacobian is exactly singular and the dense solve raises LinAlgError: counted as a "
    "non-converged outcome (label outcome=newton_singular_jacobian_error), an exception being no silent return; on the monotone families it stays a violation",
]
LEVEL_TEXT = ("Exploration with an exact re-evaluation oracle: the returned tensor is put back into the caller's function and must pass the "
              "stopping test the method documents whenever no warning was issued; independent Newton reference for the contractive class.")
LEVEL_NOTE = "sizes n<=8 (16), <=9 rows; trusts torch.linalg.solve for the reference"
TECHNIQUE = "Hypothesis property-based testing: postcondition oracle on the returned tensor + independent reference solution + cross-method agreement"
WALL = {"quick": 300, "thorough": 1500}

RF = ["newton", "broyden1", "broyden2", "linearmixing"]
NEWTON_SOLVERS = ["exactsolve", "custom_exactsolve", "cg", "bicgstab", "gmres"]
METHODS = {"rootfinder": RF, "equilibrium": RF + ["anderson_acc"], "minimize": RF + ["gd", "adam"]}
EPS = {"f32": 1.2e-7, "f64": 2.3e-16, "c128": 2.3e-16}


# ------------------------------------------------------------------------------------------ helpers

def make_y0(case, prob, ystar, g):
    kind = case["y0"]["kind"]
    wide = torch.complex128 if prob.dtype.is_complex else torch.float64
    if kind == "zero":
        y0 = torch.zeros(prob.shape, dtype=wide)
    elif kind == "ball":
        d = gen.randn(g, prob.shape, wide)
        rows = R.to_rows(d, prob.layout, prob.n)
        rows = rows / rows.norm(dim=-1, keepdim=True).clamp_min(1e-30) * float(case["y0"]["r"])
        y0 = R.from_rows(rows, prob.layout, prob.shape).contiguous()
    elif kind in ("near", "solution") and ystar is None:
        raise ValueError("initial guess %r needs a reference solution" % kind)
    elif kind == "near":
        d = gen.randn(g, prob.shape, wide)
        y0 = ystar + float(case["y0"]["r"]) * d / d.norm().clamp_min(1e-30)
    elif kind == "solution":
        y0 = ystar.clone()
    else:
        raise ValueError(kind)
    return y0.to(prob.dtype).contiguous()


def call_api(api, fcn, y0, params, method, opts):
    import xitorch.optimize as xo
    f = {"rootfinder": xo.rootfinder, "equilibrium": xo.equilibrium, "minimize": xo.minimize}[api]
    kw = {k: v for k, v in opts.items() if v is not None}
    with R.Recorder() as rec:
        y = xt_call(f, fcn, y0, params=params, method=method, _where="forward", **kw)
    return y, rec


def phi_shift(case, prob, y0):
    """constant added to the objective handed to minimize (case key "phishift", absent = none): kind "at_y0" makes the objective VALUE at the
    initial guess equal to `delta` (0.0: exactly zero, the value is computed by the same function on the same tensor)"""
    ps = case.get("phishift")
    if not ps or ps["kind"] == "none":
        return 0.0
    v0 = float(prob.make_fcn("minimize")(y0, *prob.params()))
    return -v0 + float(ps["delta"])


def shifted_traced(fcn, shift, trace):
    """the user's objective plus a constant; records (point, value) of every evaluation when `trace` is a list"""
    def obj(y, *p):
        v = fcn(y, *p)
        if shift != 0.0:
            v = v + shift
        if trace is not None:
            trace.append((y.detach().clone(), float(v)))
        return v
    return obj


def stagnation_test_met(trace, user_opts, slack):
    """gd/adam document OR-type stopping criteria on the change of f and of x between iterations (f_tol / f_rtol: absolute / relative tolerance of
    the output f, x_tol / x_rtol: of the norm of x; defaults 0, 1e-8, 0, 1e-8).  A silent return therefore needs two consecutively evaluated
    points a, b with |f_b - f_a| < f_tol or < f_rtol max|f| or |x_b - x_a| < x_tol or < x_rtol max|x|.  Returns None when such a pair exists.
    `slack` = 1 + 1000 N eps covers the solver forming the differences / norms in the working precision."""
    def opt(k, default):       # None = not passed = the documented default
        return default if user_opts.get(k) is None else user_opts[k]
    f_tol, f_rtol, x_tol, x_rtol = opt("f_tol", 0.0), opt("f_rtol", 1e-8), opt("x_tol", 0.0), opt("x_rtol", 1e-8)
    best = (float("inf"), float("inf"))
    for (xa, va), (xb, vb) in zip(trace[:-1], trace[1:]):
        df = abs(vb - va)
        dx = float((xb - xa).norm())
        fm = max(abs(va), abs(vb))
        xm = max(float(xa.norm()), float(xb.norm()))
        if df < f_tol * slack or df < f_rtol * fm * slack or dx < x_tol * slack or dx < x_rtol * xm * slack:
            return None
        if not (df != df):
            best = min(best, (df, dx))
    return "none of the %d consecutive pairs of evaluated points meets |df| < f_tol=%g, |df| < f_rtol=%g |f|, |dx| < x_tol=%g or |dx| < x_rtol=%g |x| (smallest |df|=%.3e with |dx|=%.3e)" % (
        max(len(trace) - 1, 0), f_tol, f_rtol, x_tol, x_rtol, best[0], best[1])


def in_class(prob, case, method, opts, N, res0):
    """adequate options on a contractive problem: the call must be silent.
    Algorithm parameters are the defaults (alpha, max_rank, line search, msize, beta, lmbda); only tolerances vary.
    broyden1/broyden2: their default first step has length 0.5 max(|y0|,1) whatever the residual (alpha = 0.5 max(|y0|,1)/|f(y0)|,
    inherited from SciPy), which throws an already good initial guess away with an inverse-Jacobian estimate of norm alpha;
    the class therefore requires |f(y0)| >= 0.05 for them (alpha <= 10 max(|y0|,1))."""
    if case["dtype"] == "f32" or prob.L is None or prob.L > 0.5 or not prob.unique or prob.K is not None:
        return False
    if case["y0"]["kind"] == "ball" and case["y0"]["r"] > 3.0:
        return False        # far-away guesses (radius 1e4 / 1e6): no convergence demanded, only 'silent => test met' and the distance bound
    if method in ("gd", "adam"):
        # gd with gamma=0, step <= 1/lmax contracts by 1 - step*sigma >= ... per iteration: 5000 iterations reach any x_tol used here
        return bool(opts.get("_class")) and opts.get("maxiter", 0) >= 5000
    for k in ("maxiter", "f_rtol", "x_rtol", "alpha", "max_rank", "msize", "beta", "lmbda", "solver_method", "solver_kwargs"):
        if opts.get(k) is not None:
            return False
    if opts.get("line_search") is False:
        return False
    if opts.get("x_tol") is not None and opts["x_tol"] < 1e-9:
        return False
    ft = 1e-6 if opts.get("f_tol") is None else opts["f_tol"]
    if ft < 1e-11 * math.sqrt(N):
        return False
    if method in ("broyden1", "broyden2") and res0 < 0.05:
        return False
    return True


def check_one(case, prob, api, method, opts, y0, ystar, labels, g):
    """run one call and evaluate all claims; returns (verdict or None, info)"""
    counter = gen.Counter()
    fcn = prob.make_fcn(api, counter)
    params = prob.params()
    trace = None
    shift = 0.0
    if api == "minimize":
        shift = phi_shift(case, prob, y0)
        trace = []
        fcn = shifted_traced(fcn, shift, trace if method in ("gd", "adam") else None)
    N = y0.numel()
    eps = EPS[case["dtype"]]
    user_opts = {k: v for k, v in opts.items() if not k.startswith("_")}
    phi0 = prob.phi(y0) if api == "minimize" else None
    res0 = prob.residual_norm(y0, api)
    must = in_class(prob, case, method, opts, N, res0)
    tag = "%s/%s" % (api, method)
    # |residual(u) - residual(v)| >= sigma |u - v| for the form handed to `api` (relaxation map: residual = K f); None: no such bound
    sigma = None if prob.sigma is None else prob.sigma * (prob.K if (prob.K is not None and api == "equilibrium") else 1.0)
    try:
        y, rec = call_api(api, fcn, y0, params, method, user_opts)
    except XitorchRaised as e:
        # the root solvers end a diverged run (iterates overflowed) with this error instead of a warning; outside the
        # must-converge class that is a non-converged outcome, not a returned point
        if "Jacobian inversion yielded zero vector" in e.detail and not must:
            return None, {"evals": counter.n, "warned": True, "diverged_error": True, "must": False}
        # non-monotone / non-convex variants only: Newton's line search on |f| can settle at a local minimiser of |f| that is not a root, where
        # the Jacobian is singular (1-d: the inflection point of phi); the dense solve then raises.  That is Newton's documented breakdown
        # on a problem outside its convergence domain and not a returned point; the monotone families have |J v| >= sigma |v| everywhere,
        # there the same error stays a violation
        if not prob.unique and method == "newton" and "LinAlgError" in e.detail and "singular" in e.detail:
            return None, {"evals": counter.n, "warned": True, "singular_jacobian_error": True, "must": False}
        raise
    info = {"evals": counter.n, "warned": rec.warned}

    if not isinstance(y, torch.Tensor):
        return violation("not_a_tensor", "%s returned %r" % (tag, type(y)), labels), info
    if tuple(y.shape) != tuple(y0.shape) or y.dtype != y0.dtype:
        return violation("shape_dtype", "%s: y0 %s %s -> returned %s %s" % (tag, tuple(y0.shape), y0.dtype, tuple(y.shape), y.dtype), labels), info
    y = y.detach()
    info["y"] = y          # the returned tensor (labels of task anyproblem)
    finite = bool(torch.isfinite(torch.view_as_real(y) if y.is_complex() else y).all())
    info["must"] = must

    if rec.warned:
        if must:
            return violation("warned_in_contractive_class", "%s warned on a contractive problem (L=%.3g, sigma=%.3g, N=%d): %s; opts=%r" % (
                tag, prob.L, sigma, N, rec.texts[:1], user_opts), labels), info
        return None, info

    # ---------------- silent: the returned tensor passes the promised test
    if not finite:
        return violation("silent_nonfinite", "%s returned non-finite values without warning" % tag, labels), info
    res = prob.residual_norm(y, api)
    info["res"] = res
    slack = 1 + 1e-12
    if method in RF or method == "anderson_acc":
        ft = 1e-6 if user_opts.get("f_tol") is None else user_opts["f_tol"]
        if not res < ft * slack:
            return violation("silent_but_ftol_not_met", "%s silent, f_tol=%g, but the returned tensor has residual %.6e (evals=%d, opts=%r)" % (
                tag, ft, res, counter.n, user_opts), labels), info
        if method in RF and user_opts.get("f_rtol") is not None:
            res0 = prob.residual_norm(y0, api)
            if not res <= user_opts["f_rtol"] * res0 * slack:
                return violation("silent_but_frtol_not_met", "%s silent, f_rtol=%g, |f(y0)|=%.6e but residual %.6e" % (
                    tag, user_opts["f_rtol"], res0, res), labels), info
    if api == "minimize" and method in ("gd", "adam") and user_opts.get("maxiter") != 0:
        # the stagnation test the caller asked for was met between two consecutively evaluated points (maxiter=0 is the documented
        # 'wrap the backward only' use: no test is made)
        msg = stagnation_test_met(trace, user_opts, 1 + 1000 * N * eps)
        info["f_at_y0"] = trace[0][1] if trace else None
        if msg is not None:
            return violation("silent_but_stagnation_test_not_met", "%s silent (evals=%d, objective value at y0 = %.3e, opts=%r): %s" % (
                tag, counter.n, trace[0][1] if trace else float("nan"), user_opts, msg), labels), info
    if api == "minimize":
        phi = prob.phi(y)
        mag = abs(phi0) + abs(phi) + abs(shift) + float(y0.norm()) ** 2 * prob.const["lmax"] + 1.0
        rounding = 64 * N * eps * mag
        claim = None
        if method in RF:
            # strong convexity only: on the non-convex family a root of the gradient may be a saddle above phi(y0)
            if sigma is not None:
                ft = 1e-6 if user_opts.get("f_tol") is None else user_opts["f_tol"]
                claim = phi0 + ft * ft / (2 * sigma) + rounding
        else:
            claim = phi0 + rounding     # gd/adam: the initial guess is among the evaluated points they choose from
        if claim is not None and not phi <= claim:
            return violation("objective_increased", "%s silent but phi(y)=%.12e > phi(y0)=%.12e (+%.3e allowed); evals=%d opts=%r" % (
                tag, phi, phi0, claim - phi0, counter.n, user_opts), labels), info

    # ---------------- distance to the reference solution
    if ystar is None or sigma is None:
        return None, info
    if prob.fam == "csin":
        rows = R.to_rows(y, prob.layout, prob.n)
        if float(rows.norm(dim=-1).max()) > 1.0:
            info["outside_ball"] = True
            return None, info
    bound = None
    if method in RF or method == "anderson_acc":
        bound = res / sigma
    elif method == "gd" and opts.get("_class") == "ftol" and case["dtype"] != "f32":
        # only the absolute f criterion is active: two consecutive evaluated iterates x_{k-1}, x_k (k >= 1) had |phi(x_{k-1}) - phi(x_k)| < f_tol
        # (computed values: true decrease < f_tol + 2 rounding).  Descent lemma, step s <= 1/lmax: phi(x_{k-1}) - phi(x_k) >= (s/2) |grad phi(x_{k-1})|^2,
        # so |grad phi(x_{k-1})|^2 < 2 (f_tol + 2 rounding)/s and phi(x_{k-1}) - phi* <= |grad|^2/(2 sigma) < (f_tol + 2 rounding)/(s sigma).  The iteration
        # descends monotonically and the returned point is the last iterate or an evaluated point with a smaller objective value:
        # |y-y*|^2 <= 2 (phi(y)-phi*)/sigma <= 2 (f_tol + 2 rounding)/(s sigma^2) + 2 rounding/sigma.  The VALUE of phi (zero at y0, shifted by a constant)
        # does not enter: the criterion is on the change between iterations.
        bound = math.sqrt(2 * (user_opts["f_tol"] + 2 * rounding) / (user_opts["step"] * sigma * sigma) + 2 * rounding / sigma)
    elif method == "gd" and opts.get("_class") and case["dtype"] != "f32":
        # the last step x_{k+1} = x_k - step grad(x_k) had |x_{k+1}-x_k| < x_tol, and |I - step H| <= 1, so |grad phi(x_{k+1})| < x_tol/step;
        # the returned point is x_{k+1} or an evaluated point with a smaller objective value:
        # phi(y) - phi* <= (x_tol/step)^2/(2 sigma) + rounding, and |y-y*|^2 <= 2 (phi(y)-phi*)/sigma
        gb = user_opts["x_tol"] / user_opts["step"]
        bound = math.sqrt((gb / sigma) ** 2 + 2 * rounding / sigma)
    if bound is not None:
        dist = float((y.to(ystar.dtype) - ystar).norm())
        info["dist"] = dist
        tol = bound + 1e-10 * (1 + float(ystar.norm())) + (50 * N * eps * (1 + float(ystar.norm())) / sigma)
        if not dist <= tol:
            return violation("far_from_unique_solution", "%s silent with residual %.3e, sigma=%.3g, but |y - y*| = %.3e > %.3e" % (
                tag, res, sigma, dist, tol), labels), info
    return None, info


def base_labels(case, prob):
    return ["api=" + case["api"], "fam=" + case["fam"], "dtype=" + case["dtype"], "layout=%s%d" % (case["layout"], len(case["batch"])),
            "y0=" + case["y0"]["kind"], "contractive=%s" % (prob.L is not None and prob.L <= 0.5)] + (
                ["y0_radius=%g" % case["y0"]["r"]] if case["y0"]["kind"] == "ball" else [])


def run_single(case):
    torch.manual_seed(case["seed"] & 0x7FFFFFFF)
    g = gen.seeded(case["seed"])
    prob = R.build_problem(case, g)
    ystar = prob.solve_reference()
    y0 = make_y0(case, prob, ystar, g)
    api, method, opts = case["api"], case["method"], case["opts"]
    labels = base_labels(case, prob) + ["method=" + method, "api_method=%s/%s" % (api, method)]
    if opts.get("solver_method") is not None:
        labels.append("newton_solver=%s/%s/%s" % (opts["solver_method"], json.dumps(opts.get("solver_kwargs"), sort_keys=True),
                                                  "starved" if opts.get("maxiter") in (1, 2, 3, 5) else "budget"))
    for k in ("maxiter", "line_search", "alpha", "max_rank", "x_tol", "f_rtol", "x_rtol", "msize", "beta", "gamma"):
        if opts.get(k) is not None and not (method == "gd" and k in ("x_tol", "f_rtol", "x_rtol")):
            labels.append("opt:%s=%s" % (k, opts[k]))
    labels.append("f_tol=%s" % opts.get("f_tol"))
    v, info = check_one(case, prob, api, method, opts, y0, ystar, labels, g)
    labels.append("outcome=" + ("warned" if info.get("warned") else "silent"))
    if api == "minimize":
        ps = case.get("phishift") or {"kind": "none", "delta": 0.0}
        labels.append("phishift=%s%s" % (ps["kind"], ("/%g" % ps["delta"]) if ps["kind"] != "none" else ""))
        if method in ("gd", "adam"):
            labels.append("%s:f_tol=%s,_class=%s" % (method, opts.get("f_tol"), opts.get("_class")))
            ft = opts.get("f_tol") or 0.0
            if info.get("f_at_y0") is not None and ft > 0 and not info.get("warned"):
                # silent runs with an absolute f_tol whose objective VALUE at the initial guess is below that f_tol
                labels.append("silent_with_|f(y0)|<f_tol:%s=%s" % (method, abs(info["f_at_y0"]) < ft))
    if info.get("must"):
        labels.append("must_converge=%s" % method)
    if info.get("outside_ball"):
        labels.append("complex_outside_ball")
    if info.get("diverged_error"):
        labels.append("outcome=diverged_with_zero_step_error")
    if v is not None:
        return v
    far = float((y0.to(ystar.dtype) - ystar).norm()) > 1e-6
    return ok(labels, nontrivial=(info["evals"] >= 3 and far))


def run_allmethods(case):
    torch.manual_seed(case["seed"] & 0x7FFFFFFF)
    g = gen.seeded(case["seed"])
    prob = R.build_problem(case, g)
    ystar = prob.solve_reference()
    y0 = make_y0(case, prob, ystar, g)
    api = case["api"]
    labels = base_labels(case, prob) + ["f_tol=%s" % case["f_tol"], "line_search=%s" % case["line_search"]]
    if api == "minimize":
        ps = case.get("phishift") or {"kind": "none", "delta": 0.0}
        labels += ["gdmode=%s" % case.get("gdmode", "xtol"), "phishift=%s%s" % (ps["kind"], ("/%g" % ps["delta"]) if ps["kind"] != "none" else "")]
    N = y0.numel()
    pts = {}
    evals = 0
    for method in METHODS[api]:
        if method == "adam":
            continue        # no derived accuracy bound for adam (asserted in task "single": shape, dtype, objective, stagnation test)
        if method == "gd" and case.get("gdmode") == "ftol":
            step = case["gdstep"] / prob.const["lmax"]
            opts = {"step": step, "gamma": 0.0, "maxiter": 5000, "f_tol": case["f_tol"], "f_rtol": 0.0, "x_rtol": 0.0, "x_tol": 0.0, "_class": "ftol"}
        elif method == "gd":
            step = case["gdstep"] / prob.const["lmax"]
            opts = {"step": step, "gamma": 0.0, "maxiter": 5000, "f_tol": 0.0, "f_rtol": 0.0, "x_rtol": 0.0,
                    "x_tol": case["f_tol"] * step, "_class": True}
        elif method == "anderson_acc":
            opts = {"f_tol": case["f_tol"], "feat_ndims": (len(prob.shape) if prob.layout == "col" else 1)}
        else:
            opts = {"f_tol": case["f_tol"], "line_search": case["line_search"]}
        v, info = check_one(case, prob, api, method, opts, y0, ystar, labels + ["method=" + method], g)
        if v is not None:
            return v
        evals = max(evals, info["evals"])
        if info.get("must"):
            labels.append("must_converge=%s" % method)
        if info.get("outside_ball"):
            return ok(labels + ["complex_outside_ball"], nontrivial=False)
        pts[method] = info.get("dist")
    labels.append("nmethods=%d" % len(pts))
    far = float((y0.to(ystar.dtype) - ystar).norm()) > 1e-6
    return ok(labels, nontrivial=(evals >= 3 and far))


def spectral_radius_of_map(prob, y):
    """largest |eigenvalue| over the rows of the Jacobian of the equilibrium map at y (closed-form Jacobians of ref_c03; label only)"""
    wide = torch.complex128 if prob.dtype.is_complex else torch.float64
    saved, dt_saved = prob.P, prob.dtype
    prob.P = {k: (v.to(wide) if isinstance(v, torch.Tensor) else v) for k, v in saved.items()}
    prob.dtype = wide
    try:
        J = prob.jac_rows(R.to_rows(y.detach().to(wide), prob.layout, prob.n))
    finally:
        prob.P, prob.dtype = saved, dt_saved
    K = 1.0 if prob.K is None else prob.K
    Jg = torch.eye(prob.n, dtype=wide) - K * J
    return float(torch.linalg.eigvals(Jg).abs().max())


def run_any(case):
    """problems outside the contractive / unique-solution domain: shape, dtype and 'silent => the returned tensor meets the test'
    (plus the distance to y* where the relaxed problem still has a unique solution); warned runs are only counted"""
    torch.manual_seed(case["seed"] & 0x7FFFFFFF)
    g = gen.seeded(case["seed"])
    prob = R.build_problem(case, g)
    ystar = prob.solve_reference() if prob.unique else None
    y0 = make_y0(case, prob, ystar, g)
    api, method, opts = case["api"], case["method"], case["opts"]
    kind = ("relax+nonmono" if prob.K is not None else "nonmono") if not prob.unique else "relax"
    labels = ["api=" + api, "fam=" + case["fam"], "dtype=" + case["dtype"], "layout=%s%d" % (case["layout"], len(case["batch"])),
              "y0=" + case["y0"]["kind"], "kind=" + kind, "method=" + method, "api_method=%s/%s" % (api, method),
              "f_tol=%s" % opts.get("f_tol")]
    if prob.K is not None:
        labels.append("relax_rho=%s" % case["relax"])
    else:
        labels.append("nonmono_strength=%s" % case["L"])
    for k in ("maxiter", "line_search", "msize", "beta", "lmbda"):
        if opts.get(k) is not None:
            labels.append("opt:%s=%s" % (k, opts[k]))
    v, info = check_one(case, prob, api, method, opts, y0, ystar, labels, g)
    outcome = ("diverged_with_zero_step_error" if info.get("diverged_error") else "newton_singular_jacobian_error" if info.get("singular_jacobian_error")
               else ("warned" if info.get("warned") else "silent"))
    labels += ["outcome=" + outcome, "outcome:%s/%s/%s=%s" % (kind, api, method, outcome)]
    if v is not None:
        return v
    moved = info["evals"] >= 3
    if outcome == "silent" and api == "equilibrium" and "res" in info:
        # the point the method accepted: is the map a contraction there?
        rho = spectral_radius_of_map(prob, info["y"])
        bucket = "<1" if rho < 1 else ("1..2" if rho < 2 else ("2..4" if rho < 4 else ">=4"))
        labels.append("silent:specrad_of_map_at_returned_point=" + bucket)
        if rho >= 1 and moved:
            labels.append("silent_on_noncontractive_map=" + method)
    return ok(labels, nontrivial=(moved and outcome == "silent"))


# ------------------------------------------------------------------------------------------ strategies

FTOLS = [None, 1e-4, 1e-6, 1e-8, 1e-9, 1e-10, 1e-12]


@st.composite
def problem_st(draw, tier, api, contractive=None):
    nmax = 8 if tier == "quick" else 16
    n = draw(st.integers(1, nmax))
    if api == "minimize":
        fam = "quad"
    else:
        fam = draw(st.sampled_from(["tanh", "tanh", "mono", "csin", "quad"]))
    if contractive is None:
        contractive = draw(st.sampled_from([True, True, False]))
    dtype = "c128" if fam == "csin" else draw(st.sampled_from(["f64", "f64", "f64", "f64", "f32"]))
    if contractive and dtype == "f32":
        dtype = "f64"
    layout = draw(st.sampled_from(["row", "row", "row", "col"]))
    if layout == "col":
        batch = [draw(st.integers(1, 3))]
    else:
        batch = draw(st.sampled_from([[], [], [1], [2], [3], [2, 2], [1, 3], [3, 1]]))
    rows = 1
    for b in batch:
        rows *= b
    if tier != "quick" and n * rows > 48:
        batch, layout = [], "row"
    if fam == "tanh":
        L = draw(st.sampled_from([0.0, 0.1, 0.3, 0.5])) if contractive else draw(st.sampled_from([0.6, 0.7, 0.8]))
        spread = None
    elif fam == "csin":
        L = draw(st.sampled_from([0.0, 0.2, 0.5])) if contractive else draw(st.sampled_from([0.7, 0.9]))
        spread = None
    else:
        if contractive:
            lo, hi = draw(st.sampled_from([(1.0, 1.0), (0.9, 1.0), (0.8, 1.2), (0.7, 1.3), (1.0, 1.25)]))
            L = draw(st.sampled_from([0.0, 0.1, 0.2]))
            Lc = (max(1 - lo, hi - 1) + L * lo) if fam == "mono" else max(1 - lo, hi + L * lo - 1)
            if Lc > 0.5:
                L = 0.0
        else:
            lo = draw(st.sampled_from([0.5, 1.0, 2.0]))
            hi = lo * draw(st.sampled_from([1.0, 2.0, 5.0, 10.0]))
            L = draw(st.sampled_from([0.0, 0.3, 0.6, 0.9]))
        spread = [lo, hi]
    bscale = draw(st.sampled_from([0.0, 0.5, 1.0, 1.0, 2.0]))
    y0kind = draw(st.sampled_from(["zero", "zero", "ball", "ball", "near", "solution"]))
    if y0kind == "ball":
        # far-away guesses (families with linear growth only): |f(y0)| ~ lmax r up to ~1e7, so that eps |f(y0)| exceeds the tight f_tol settings
        # (a stopping shortcut measured against the initial residual, not against the tolerance the caller asked for, shows there)
        r = draw(st.sampled_from([0.5] if fam == "csin" else [0.5, 3.0, 3.0, 1e4, 1e6]))
    elif y0kind == "near":
        r = draw(st.sampled_from([1e-2, 1e-5, 1e-8]))
    else:
        r = 0.0
    case = {"api": api, "fam": fam, "n": n, "layout": layout, "batch": batch, "dtype": dtype, "L": L, "spread": spread,
            "bscale": bscale, "y0": {"kind": y0kind, "r": r}, "seed": draw(st.integers(0, 2 ** 31 - 1))}
    if api == "minimize":
        # the objective VALUE at the initial guess: as the family gives it (exactly 0 at y0 = 0: no constant term), or shifted by a constant so
        # that it is exactly 0 / tiny (below the absolute f_tol settings) at y0
        kind = draw(st.sampled_from(["none", "none", "at_y0", "at_y0"]))
        case["phishift"] = {"kind": kind, "delta": draw(st.sampled_from([0.0, 0.0, 3e-11, -3e-11, 3e-9])) if kind == "at_y0" else 0.0}
    return case


@st.composite
def single_st(draw, tier="quick"):
    api = draw(st.sampled_from(["rootfinder", "rootfinder", "equilibrium", "equilibrium", "minimize", "minimize"]))
    case = draw(problem_st(tier, api))
    method = draw(st.sampled_from(METHODS[api]))
    case["method"] = method
    case["opts"] = draw(opts_st(case, method))
    return case


@st.composite
def opts_st(draw, case, method, gd_modes=("default", "stable", "stable", "class", "class_ftol")):
    f32 = case["dtype"] == "f32"
    opts = {}
    plain = draw(st.sampled_from([True, False, False]))      # plain = default algorithm parameters, only tolerances vary
    if method in RF or method == "anderson_acc":
        opts["f_tol"] = draw(st.sampled_from([None, 1e-2, 1e-3, 1e-4] if f32 else FTOLS))
        opts["x_tol"] = draw(st.sampled_from([None, None, None, 1e-3, 1e-9, 1e2]))
        if not plain:
            opts["maxiter"] = draw(st.sampled_from([None, None, 1, 2, 3, 5, 20]))
            opts["f_rtol"] = draw(st.sampled_from([None, None, None, 1e-3, 1e-6]))
            opts["x_rtol"] = draw(st.sampled_from([None, None, None, 1e-3]))
    if method in RF:
        opts["line_search"] = draw(st.sampled_from([None, True] if plain else [None, True, False, False]))
        if method != "newton" and not plain:
            opts["alpha"] = draw(st.sampled_from([None, None, -1.0, -0.5, 1.0]))
        if method == "newton" and not plain and draw(st.booleans()):
            # documented options of newton: the linear solver of the Newton step and its options (an iterative inner solver that stops
            # early only makes the step inexact: the outer stopping test, and the warning when it is not reached, are unchanged)
            opts["solver_method"] = draw(st.sampled_from(NEWTON_SOLVERS))
            if opts["solver_method"] in ("cg", "bicgstab", "gmres"):
                opts["solver_kwargs"] = draw(st.sampled_from([None, {}, {"rtol": 1e-8}, {"rtol": 1e-2}, {"max_niter": 1}, {"max_niter": 2}]))
        if method in ("broyden1", "broyden2") and not plain:
            opts["max_rank"] = draw(st.sampled_from([None, None, 1, 2, 5]))
    if method == "anderson_acc":
        if not plain:
            opts["msize"] = draw(st.sampled_from([None, None, 2, 3, 8]))
            opts["beta"] = draw(st.sampled_from([None, None, 0.7, 0.5]))
            opts["lmbda"] = draw(st.sampled_from([None, None, 1e-8]))
        if case["layout"] == "col":
            opts["feat_ndims"] = 2
        elif len(case["batch"]) >= 1 and not plain:
            opts["feat_ndims"] = draw(st.sampled_from([None, None, len(case["batch"]) + 1]))
    if method == "gd":
        lmax = _lmax(case)
        mode = draw(st.sampled_from(list(gd_modes)))
        if mode == "default":
            opts["maxiter"] = draw(st.sampled_from([None, 0, 1, 2, 50]))
        elif mode == "stable":
            gamma = draw(st.sampled_from([0.0, 0.5, 0.9]))
            opts["gamma"] = gamma
            opts["step"] = draw(st.sampled_from([0.3, 1.0, 1.5])) * (1 - gamma) / lmax
            opts["maxiter"] = draw(st.sampled_from([None, 2, 20, 3000]))
            opts["x_tol"] = draw(st.sampled_from([None, 1e-6]))
            opts["f_tol"] = draw(st.sampled_from([None, 1e-10, 1e-6]))
        elif mode == "class_ftol":
            # only the ABSOLUTE criterion on the change of f is active
            step = draw(st.sampled_from([0.5, 1.0])) / lmax
            opts.update({"gamma": 0.0, "step": step, "maxiter": draw(st.sampled_from([5000, 5000, 3, 10])), "f_tol": draw(st.sampled_from([1e-6, 1e-8, 1e-10])),
                         "f_rtol": 0.0, "x_rtol": 0.0, "x_tol": 0.0, "_class": "ftol"})
        else:
            step = draw(st.sampled_from([0.5, 1.0])) / lmax
            opts.update({"gamma": 0.0, "step": step, "maxiter": draw(st.sampled_from([5000, 5000, 3, 10])), "f_tol": 0.0, "f_rtol": 0.0, "x_rtol": 0.0,
                         "x_tol": draw(st.sampled_from([1e-6, 1e-9])) * step, "_class": True})
    if method == "adam":
        opts["step"] = draw(st.sampled_from([None, 1e-2, 1e-1]))
        opts["maxiter"] = draw(st.sampled_from([None, None, 0, 1, 2, 100, 3000]))
        opts["x_tol"] = draw(st.sampled_from([None, 1e-6]))
        opts["f_tol"] = draw(st.sampled_from([None, None, 1e-6, 1e-10]))
        if opts["f_tol"] is not None and draw(st.booleans()):
            opts["f_rtol"], opts["x_rtol"] = 0.0, 0.0       # the absolute f criterion alone (plus x_tol when drawn)
    return opts


@st.composite
def any_st(draw, tier="quick"):
    """outside the contractive / unique domain: (a) equilibrium on the relaxation map y - K f(y), K lmax = rho in 1.5..8 (dg/dy has eigenvalues
    down to 1 - rho: not a contraction for rho > 2, same unique solution); (b) rootfinder / minimize (and relaxed equilibrium) on the non-monotone /
    non-convex variants of the mono / quad families, where the methods converge from some starts only"""
    api = draw(st.sampled_from(["equilibrium", "equilibrium", "equilibrium", "rootfinder", "minimize"]))
    nonmono = api != "equilibrium" or draw(st.sampled_from([False, False, False, True]))
    case = draw(problem_st(tier, api))
    if nonmono:
        case["fam"] = "quad" if api == "minimize" else draw(st.sampled_from(["mono", "quad"]))
        if case["dtype"] == "c128":
            case["dtype"] = "f64"
        lo = draw(st.sampled_from([0.5, 1.0, 2.0]))
        case["spread"] = [lo, lo * draw(st.sampled_from([1.0, 2.0, 5.0]))]
        case["L"] = draw(st.sampled_from([0.5, 1.5, 3.0, 6.0]))
        case["nonmono"] = True
        case["y0"] = draw(st.sampled_from([{"kind": "zero", "r": 0.0}, {"kind": "ball", "r": 0.5}, {"kind": "ball", "r": 3.0}]))
    if api == "equilibrium":
        case["relax"] = draw(st.sampled_from([1.5, 2.2, 3.0, 4.0, 5.0, 5.0, 8.0, 8.0]))
    method = draw(st.sampled_from(METHODS[api] + (["anderson_acc"] * 3 if api == "equilibrium" else [])))
    opts = draw(opts_st(case, method, gd_modes=("default", "stable", "stable")))
    if method in RF or method == "anderson_acc":
        # the interesting outcome here is a silent return: no starved iteration budgets; a cap bounds the cost of the runs that wander
        opts["maxiter"] = draw(st.sampled_from([None, 100, 300]))
    case["method"] = method
    case["opts"] = opts
    return case


def _lmax(case):
    lo, hi = case["spread"]
    return hi + case["L"] * lo


@st.composite
def allmethods_st(draw, tier="quick"):
    api = draw(st.sampled_from(["rootfinder", "equilibrium", "minimize"]))
    case = draw(problem_st(tier, api, contractive=True))
    case["f_tol"] = draw(st.sampled_from([1e-5, 1e-7, 1e-9, 1e-10]))
    case["line_search"] = draw(st.sampled_from([None, True]))
    if case["y0"]["kind"] in ("near", "solution") and draw(st.booleans()):
        case["y0"] = {"kind": "ball", "r": 0.5}
    case["gdstep"] = draw(st.sampled_from([0.5, 1.0]))
    if api == "minimize":
        case["gdmode"] = draw(st.sampled_from(["xtol", "ftol"]))
    return case


def tasks(tier):
    return [Task("single", strategy=single_st(tier), run=run_single, examples={"quick": 2400, "thorough": 40000}),
            Task("allmethods", strategy=allmethods_st(tier), run=run_allmethods, examples={"quick": 400, "thorough": 6000}),
            Task("anyproblem", strategy=any_st(tier), run=run_any, examples={"quick": 800, "thorough": 10000})]
