"""C16 — mcquad returns the weighted sample mean it documents, with its gradient.

Task "mcq" (all three samplers, small sample counts, every parameter placement, first and second order)
  * the points at which f is evaluated (our own call log, minus the documented probe f(x0)) ARE the samples:
      - mhcustom with a deterministic caller step: they must be a contiguous window of length nsamples of the chain
        s_0 = x0, s_{k+1} = step(s_k) starting at index nburnout or nburnout+1 (both readings of "nsamples samples after
        nburnout burn-in steps"; mh itself uses the second), bit-for-bit (the step is ours and is applied to the same values);
        the reading must not depend on nburnout: a second call with nburnout+1 must move the window by exactly one state;
        custom_step receives exactly (x, *pparams); the step delivers its (bit-identical) values in one of the ways a caller's
        step may: a fresh tensor, its argument advanced in place and returned, one internal state tensor overwritten and
        returned at every call, a contiguous or a strided window of a larger internal buffer — the samples are the values
        each call returned at the time, whatever the step does to that memory afterwards;
      - _dummy1d: the n Gauss-Legendre nodes mapped through tan from [atan lb, atan ub] (numpy's leggauss as reference);
      - mh: exactly nburnout+nsamples fresh proposals are evaluated by log p, the samples follow the Metropolis chain
        structure (sample_k is sample_{k-1} or the k-th sampling proposal; an uphill proposal is always accepted; the state
        after burn-in is x0 or a burn-in proposal that no later surely-accepted (uphill of every possible state) burn-in
        proposal has superseded);
  * value = sum_i w_i f(x_i) on the recorded samples, w_i = 1/nsamples (mh, mhcustom) or the normalised quadrature weights
    (1+x_i^2) wGL_i p(x_i) (_dummy1d); tuple outputs component-wise; a constant component returns the constant; the component
    2*f_1 - 3*f_2 returns 2*E f_1 - 3*E f_2; f and log p may hand their results out as views of one internal buffer that their
    next call overwrites (value and graph of each call are those of the plain function; the references always use the plain
    functions): the mean and both estimators use the value each call returned at the time (not for log p of `mh`, see
    MH_NEEDS_FRESH_LOGP);
  * the x0 tensor handed over by the caller is bitwise unchanged after the forward call and after each backward pass, unless
    the caller's own step advances its argument in place;
  * gradients: reference is the DiCE-style self-normalised surrogate  S = sum_i w_i r_i F_i / sum_i w_i r_i,
    r_i = exp(log p_i - stopgrad(log p_i)), F_i = <W, f(x_i)>, evaluated in plain torch on the recorded samples.
    With E_r[h] = sum w r h / sum w r one has d E_r[h] = E_r[dh] + Cov_r(h, dlog p) for every h, hence at r = 1
        dS/dtheta_f = E[dF],   dS/dtheta_p = E[(F - E F) dlog p]                       (mean of df, covariance estimator)
    and, differentiating once more with the same identity, exactly the recursion of _MCQuad.backward (the backward is an
    expectation of the augmented function (dF, (F - E)dlog p) over the same samples whose own backward adds E[d aug],
    Cov(aug, dlog p) and the chain through E).  The surrogate was cross-checked (first and second order) against central finite
    differences of the _dummy1d value recomputed at perturbed parameters, which is the importance-reweighted estimator itself.  Tensors entering neither f nor log p: zero or None, never an error.

Task "mhstat" (mh over seeds, Gaussian targets, thousands of samples): the structural invariants above plus
  * acceptance calibration: sum over downhill sampling steps of (accepted_k - exp(log p ratio_k)) is a martingale with
    increments in [-1, 1]; Azuma-Hoeffding (supermartingale form, valid for the random number n of downhill steps, see
    `azuma_bound`): |sum| <= ~sqrt(2 n ln(16/delta)), delta = 1e-10  (rigorous, non-asymptotic);
  * proposal increments (proposal_k - sample_{k-1})/step_size are iid N(0,1): chi-square bounds of Laurent-Massart with
    e^-t = 1e-10 on the sum of squares and |mean| sqrt(n) <= 7.2 (Gaussian tail 6e-13);
  * moments of the target: |mean - mu| <= 8 sigma sqrt(TAU/N) and |E z^2 - 1| <= 8 sqrt(2 TAU/N) with TAU = 50, twice the
    largest integrated autocorrelation time measured offline (24, at step 0.8 sigma_min, d=2, axis ratio 1.5) for the generated
    range — an 11-sigma band.  Union bound over the five statistical tests of one case: < 1e-9.
"""
from __future__ import annotations

import math

import numpy as np
import torch
from hypothesis import strategies as st

from pbt import gen
from pbt.harness import Task, ok, violation, discard, xt_call

PID = "C16"
RULE = ("mcq: sampler in {mhcustom with a deterministic caller step (shift / negate / affine contraction / roll) x how the step delivers "
        "its result {fresh tensor, argument advanced in place, one internal buffer, contiguous / strided view of a larger buffer}, _dummy1d (n<=12, "
        "finite / half-infinite / infinite bounds), mh (seeded; method given or defaulted)} x nsamples 1..8, nburnout 0..6 (drawn "
        "independently, so mostly unequal) x x0 of shape (d,), () or (d,1) x f output {scalar, vector, matrix, tuple / list incl. a constant and a "
        "linear-combination component, constant} x log p output shape {(), (1,)} x function kind of f and of log p from pbt/gen.py (explicit / object-held / derived "
        "tensors, optional unused tensor, non-tensor parameter) x one leaf shared between f and log p x which leaves require grad x "
        "bck_options x order 1/2 x f / log p returning {fresh tensors, one reused internal buffer, a window of a larger reused buffer} (log p of mh: fresh only).  "
        "sameobj: f and log p two methods of one object, mhcustom with the same step-delivery styles.  mhstat: mh on Gaussian targets, d<=2 (axis ratio <=1.5), N in 1500..4000 (thorough 12000), step 0.8..4 sigma_min, "
        "nburnout in {0,1,7,50,200}, start within one sigma of the mean. "
        "Non-trivial = at least two different samples were recorded and (mcq) the integrand is not constant; distinct by canonical case.")
ASSUMPTIONS = [
    "float64 only; x0 does not require grad; method names lower-case (case-insensitivity is C18's subject)",
    "value tolerance 64*eps*(N+2)*sum_i w_i|f_i| (x (1+max|x|) for _dummy1d: cos(t)^-2 near the poles of tan)",
    "gradient tolerance 1e3*eps*(N+2)*A_k where A_k is the sum of the absolute values of the estimator's terms, measured per sample on "
    "the reference side (|F_i|+|E|, 1-norms of dF_i, dlog p_i and of their C-contracted second derivatives)",
    "the DiCE surrogate equals the fixed-sample estimator's derivatives to every order (derived by hand from d E_r[h] = E_r[dh] + "
    "Cov_r(h, dlog p); first and second order checked during development against central finite differences of the _dummy1d value "
    "recomputed at perturbed parameters: agreement 3e-10 / 2e-7 = finite-difference accuracy)",
    "_dummy1d is called as the repository's own test calls it: 0-d x0, options nsamples/lb/ub",
    "callables that reuse memory: the values a step / f / log p returns are those of the plain map at the time of the call; what the "
    "callable does to that memory at later calls must not change samples, value or gradients (mcquad consumes f and log p at once, mhcustom "
    "copies each state).  Not generated: log p of `mh` returning a reused buffer (mh keeps the returned tensor for the current state and "
    "would compare it with itself; read as outside the domain of 'pure functions', flag MH_NEEDS_FRESH_LOGP, replay in "
    "regress/C16/mh_logp_returns_reused_buffer.json.pending)",
    "x0 is an input: bitwise unchanged after forward / backward unless the caller's own step mutates its argument (then unspecified)",
    "mh: proposals are continuous, so two proposals never coincide bit-for-bit (probability ~ 2^-50 per pair)",
    "mhstat moment bands use TAU=50 >= 2x the integrated autocorrelation time measured offline for the generated range; the "
    "calibration and proposal-scale bounds are rigorous (Azuma-Hoeffding, Laurent-Massart), each with false-alarm probability <= 2e-10",
]
LEVEL_TEXT = ("Exploration with an observational oracle: the integrand's own call log identifies the samples, an independent plain-torch "
              "surrogate on those samples gives value and first/second-order gradients; mh additionally judged by rigorous "
              "martingale/chi-square bounds and generous moment bands.")
LEVEL_NOTE = "trusts torch autograd on the plain-torch surrogate and numpy's Gauss-Legendre nodes; mh moments are a >= 11-sigma band only"
TECHNIQUE = "Hypothesis property-based testing: call-log observation + differentiable surrogate (DiCE) reference + martingale concentration bounds"
WALL = {"quick": 300, "thorough": 2400}

# mcquad's backward (non-graph-recording branch) over-counts the gradient when one supplied tensor is computed from
# another supplied one or a tensor is supplied twice (found by C09/C16, repair owned by C09).  While True, the generator
# keeps the tensors supplied to one function independent (see `independent_spec`); set to False once the repair has landed.
AVOID_DERIVED_PARAMS = False

# `mh` keeps the tensor log p returned for the current state (`logpx = logpnext`) and compares the next proposal with it;
# a log p that hands out the same internal buffer at every call makes that comparison one of a tensor with itself (every
# proposal is accepted).  Read as outside the domain ("pure functions": a result that changes after it was returned is not
# determined by the inputs of its call), so `mh` is generated with a log p returning fresh tensors only; f (consumed at
# once by the weighted sum) and log p of mhcustom / _dummy1d / the backward pass (consumed at once) are generated aliased.
MH_NEEDS_FRESH_LOGP = True

DT = torch.float64
EPS = 2.220446049250313e-16
INF = float("inf")


# ------------------------------------------------------------------ the two mathematical functions

def make_fcore(out_kind, m, flog):
    def core(xs, eff, scale):
        x = xs[0]
        flog.append(x.detach().clone())
        a, c = eff[0], eff[1]
        j = torch.arange(m, dtype=DT)
        u = x.sum()
        y = scale * c * torch.sin(a * u + j)
        if out_kind == "scalar":
            return y.sum()
        if out_kind == "vector":
            return y
        if out_kind == "matrix":
            return torch.stack([y, y * y], dim=0)
        if out_kind == "const":
            return torch.full((2,), 1.25, dtype=DT) * scale
        if out_kind in ("tuple", "list"):
            q = (y * y).sum().reshape(1)
            comps = (y, q, torch.full((2,), -0.75, dtype=DT), 2.0 * y - 3.0 * q)
            return comps if out_kind == "tuple" else list(comps)
        raise ValueError(out_kind)
    return core


def make_pcore(form, shape1, plog):
    def core(xs, eff, scale):
        x = xs[0]
        mu, kap = eff[0], eff[1]
        xr = x.reshape(-1)
        z = xr - mu
        val = -0.5 * (kap * kap * z * z).sum()
        if form == "gausscos":
            val = val + 0.3 * torch.cos(kap * xr + mu).sum()
        val = val * abs(scale)
        plog.append((x.detach().clone(), float(val.detach())))
        return val.reshape(1) if shape1 else val
    return core


def make_step(step, d):
    kind = step["kind"]
    delta = torch.tensor(step.get("delta", [0.0] * d), dtype=DT)

    def pure(x):
        if kind == "shift":
            return x + delta.reshape(x.shape)
        if kind == "neg":
            return -x
        if kind == "affine":
            return 0.5 * x + delta.reshape(x.shape)
        if kind == "roll":
            return torch.roll(x.reshape(-1), 1, 0).reshape(x.shape) + 0.0
        raise ValueError(kind)
    return pure


STEP_STYLES = ("fresh", "inplace_arg", "buffer", "view", "strided_view")
RET_STYLES = ("fresh", "buffer", "view")


class StyledStep:
    """the map `pure` delivered the way a caller's sampler step may deliver it (the values are those of `pure`, bit for bit):
      fresh        a new tensor per call
      inplace_arg  the argument is advanced in place and returned (the first argument the sampler hands over may be x0 itself)
      buffer       one internal state tensor, overwritten and returned at every call
      view         a contiguous window (offset 2) of a larger internal buffer, overwritten and returned at every call
      strided_view every second element of a larger internal buffer (non-contiguous), overwritten and returned at every call"""

    def __init__(self, pure, style):
        self.pure, self.style, self.store = pure, style, None

    def __call__(self, x):
        new = self.pure(x)
        if self.style == "fresh":
            return new
        if self.style == "inplace_arg":
            x.copy_(new)
            return x
        n = new.numel()
        if self.store is None:
            self.store = torch.full((2 * n + 5,), float("nan"), dtype=new.dtype)
        if self.style == "buffer":
            out = self.store[:n].view(new.shape)
        elif self.style == "view":
            out = self.store[2:2 + n].view(new.shape)
        else:
            out = self.store[1:1 + 2 * n:2].view(new.shape)
        out.copy_(new)
        return out


class AliasedReturn:
    """hands the output of a function out as view(s) of ONE internal buffer that the next call overwrites (style 'buffer': the
    buffer from its start; 'view': a window at offset 3 of a larger one); tuple / list outputs: consecutive windows.  The buffer
    is detached from the previous call's graph before it is written, the copy into it is differentiable, so the value and
    the graph of each call are those of the plain function at the time of the call."""

    def __init__(self, style):
        self.style, self.store = style, None

    def __call__(self, out):
        if self.style == "fresh":
            return out
        comps = list(out) if isinstance(out, (tuple, list)) else [out]
        n = sum(c.numel() for c in comps)
        off = 0 if self.style == "buffer" else 3
        if self.store is None or self.store.numel() != n + 2 * off:
            self.store = torch.full((n + 2 * off,), float("nan"), dtype=comps[0].dtype)
        self.store = self.store.detach()
        views = []
        for c in comps:
            v = self.store[off:off + c.numel()].view(c.shape)
            v.copy_(c)
            views.append(v)
            off += c.numel()
        if isinstance(out, tuple):
            return tuple(views)
        if isinstance(out, list):
            return views
        return views[0]


def aliased(core, style):
    if style == "fresh":
        return core
    ret = AliasedReturn(style)

    def core2(xs, eff, scale):
        return ret(core(xs, eff, scale))
    return core2


def contract(out, W):
    if isinstance(out, torch.Tensor):
        return (out.reshape(-1) * W[0]).sum()
    return sum((o.reshape(-1) * w).sum() for o, w in zip(out, W))


def grads_or_zero(y, xs, create_graph=False):
    if not isinstance(y, torch.Tensor) or not y.requires_grad:
        return [torch.zeros_like(x) for x in xs]
    gs = torch.autograd.grad(y, xs, create_graph=create_graph, allow_unused=True, retain_graph=True)
    return [torch.zeros_like(x) if g is None else g for g, x in zip(gs, xs)]


def same(a, b):
    return a.shape == b.shape and bool(torch.equal(a, b))


def fmt(t):
    return [round(float(v), 6) for v in t.reshape(-1)[:4]]


# ------------------------------------------------------------------ task mcq

def run_case(case):
    from xitorch.integrate import mcquad
    torch.manual_seed(case["seed"])
    g = gen.seeded(case["seed"])
    sampler = case["sampler"]
    m, d = case["m"], case["d"]
    ns, nb = case["nsamples"], case["nburnout"]
    fspec, pspec = case["fspec"], case["pspec"]
    out_kind = case["out"]
    second = case["order"] == 2

    flog, plog, slog = [], [], []
    fcore = make_fcore(out_kind, m, flog)
    pcore = make_pcore(case["lpform"], case["lpshape"] == "1", plog)
    # what xitorch calls: the same functions, possibly handing their result out as views of a reused internal buffer
    # (the reference below always uses the plain cores)
    fret, pret = case.get("fret", "fresh"), case.get("pret", "fresh")
    fcore_x, pcore_x = aliased(fcore, fret), aliased(pcore, pret)

    fvals = [0.5 + torch.rand((m,), generator=g, dtype=DT), torch.randn((m,), generator=g, dtype=DT)]
    pvals = [0.5 * torch.randn((d,), generator=g, dtype=DT), 0.5 + torch.rand((d,), generator=g, dtype=DT)]
    share = bool(case["share"]) and m == d
    nnk = ("nn", "nn_nested", "em_nn", "sib2")
    fleaves = gen.make_leaves(fvals, case["freq"], fspec["kind"])
    pleaves = gen.make_leaves(pvals, case["preq"], pspec["kind"])
    if share:
        # one leaf tensor enters both f (as `a`) and log p (as `mu`)
        v = (0.3 * fvals[0]).clone()
        needs_param = fspec["kind"] in nnk or pspec["kind"] in nnk
        leaf = torch.nn.Parameter(v, requires_grad=bool(case["freq"][0])) if needs_param else v.requires_grad_(bool(case["freq"][0]))
        fleaves[0] = leaf
        pleaves[0] = leaf
    ffcn, fparams, finfo = gen.build_function(fcore_x, fleaves, fspec)
    pfcn, pparams, pinfo = gen.build_function(pcore_x, pleaves, pspec)

    x0 = torch.tensor(case["x0"][:d], dtype=DT)
    if case["x0form"] == "0d" or sampler == "dummy1d":
        x0 = x0[0].clone()
    elif case["x0form"] == "col":
        x0 = x0.reshape(d, 1)
    x0_ref = x0.clone()          # the caller's x0 as it was; `x0` is the object handed to mcquad

    labels = ["sampler=" + sampler, "out=" + out_kind, "order=%d" % case["order"], "fkind=" + fspec["kind"], "pkind=" + pspec["kind"],
              "funused=%s" % fspec.get("unused"), "punused=%s" % pspec.get("unused"), "share=%s" % share, "x0=" + ("0d" if x0.dim() == 0 else case["x0form"]),
              "lp=" + case["lpform"] + "/" + case["lpshape"], "nb_vs_ns=" + ("lt" if nb < ns else "eq" if nb == ns else "gt"),
              "nb0=%s" % (nb == 0), "bck=%s" % (case["bck"] is not None), "fret=" + fret, "pret=" + pret]

    # ---------------- the call
    kwargs = {}
    step_pure = None
    if sampler == "mhcustom":
        step_pure = make_step(case["step"], d)
        style = case["step"].get("style", "fresh")
        labels += ["step=" + case["step"]["kind"], "stepstyle=" + style]
        styled = StyledStep(step_pure, style)

        def custom_step(x, *args):
            slog.append((x.detach().clone(), args))
            return styled(x)
        kwargs = dict(method="mhcustom", nsamples=ns, nburnout=nb, custom_step=custom_step)
    elif sampler == "dummy1d":
        lb = -INF if case["lb"] is None else float(case["lb"])
        ub = INF if case["ub"] is None else float(case["ub"])
        labels.append("bounds=%s%s" % ("inf" if case["lb"] is None else "fin", "inf" if case["ub"] is None else "fin"))
        kwargs = dict(method="_dummy1d", nsamples=ns, lb=lb, ub=ub)
    else:
        kwargs = dict(nsamples=ns, nburnout=nb, step_size=case["step_size"])
        if case["method_given"]:
            kwargs["method"] = "mh"
        labels.append("method=%s" % ("mh" if case["method_given"] else "None"))
    if case["bck"] is not None:
        kwargs["bck_options"] = dict(case["bck"])
    res = xt_call(mcquad, ffcn, pfcn, x0, fparams=fparams, pparams=pparams, _where="forward", **kwargs)
    fpts, ppts, spts = list(flog), list(plog), list(slog)

    # ---------------- which samples were used
    if len(fpts) == ns + 1 and same(fpts[0], x0_ref):
        samples = fpts[1:]
    elif len(fpts) == ns:
        samples = fpts
    else:
        return violation("nsamples_count", "f was evaluated at %d points (first %s); nsamples=%d (+1 probe at x0) expected; nburnout=%d" % (
            len(fpts), fmt(fpts[0]) if fpts else None, ns, nb), labels)
    # the caller's x0 is an input: unless the caller's own step advances its argument in place, it is bitwise unchanged
    inplace_arg = sampler == "mhcustom" and case["step"].get("style", "fresh") == "inplace_arg"
    if not inplace_arg and not same(x0, x0_ref):
        return violation("x0_modified", "the x0 tensor handed to mcquad was %s and is %s after the call" % (fmt(x0_ref), fmt(x0)), labels)

    if sampler == "mhcustom":
        chain = [x0_ref]
        for _ in range(nb + ns):
            chain.append(step_pure(chain[-1]))
        wins = [chain[nb:nb + ns], chain[nb + 1:nb + ns + 1]]
        if not any(all(same(a, b) for a, b in zip(samples, w)) for w in wins):
            off = [o for o in range(0, nb + 2) if all(same(a, b) for a, b in zip(samples, chain[o:o + ns]))]
            return violation("window", "samples %s are not chain[%d:%d] nor chain[%d:%d] of the custom-step chain from x0=%s (matching offsets: %s)" % (
                [fmt(s) for s in samples[:4]], nb, nb + ns, nb + 1, nb + ns + 1, fmt(x0_ref), off), labels)
        # whichever of the two readings the implementation follows, it must follow it for every nburnout:
        # one more burn-in step moves the window by exactly one state
        offs = [o for o, w_ in zip((nb, nb + 1), wins) if all(same(a, b) for a, b in zip(samples, w_))]
        if len(offs) == 1:
            chain.append(step_pure(chain[-1]))
            n0 = len(flog)
            kw2 = dict(kwargs, nburnout=nb + 1)
            x0_2 = x0_ref.clone()
            with torch.no_grad():
                xt_call(mcquad, ffcn, pfcn, x0_2, fparams=fparams, pparams=pparams, _where="forward", **kw2)
            if not inplace_arg and not same(x0_2, x0_ref):
                return violation("x0_modified", "the x0 tensor handed to mcquad was %s and is %s after the call (nburnout=%d)" % (fmt(x0_ref), fmt(x0_2), nb + 1), labels)
            pts2 = flog[n0:]
            pts2 = pts2[1:] if len(pts2) == ns + 1 and same(pts2[0], x0_ref) else pts2
            exp2 = chain[offs[0] + 1:offs[0] + 1 + ns]
            if len(pts2) != ns or not all(same(a, b) for a, b in zip(pts2, exp2)):
                return violation("window_inconsistent", "with nburnout=%d the samples are chain[%d:%d], with nburnout=%d they are %s instead of chain[%d:%d]" % (
                    nb, offs[0], offs[0] + ns, nb + 1, [fmt(q) for q in pts2[:4]], offs[0] + 1, offs[0] + 1 + ns), labels)
        for xs_, args in spts:
            if len(args) != len(pparams) or not all((same(a, b) if isinstance(b, torch.Tensor) else a == b) for a, b in zip(args, pparams)):
                return violation("step_args", "custom_step was called with %d extra arguments, pparams has %d" % (len(args), len(pparams)), labels)
        w = torch.full((ns,), 1.0 / ns, dtype=DT)
        xmax = 0.0
    elif sampler == "mh":
        prob, _ = mh_structure(x0_ref, ppts, samples, nb, ns)
        if prob is not None:
            return violation(prob[0], prob[1] + " (nsamples=%d nburnout=%d)" % (ns, nb), labels)
        w = torch.full((ns,), 1.0 / ns, dtype=DT)
        xmax = 0.0
    else:
        tl, tu = math.atan(lb), math.atan(ub)
        nodes, wlg = np.polynomial.legendre.leggauss(ns)
        t = torch.tensor(nodes, dtype=DT) * (0.5 * (tu - tl)) + 0.5 * (tu + tl)
        xref = torch.tan(t)
        for i, (s, xr) in enumerate(zip(samples, xref)):
            if s.numel() != 1 or not abs(float(s) - float(xr)) <= 64 * EPS * (1 + float(xr) ** 2):
                return violation("nodes", "sample %d is %s, Gauss-Legendre node mapped by tan is %.15g (n=%d, lb=%s, ub=%s)" % (
                    i, s.tolist(), float(xr), ns, lb, ub), labels)
        xs_rec = torch.stack([s.reshape(()) for s in samples])
        peff0 = [e.detach() for e in gen.derive_all(pspec["derive"], pleaves)]
        lps = torch.stack([pcore((s,), peff0, float(pspec.get("scale", 1.0))).reshape(()) for s in samples])
        wraw = (1 + xs_rec * xs_rec) * torch.tensor(wlg, dtype=DT) * torch.exp(lps - lps.max())
        if not float(wraw.sum()) > 0:
            return discard("dummy1d_weights_underflow", labels)
        w = wraw / wraw.sum()
        xmax = float(xs_rec.abs().max())

    # ---------------- value
    feff = gen.derive_all(fspec["derive"], fleaves)
    peff = gen.derive_all(pspec["derive"], pleaves)
    fscale, pscale = float(fspec.get("scale", 1.0)), float(pspec.get("scale", 1.0))
    is_tuple = out_kind in ("tuple", "list")
    if is_tuple != isinstance(res, (tuple, list)):
        return violation("out_type", "f returns %s but mcquad returned %s" % (out_kind, type(res).__name__), labels)
    outs = tuple(res) if is_tuple else (res,)
    with torch.no_grad():
        fs = [fcore((s,), feff, fscale) for s in samples]
    fs = [tuple(o) if is_tuple else (o,) for o in fs]
    if len(outs) != len(fs[0]):
        return violation("out_type", "tuple of %d components expected, got %d" % (len(fs[0]), len(outs)), labels)
    vtol_f = 64 * EPS * (ns + 2) * (1 + xmax)
    for k, o in enumerate(outs):
        if not isinstance(o, torch.Tensor) or o.shape != fs[0][k].shape:
            return violation("out_shape", "component %d has shape %s, f returns %s" % (k, getattr(o, "shape", None), fs[0][k].shape), labels)
        exp = sum(wi * fi[k] for wi, fi in zip(w, fs))
        mag = sum(wi * fi[k].abs() for wi, fi in zip(w, fs))
        err = (o.detach() - exp).abs()
        if not bool((err <= vtol_f * mag + 1e-300).all()):
            kind = "const_value" if (out_kind == "const" or (is_tuple and k == 2)) else "value"
            return violation(kind, "component %d: got %s, weighted mean over the recorded samples %s (max err %.3e, tol %.3e); nsamples=%d nburnout=%d" % (
                k, fmt(o.detach()), fmt(exp), float(err.max()), float((vtol_f * mag).max()), ns, nb), labels)
    if is_tuple:
        lin = 2.0 * outs[0].detach() - 3.0 * outs[1].detach()
        mag = 2.0 * sum(wi * fi[0].abs() for wi, fi in zip(w, fs)) + 3.0 * sum(wi * fi[1].abs() for wi, fi in zip(w, fs))
        if not bool(((outs[3].detach() - lin).abs() <= 4 * vtol_f * mag + 1e-300).all()):
            return violation("linearity", "E[2 f1 - 3 f2] = %s but 2 E f1 - 3 E f2 = %s" % (fmt(outs[3].detach()), fmt(lin)), labels)
    varied = any(not same(s, samples[0]) for s in samples[1:])
    nontrivial = varied and out_kind != "const"

    # ---------------- gradients
    leaves_all = []
    for l in list(fleaves) + list(pleaves):
        if l.requires_grad and not any(l is z for z in leaves_all):
            leaves_all.append(l)
    extra = [t for t in (finfo["unused"], pinfo["unused"]) if t is not None]
    wrt = leaves_all + extra
    labels.append("nleafgrad=%d" % len(leaves_all))
    if not wrt:
        return ok(labels + ["grad=none"], nontrivial=nontrivial)
    W = [torch.randn((o.numel(),), generator=g, dtype=DT) for o in outs]
    loss = sum((o.reshape(-1) * wk).sum() for o, wk in zip(outs, W))
    if not loss.requires_grad:
        return violation("no_graph", "mcquad's result does not require grad although %d of its tensors do" % len(wrt), labels)
    got = xt_call(torch.autograd.grad, loss, wrt, create_graph=second, allow_unused=True, _where="backward")
    if not inplace_arg and not same(x0, x0_ref):
        return violation("x0_modified", "the x0 tensor handed to mcquad was %s and is %s after the backward pass" % (fmt(x0_ref), fmt(x0)), labels)

    # reference: self-normalised surrogate on the recorded samples
    num, den = 0.0, 0.0
    F_list, lp_list = [], []
    for s, wi in zip(samples, w):
        F = contract(fcore((s,), feff, fscale), W)
        lp = pcore((s,), peff, pscale).reshape(())
        r = torch.exp(lp - lp.detach())
        num = num + wi * r * F
        den = den + wi * r
        F_list.append(F)
        lp_list.append(lp)
    S = num / den
    ref = grads_or_zero(S, leaves_all, create_graph=second) if leaves_all else []
    C = [torch.randn(x.shape, generator=g, dtype=DT) for x in leaves_all]
    cmax = max([float(c.abs().max()) for c in C] + [1.0])

    # magnitudes of the estimator's terms (per sample), for the tolerance
    Eabs = abs(float(S.detach())) if isinstance(S, torch.Tensor) else abs(float(S))
    f0, f1, f2, s1, s2 = [], [], [], [], []
    for F, lp in zip(F_list, lp_list):
        f0.append(abs(float(F.detach())) + Eabs)
        for y, a1, a2 in ((F, f1, f2), (lp, s1, s2)):
            if leaves_all and isinstance(y, torch.Tensor) and y.requires_grad:
                gy = torch.autograd.grad(y, leaves_all, create_graph=True, retain_graph=True, allow_unused=True)
                a1.append(sum(float(q.abs().sum()) for q in gy if q is not None))
                hv = sum((c * q).sum() for c, q in zip(C, gy) if q is not None)
                if second and isinstance(hv, torch.Tensor) and hv.requires_grad:
                    gh = torch.autograd.grad(hv, leaves_all, retain_graph=True, allow_unused=True)
                    a2.append(sum(float(q.abs().sum()) for q in gh if q is not None))
                else:
                    a2.append(0.0)
            else:
                a1.append(0.0)
                a2.append(0.0)
    wl = [float(v) for v in w]
    A1 = sum(wi * (a + b * c) for wi, a, b, c in zip(wl, f1, f0, s1))
    tol1 = 1e3 * EPS * (ns + 2) * (1 + xmax) * (A1 + 1e-30)
    sbar = sum(wi * c for wi, c in zip(wl, s1))
    A2 = sum(wi * (a2 + b * c2 + cmax * (2 * a1 * c1 + 2 * b * c1 * c1)) for wi, a1, a2, b, c1, c2 in zip(wl, f1, f2, f0, s1, s2)) \
        + cmax * sbar * sum(wi * b * c for wi, b, c in zip(wl, f0, s1))
    tol2 = 1e3 * EPS * (ns + 2) * (1 + xmax) * (A2 + 1e-30)

    nonzero = False
    for k, (gk, x) in enumerate(zip(got, wrt)):
        if k >= len(leaves_all):      # unused tensor: zero or absent
            if gk is not None and float(gk.abs().max()) != 0.0:
                return violation("unused_grad", "tensor entering neither f nor log p received gradient %s" % fmt(gk), labels)
            continue
        rk = ref[k]
        gk0 = torch.zeros_like(x) if gk is None else gk
        err = float((gk0.detach() - rk.detach()).abs().max())
        nonzero = nonzero or float(rk.detach().abs().max()) > 0
        if not err <= tol1:
            who = ("f" if any(x is z for z in fleaves) else "") + ("p" if any(x is z for z in pleaves) else "")
            return violation("grad1_" + who, "first-order gradient w.r.t. leaf #%d (%s): got %s, surrogate on the recorded samples %s (err %.3e, tol %.3e); create_graph=%s" % (
                k, who, fmt(gk0.detach()), fmt(rk.detach()), err, tol1, second), labels)
    labels.append("grad=" + ("nonzero" if nonzero else "zero"))

    if second and leaves_all:
        terms = [(c * gk).sum() for c, gk in zip(C, got[:len(leaves_all)]) if gk is not None and gk.requires_grad]
        expect_graph = any(isinstance(rk, torch.Tensor) and rk.requires_grad for rk in ref)
        if not terms:
            if expect_graph:
                L_ref = sum((c * rk).sum() for c, rk in zip(C, ref))
                ref2 = grads_or_zero(L_ref, leaves_all)
                if max(float(r2.abs().max()) for r2 in ref2) > tol2:
                    return violation("no_second_graph", "create_graph=True produced first-order gradients without graph, reference second-order is non-zero", labels)
            return ok(labels, nontrivial=nontrivial)
        got2 = xt_call(torch.autograd.grad, sum(terms), wrt, allow_unused=True, _where="backward2")
        if not inplace_arg and not same(x0, x0_ref):
            return violation("x0_modified", "the x0 tensor handed to mcquad was %s and is %s after the second backward pass" % (fmt(x0_ref), fmt(x0)), labels)
        L_ref = sum((c * rk).sum() for c, rk in zip(C, ref))
        ref2 = grads_or_zero(L_ref, leaves_all)
        for k, (gk, x) in enumerate(zip(got2, wrt)):
            if k >= len(leaves_all):
                if gk is not None and float(gk.abs().max()) != 0.0:
                    return violation("unused_grad2", "tensor entering neither f nor log p received second-order gradient %s" % fmt(gk), labels)
                continue
            gk0 = torch.zeros_like(x) if gk is None else gk
            rk = ref2[k]
            err = float((gk0.detach() - rk.detach()).abs().max())
            if not err <= tol2:
                who = ("f" if any(x is z for z in fleaves) else "") + ("p" if any(x is z for z in pleaves) else "")
                return violation("grad2_" + who, "second-order gradient w.r.t. leaf #%d (%s): got %s, surrogate %s (err %.3e, tol %.3e)" % (
                    k, who, fmt(gk0.detach()), fmt(rk.detach()), err, tol2), labels)
    return ok(labels, nontrivial=nontrivial)


# ------------------------------------------------------------------ task mhstat

TAU = 50.0
LOG_INV_DELTA = math.log(1e10)


def run_mhstat(case):
    from xitorch.integrate import mcquad
    torch.manual_seed(case["seed"])
    d = case["d"]
    N, nb = case["nsamples"], case["nburnout"]
    mu = torch.tensor(case["mu"][:d], dtype=DT)
    sig = torch.tensor(case["sigma"][:d], dtype=DT)
    step = case["rho"] * float(sig.min())
    x0 = mu + sig * torch.tensor(case["z0"][:d], dtype=DT)
    flog, plog = [], []
    fret, pret = case.get("fret", "fresh"), case.get("pret", "fresh")
    labels = ["sampler=mh", "d=%d" % d, "rho=%s" % ("lo" if case["rho"] < 1.5 else "mid" if case["rho"] < 2.8 else "hi"),
              "nb0=%s" % (nb == 0), "method=%s" % ("mh" if case["method_given"] else "None"), "fret=" + fret, "pret=" + pret]
    f_out, p_out = AliasedReturn(fret), AliasedReturn(pret)
    x0_ref = x0.clone()

    def f(x, m_, s_):
        flog.append(x.detach().clone())
        z = (x - m_) / s_
        return f_out((x * 1.0, z * z, torch.ones(1, dtype=DT) * 2.5))

    def logp(x, m_, s_):
        z = (x - m_) / s_
        val = -0.5 * (z * z).sum()
        plog.append((x.detach().clone(), float(val)))
        return p_out(val)
    kwargs = dict(nsamples=N, nburnout=nb, step_size=step)
    if case["method_given"]:
        kwargs["method"] = "mh"
    res = xt_call(mcquad, f, logp, x0, fparams=(mu, sig), pparams=(mu, sig), _where="forward", **kwargs)
    if len(flog) == N + 1 and same(flog[0], x0_ref):
        samples = flog[1:]
    elif len(flog) == N:
        samples = flog
    else:
        return violation("nsamples_count", "f was evaluated at %d points; nsamples=%d (+1 probe) expected" % (len(flog), N), labels)
    if not same(x0, x0_ref):
        return violation("x0_modified", "the x0 tensor handed to mcquad was %s and is %s after the call" % (fmt(x0_ref), fmt(x0)), labels)
    prob, steps = mh_structure(x0_ref, plog, samples, nb, N)
    if prob is not None:
        return violation(prob[0], prob[1] + " (nsamples=%d nburnout=%d)" % (N, nb), labels)
    X = torch.stack(samples)
    # value = plain mean of the recorded samples
    mean_ref = X.mean(0)
    z2_ref = (((X - mu) / sig) ** 2).mean(0)
    vt = 64 * EPS * (N + 2)
    if not (isinstance(res, (tuple, list)) and len(res) == 3):
        return violation("out_type", "tuple of 3 expected, got %r" % type(res).__name__, labels)
    if not bool(((res[0] - mean_ref).abs() <= vt * X.abs().mean(0) + 1e-300).all()) or \
            not bool(((res[1] - z2_ref).abs() <= vt * z2_ref + 1e-300).all()):
        return violation("value", "result %s / %s is not the mean over the recorded samples %s / %s" % (fmt(res[0]), fmt(res[1]), fmt(mean_ref), fmt(z2_ref)), labels)
    if not bool(((res[2] - 2.5).abs() <= vt * 2.5).all()):
        return violation("const_value", "constant component 2.5 returned %r" % res[2].tolist(), labels)

    # acceptance calibration on downhill steps (Azuma-Hoeffding)
    # (steps are selected by a rule fixed in advance: all of them if nburnout == 0, else all but the first, whose
    # previous state is not observable)
    dev, ndown = 0.0, 0
    incs = []
    for prev, P, lpprev, lpP, acc in (steps if nb == 0 else steps[1:]):
        incs.append((P - prev) / step)
        if lpP <= lpprev:
            ndown += 1
            dev += (1.0 if acc else 0.0) - math.exp(lpP - lpprev)
    bound = azuma_bound(ndown, N)
    if abs(dev) > bound:
        return violation("mh_acceptance", "sum over %d downhill proposals of (accepted - exp(log p ratio)) = %.1f, Azuma-Hoeffding bound %.1f" % (ndown, dev, bound), labels)
    # proposal increments ~ N(0, 1)
    D = torch.stack(incs).reshape(-1)
    k = D.numel()
    ss = float((D * D).sum())
    t = LOG_INV_DELTA
    if not (k - 2 * math.sqrt(k * t) <= ss <= k + 2 * math.sqrt(k * t) + 2 * t):
        return violation("mh_step_scale", "sum of squares of %d proposal increments / step_size = %.1f (chi-square bounds %.1f .. %.1f); step_size=%g" % (
            k, ss, k - 2 * math.sqrt(k * t), k + 2 * math.sqrt(k * t) + 2 * t, step), labels)
    if abs(float(D.sum())) > 7.2 * math.sqrt(k):
        return violation("mh_step_mean", "mean proposal increment %.4f over %d values" % (float(D.mean()), k), labels)
    # moments of the Gaussian target (generous)
    band = 8.0 * math.sqrt(TAU / N)
    zerr = float(((mean_ref - mu) / sig).abs().max())
    if zerr > band:
        return violation("mh_mean", "sample mean is %.3f sigma from the target mean (band %.3f); N=%d step=%.2f sigma" % (zerr, band, N, case["rho"]), labels)
    band2 = 8.0 * math.sqrt(2 * TAU / N)
    z2err = float((z2_ref - 1).abs().max())
    if z2err > band2:
        return violation("mh_var", "E[(x-mu)^2/sigma^2] = %s (band 1 +- %.3f); N=%d step=%.2f sigma" % (fmt(z2_ref), band2, N, case["rho"]), labels)
    nacc = sum(1 for s_ in steps if s_[4])
    labels.append("acc=%s" % ("<20%" if nacc < 0.2 * N else "<50%" if nacc < 0.5 * N else ">=50%"))
    return ok(labels, nontrivial=nacc >= 2)


def azuma_bound(v, n):
    """bound on |M| for a martingale whose k-th increment has mean zero and lies in an interval of length 2 c_k, c_k in {0,1}
    known before the increment is drawn, v = sum c_k (random): exp(l M - l^2 v / 2) is a supermartingale for every fixed l
    (Hoeffding's lemma), so P(M >= l v / 2 + L / l) <= exp(-L); union over both signs and a fixed grid of 8 values of l
    (optimal for v = n, n/2, ..., n/128) with 8 * 2 * exp(-L) = 1e-10."""
    L = LOG_INV_DELTA + math.log(16.0)
    best = float("inf")
    for j in range(8):
        lam = math.sqrt(2.0 * L / (n / 2.0 ** j))
        best = min(best, lam * v / 2.0 + L / lam)
    return best


def mh_structure(x0, plog, samples, nb, ns):
    """Metropolis chain structure from the call logs; returns (problem or None, steps);
    steps = (previous state or None, proposal, log p of both, accepted) per sampling step"""
    key = lambda t_: t_.numpy().tobytes()
    seen = {key(x0)}
    lpof = {}
    fresh = []
    for pt, val in plog:
        kk = key(pt)
        lpof[kk] = val
        if kk in seen:
            continue
        seen.add(kk)
        fresh.append((pt, val))
    if len(fresh) != nb + ns:
        return ("mh_steps", "log p was evaluated at %d fresh proposals; nburnout+nsamples = %d+%d" % (len(fresh), nb, ns)), None
    if len(samples) != ns:
        return ("nsamples_count", "%d samples, nsamples=%d" % (len(samples), ns)), None
    # possible states at the end of the burn-in: a proposal that is uphill of every state the chain can be in is
    # accepted for sure (and eliminates the older candidates); any other proposal may or may not have been accepted
    burn = {key(x0)}
    for p, val in fresh[:nb]:
        if all(c in lpof and val > lpof[c] for c in burn):
            burn = {key(p)}
        else:
            burn.add(key(p))
    props = fresh[nb:]
    prev = None if nb > 0 else x0
    steps = []
    for k in range(ns):
        P, lpP = props[k]
        S = samples[k]
        acc = key(S) == key(P)
        if not acc:
            if prev is None:
                if key(S) not in burn:
                    return ("mh_chain", "first sample %s is neither its proposal %s nor a state the burn-in from x0 can have ended in" % (fmt(S), fmt(P))), None
                prev = S
            elif key(S) != key(prev):
                return ("mh_chain", "sample %d = %s is neither the previous sample %s nor the proposal %s" % (k, fmt(S), fmt(prev), fmt(P))), None
        lpprev = lpof.get(key(prev)) if prev is not None else None
        if prev is not None and lpprev is None:
            return ("mh_chain", "state %s was never evaluated by log p" % fmt(prev)), None
        if prev is not None and lpP > lpprev and not acc:
            return ("mh_uphill_rejected", "step %d: proposal with log p %.6g > current %.6g was rejected" % (k, lpP, lpprev)), None
        steps.append((prev, P, lpprev, lpP, acc))
        prev = S
    return None, steps



# ------------------------------------------------------------------ strategies

def independent_spec(spec):
    """funspec in which no tensor supplied to the function (explicitly or through its object) is an autograd ancestor
    or a duplicate of another supplied one: the recipe ['mul', j, k] makes effective tensor j a descendant of leaf k,
    which is supplied as well (as itself, or as a Parameter of the nn kinds); replaced by ['sq', j]."""
    spec = dict(spec)
    spec["derive"] = [["sq", rec[1]] if rec[0] == "mul" else list(rec) for rec in spec["derive"]]
    return spec


FL = st.floats(-2, 2, allow_nan=False, allow_infinity=False, allow_subnormal=False, width=32)


@st.composite
def case_st(draw, tier="quick"):
    sampler = draw(st.sampled_from(["mhcustom", "mhcustom", "mhcustom", "dummy1d", "dummy1d", "mh"]))
    m = draw(st.integers(1, 3))
    d = 1 if sampler == "dummy1d" else draw(st.integers(1, 3))
    share = draw(st.sampled_from([False, False, True]))
    if share:
        m = d
    big = tier == "thorough"
    case = {"sampler": sampler, "m": m, "d": d, "share": share,
            "nsamples": draw(st.integers(1, 12 if (big or sampler == "dummy1d") else 8)),
            "nburnout": draw(st.integers(0, 9 if big else 6)),
            "x0": [draw(FL) for _ in range(d)],
            "x0form": draw(st.sampled_from(["vec", "0d"] if d == 1 else ["vec", "vec", "col"])),
            "out": draw(st.sampled_from(["scalar", "vector", "matrix", "tuple", "tuple", "list", "const"])),
            "lpform": draw(st.sampled_from(["gauss", "gausscos"])),
            "lpshape": draw(st.sampled_from(["0", "1"])),
            "fspec": draw(gen.funspec_st(2, 2)), "pspec": draw(gen.funspec_st(2, 2)),
            "freq": [draw(st.sampled_from([True, True, False])), draw(st.sampled_from([True, True, False]))],
            "preq": [draw(st.sampled_from([True, True, False])), draw(st.sampled_from([True, True, False]))],
            "order": draw(st.sampled_from([1, 2])),
            "bck": draw(st.sampled_from([None, None, {"nsamples": 3}, {"nsamples": 2, "nburnout": 1}])),
            "fret": draw(st.sampled_from(["fresh", "fresh"] + list(RET_STYLES[1:]))),
            "pret": draw(st.sampled_from(["fresh", "fresh"] + list(RET_STYLES[1:]))),
            "seed": draw(st.integers(0, 2 ** 31 - 1))}
    if sampler == "mh" and MH_NEEDS_FRESH_LOGP:
        case["pret"] = "fresh"
    if AVOID_DERIVED_PARAMS:
        case["fspec"], case["pspec"] = independent_spec(case["fspec"]), independent_spec(case["pspec"])
    if sampler == "mhcustom":
        kind = draw(st.sampled_from(["shift", "shift", "neg", "affine", "roll"]))
        case["step"] = {"kind": kind, "delta": [draw(FL) for _ in range(d)],
                        "style": draw(st.sampled_from(["fresh", "fresh", "fresh"] + list(STEP_STYLES[1:])))}
    elif sampler == "dummy1d":
        b = draw(st.sampled_from(["ii", "ii", "fi", "if", "ff"]))
        lo, hi = sorted([draw(FL), draw(FL)])
        if hi - lo < 0.05:
            hi = lo + 0.5
        case["lb"] = None if b[0] == "i" else lo
        case["ub"] = None if b[1] == "i" else hi
    else:
        case["step_size"] = draw(st.sampled_from([0.3, 1.0, 2.5]))
        case["method_given"] = draw(st.booleans())
    return case


@st.composite
def mhstat_st(draw, tier="quick"):
    d = draw(st.integers(1, 2))
    nmax = 12000 if tier == "thorough" else 4000
    sc = draw(st.sampled_from([0.2, 1.0, 5.0]))
    return {"d": d, "nsamples": draw(st.integers(1500, nmax)), "nburnout": draw(st.sampled_from([0, 1, 7, 50, 200])),
            "mu": [draw(FL) for _ in range(d)],
            "sigma": [sc * draw(st.sampled_from([1.0, 1.25, 1.5])) for _ in range(d)],
            "z0": [draw(st.floats(-1, 1, allow_nan=False, width=32)) for _ in range(d)],
            "rho": draw(st.integers(4, 20)) / 5.0,
            "method_given": draw(st.booleans()),
            "fret": draw(st.sampled_from(["fresh", "fresh"] + list(RET_STYLES[1:]))),
            "pret": "fresh" if MH_NEEDS_FRESH_LOGP else draw(st.sampled_from(["fresh", "fresh"] + list(RET_STYLES[1:]))),
            "seed": draw(st.integers(0, 2 ** 31 - 1))}


# ------------------------------------------------------------------ task sameobj: f and log p are two methods of ONE object

def run_sameobj(case):
    """integrand and log-density are two methods of the same EditableModule / nn.Module and share a differentiable tensor `w`
    (f also owns `a`, log p also owns `mu`); deterministic mhcustom chain; reference = self-normalised surrogate
    sum_i r_i f_i / sum_i r_i, r_i = exp(logp_i - stopgrad(logp_i)), on the samples recorded from f's own call log."""
    from xitorch.integrate import mcquad
    import xitorch
    torch.manual_seed(0)
    g = gen.seeded(case["seed"])
    m = case["m"]
    kind = case["kind"]
    req = case["req"]
    vals = [0.5 + torch.rand((m,), generator=g, dtype=DT), 0.5 + torch.rand((m,), generator=g, dtype=DT), 0.3 * torch.randn((m,), generator=g, dtype=DT)]
    if kind == "nn":
        a, w, mu = (torch.nn.Parameter(v, requires_grad=bool(r)) for v, r in zip(vals, req))
    else:
        a, w, mu = (v.requires_grad_(bool(r)) for v, r in zip(vals, req))
    flog = []
    vec = case["out"] == "vector"

    def fval(x, a_, w_):
        y = a_ * torch.sin(w_ * x.reshape(-1)) + 0.1 * x.reshape(-1) ** 2
        return y if vec else y.sum()

    def lpval(x, mu_, w_):
        return -0.5 * (((x.reshape(-1) - mu_) * w_) ** 2).sum()
    base = torch.nn.Module if kind == "nn" else xitorch.EditableModule

    class Both(base):
        def __init__(self):
            if kind == "nn":
                super().__init__()
            self.a, self.w, self.mu = a, w, mu

        def f(self, x):
            flog.append(x.detach().clone())
            return fval(x, self.a, self.w)

        def logp(self, x):
            return lpval(x, self.mu, self.w)

        def getparamnames(self, methodname, prefix=""):
            if methodname == "f":
                return [prefix + "a", prefix + "w"]
            if methodname == "logp":
                return [prefix + "mu", prefix + "w"]
            raise KeyError(methodname)
    obj = Both()
    ns, nb = case["nsamples"], case["nburnout"]
    c, sh = case["contr"], case["shift"]

    style = case.get("style", "fresh")
    styled = StyledStep(lambda x: c * x + sh, style)

    def custom_step(x, *args):
        return styled(x)
    x0 = torch.tensor(case["x0"][:m], dtype=DT)
    x0_ref = x0.clone()
    labels = ["task=sameobj", "kind=" + kind, "out=" + case["out"], "order=%d" % case["order"], "req=%s" % "".join("1" if r else "0" for r in req),
              "stepstyle=" + style]
    wrt = [t for t, r in zip((a, w, mu), req) if r]
    names = [n for n, r in zip(("a", "w", "mu"), req) if r]
    if not wrt:
        return discard("nothing_to_differentiate", labels)
    res = xt_call(mcquad, obj.f, obj.logp, x0, method="mhcustom", nsamples=ns, nburnout=nb, custom_step=custom_step, _where="forward")
    pts = list(flog)
    samples = pts[1:] if len(pts) == ns + 1 else pts
    if len(samples) != ns:
        return violation("nsamples_count", "f was evaluated at %d points, nsamples=%d" % (len(pts), ns), labels)
    chain = [x0_ref]
    for _ in range(nb + ns):
        chain.append(c * chain[-1] + sh)
    if not any(all(same(p_, q_) for p_, q_ in zip(samples, chain[o:o + ns])) for o in (nb, nb + 1)):
        return violation("window", "samples %s are not chain[%d:%d] nor chain[%d:%d] of the custom-step chain from x0=%s (step style %s)" % (
            [fmt(s_) for s_ in samples[:4]], nb, nb + ns, nb + 1, nb + ns + 1, fmt(x0_ref), style), labels)
    if style != "inplace_arg" and not same(x0, x0_ref):
        return violation("x0_modified", "the x0 tensor handed to mcquad was %s and is %s after the call" % (fmt(x0_ref), fmt(x0)), labels)
    fs = torch.stack([fval(x, a, w).reshape(-1) for x in samples])           # (ns, k)
    lps = torch.stack([lpval(x, mu, w) for x in samples])                     # (ns,)
    r = torch.exp(lps - lps.detach())
    ref = (r.unsqueeze(-1) * fs).sum(0) / r.sum()
    got_v = res.reshape(-1)
    if got_v.shape != ref.shape or float((got_v.detach() - ref.detach()).abs().max()) > 1e-12 * (1 + float(ref.detach().abs().max())):
        return violation("value", "value %s, explicit sample mean %s" % (fmt(got_v), fmt(ref)), labels)
    W = torch.randn(ref.shape, generator=g, dtype=DT)
    second = case["order"] == 2
    if not res.requires_grad:
        return violation("no_graph", "result does not require grad although %s do" % names, labels)
    gl = xt_call(torch.autograd.grad, (got_v * W).sum(), wrt, create_graph=second, allow_unused=True, _where="backward")
    gl = [torch.zeros_like(x) if q is None else q for q, x in zip(gl, wrt)]
    rl = grads_or_zero((ref * W).sum(), wrt, create_graph=second)
    nonzero = False
    for order in ((1, 2) if second else (1,)):
        if order == 2:
            C = [torch.randn(x.shape, generator=g, dtype=DT) for x in wrt]
            terms = [(c_ * q).sum() for c_, q in zip(C, gl) if q.requires_grad]
            rterms = [(c_ * q).sum() for c_, q in zip(C, rl) if q.requires_grad]
            if not terms:
                if rterms:
                    return violation("no_second_graph", "create_graph=True produced gradients without graph", labels)
                break
            gl = xt_call(torch.autograd.grad, sum(terms), wrt, allow_unused=True, _where="backward2")
            gl = [torch.zeros_like(x) if q is None else q for q, x in zip(gl, wrt)]
            rl = grads_or_zero(sum(rterms), wrt) if rterms else [torch.zeros_like(x) for x in wrt]
        for nm, q, rr in zip(names, gl, rl):
            sc = float(rr.detach().abs().max())
            err = float((q.detach() - rr.detach()).abs().max())
            nonzero = nonzero or sc > 0
            if not err <= 1e-9 * (1 + sc) * ns:
                return violation("grad%d_%s" % (order, nm), "order-%d gradient w.r.t. %s (f and log p are methods of one %s sharing w): got %s, surrogate reference %s" % (
                    order, nm, "nn.Module" if kind == "nn" else "EditableModule", fmt(q), fmt(rr)), labels)
    return ok(labels, nontrivial=nonzero and req[1])


@st.composite
def sameobj_st(draw, tier="quick"):
    m = draw(st.integers(1, 3))
    req = [draw(st.sampled_from([True, True, False])) for _ in range(3)]
    if not any(req):
        req[1] = True
    return {"m": m, "kind": draw(st.sampled_from(["em", "nn"])), "out": draw(st.sampled_from(["scalar", "vector"])), "req": req,
            "nsamples": draw(st.integers(1, 6)), "nburnout": draw(st.integers(0, 4)), "contr": draw(st.sampled_from([0.5, 0.8, -0.6])),
            "shift": draw(st.sampled_from([0.3, -0.2, 1.0])), "x0": [draw(FL) for _ in range(3)], "order": draw(st.sampled_from([1, 1, 2])),
            "style": draw(st.sampled_from(["fresh", "fresh"] + list(STEP_STYLES[1:]))),
            "seed": draw(st.integers(0, 2 ** 31 - 1))}


def tasks(tier):
    return [Task("mcq", strategy=case_st(tier), run=run_case, examples={"quick": 3000, "thorough": 50000}),
            Task("mhstat", strategy=mhstat_st(tier), run=run_mhstat, examples={"quick": 160, "thorough": 1600}),
            Task("sameobj", strategy=sameobj_st(tier), run=run_sameobj, examples={"quick": 300, "thorough": 3000})]
