"""C19 — calls do not keep tensors alive after their results are dropped.

A case is a *usage history*: 1..3 generated calls (functional x method x function kind / operator kind x
{forward only; + backward; + graph-recording backward and a second backward}) on objects that are built once
(the module / EditableModule / LinearOperator of a training loop) and then executed repeatedly, every result being
dropped at once.  With the cyclic collector DISABLED the number of live torch.Tensor objects (gc.get_objects())
is taken after 2 warm-up repetitions (lazy caches), after 2 further repetitions and after 5 further repetitions:
the last two counts must be equal (no growth proportional to the number of calls).  This is the project's own
criterion (xitorch/_tests/utils.py: assert_no_memleak counts the tensors found by gc.get_objects() before and after),
made independent of when the collector happens to run.

Only tensors are counted, so Hypothesis' own allocations cannot disturb the measure; the runner keeps no reference
to any result; every case ends with gc.enable(); gc.collect() so that no garbage is left for the next one.
"""
from __future__ import annotations

import gc

import torch
from hypothesis import strategies as st

from pbt import gen
from pbt import ref_c10 as R
from pbt.harness import Task, ok, violation, discard, xt_call

PID = "C19"
RULE = ("usage history of 1..3 calls drawn from {rootfinder, equilibrium, minimize, solve_ivp (euler, rk4, rk38, rk23, rk45; increasing and "
        "decreasing times), quad, mcquad (mh, _dummy1d), jac/hess products and dense form, solve(jac), solve (cg, bicgstab, gmres, broyden1, "
        "custom_exactsolve, exactsolve; optional E, M; task 'fallback': shifts equal to an eigenvalue of a diagonal/triangular A and float32 "
        "symeig/svd backward on diagonal matrices, which make the direct solve take its internally handled singular-matrix retry), symeig (exacteig, custom_exacteig, davidson; optional M), Interp1D, SQuad} x function "
        "rarely used documented options (verbose=True, tolerances, line search) x kind (pure, nn.Module flat/nested/tied, EditableModule with attributes/containers/held nn.Module, one and two siblings) or operator kind "
        "(user LinearOperator over attributes/aliases/containers/held module with 4 method subsets, or a fresh LinearOperator.m per call) x "
        "{forward; +backward; +create_graph backward and second backward}; objects built once, history repeated 2 (warm-up) + 2 + 3 times, results "
        "dropped. Non-trivial = at least one call of the history returned a tensor attached to an autograd graph (so a backward context exists); "
        "distinct by canonical case.")
ASSUMPTIONS = [
    "float64, <= 4 unknowns: reachability does not depend on sizes",
    "counts torch.Tensor objects known to gc.get_objects() with the cyclic collector disabled; equality of the counts after 2 and after 5 "
    "repetitions (after 2 warm-up repetitions) is required, growth of non-tensor garbage is not measured",
    "objects (modules, operators) live across the repetitions as in a training loop; when they hold tensors derived once from the leaves, "
    "the backward passes use retain_graph=True (otherwise the second repetition could not differentiate through the derivation)",
    "no exception is raised inside the history (tracebacks would legitimately hold frames)",
]
LEVEL_TEXT = ("Exploration of generated usage histories with a counting oracle that is exact (tensor counts with the cyclic collector off): "
              "any per-call retention, however small, shows as a non-zero difference between 2 and 5 repetitions.")
LEVEL_NOTE = "trusts gc.get_objects() to list every live tensor; does not measure bytes or non-tensor garbage"
TECHNIQUE = "Hypothesis property-based testing: generated call histories + exact live-tensor counting oracle (cyclic GC disabled)"
WALL = {"quick": 300, "thorough": 1500}


_FROZEN = [False]


def _collect_and_freeze():
    """gc.get_objects() and gc.collect() walk every tracked object of the process (~2*10^5 after importing torch, scipy,
    Hypothesis: ~0.1 s per walk).  What is alive (after a full collection) when a case starts is long-lived state of the
    process (modules, lazily imported torch internals, the Hypothesis engine): it is moved to the permanent generation, at
    the first case and again whenever lazy imports have piled up > 15000 tracked objects, so that the counting walks only
    what was created since (CPython: gc.get_objects() lists the three young generations only).  Counts are only ever
    compared within one case, after this point, so the oracle is unaffected."""
    if not _FROZEN[0]:
        import scipy.sparse.linalg  # noqa: F401  (imported lazily by xitorch)
        import xitorch
        import xitorch.optimize, xitorch.integrate, xitorch.linalg, xitorch.grad, xitorch.interpolate  # noqa: F401,E401
    gc.collect()
    if not _FROZEN[0] or len(gc.get_objects()) > 15000:
        gc.freeze()
        _FROZEN[0] = True


def count_tensors():
    n = 0
    for o in gc.get_objects():
        if isinstance(o, torch.Tensor):
            n += 1
    return n


def _labels(item):
    f = item["functional"]
    out = ["functional=" + f, "method=%s/%s" % (f, item["method"]), "phase=%d" % item["phase"]]
    if "spec" in item:
        out.append("kind=" + item["spec"]["kind"])
    if "lkind" in item:
        out.append("linop=%s/%s" % (item["lkind"], item.get("impl")))
    return out


def run_case(case):
    torch.manual_seed(0)
    items = case["items"]
    labels = ["nitems=%d" % len(items)]
    for it in items:
        labels += _labels(it)
    _collect_and_freeze()
    gc.disable()
    try:
        pbs = [(build_fallback_problem(it) if it["functional"].startswith("fallback_") else R.build_problem(it, gen.Counter()))
               for it in items]
        attached = [False]

        def repeat(k):
            for _ in range(k):
                for it, pb in zip(items, pbs):
                    torch.manual_seed(it.get("seed", 0) & 0xFFFF)
                    xt_call(R.run_phases, pb, it["phase"], _where="history")
                    if pb.attached:
                        attached[0] = True
        repeat(2)
        n0 = count_tensors()
        repeat(2)
        n2 = count_tensors()
        repeat(3)
        n5 = count_tensors()
    finally:
        pbs = None
        gc.enable()
        gc.collect()
    labels.append("stable_after_warmup=%s" % (n0 == n2))
    if n5 != n2:
        kind = "growth:" + "+".join(sorted({it["functional"] for it in items}))
        return violation(kind, "live tensors: %d after warm-up, %d after 2 more repetitions, %d after 5 more => %+.2f tensors per repetition "
                         "of the history %s" % (n0, n2, n5, (n5 - n2) / 3.0,
                                                [(it["functional"], it["method"], it["phase"]) for it in items]), labels)
    return ok(labels, nontrivial=attached[0])


# ------------------------------------------------------------------------------------------ internally handled exceptions

def build_fallback_problem(item):
    """Calls that make xitorch take the one path on which it catches an exception internally: the direct shifted solve retries
    with a slightly shifted diagonal after torch.linalg.solve reported an exactly singular matrix (a shift E equal to an eigenvalue
    of a diagonal/triangular A; the implicit symeig/svd backward in float32 on a matrix whose eigenvalues are computed exactly).
    A caught exception holds its traceback, the traceback holds the frame with all its tensors: nothing of that may survive the call."""
    from xitorch import linalg, LinearOperator
    g = gen.seeded(item["seed"])
    n = item["n"]
    dt = torch.float32 if item.get("f32") else torch.float64
    d = torch.tensor([float(v) for v in item["diag"][:n]], dtype=dt)
    upper = torch.triu(torch.randn((n, n), generator=g, dtype=torch.float64).to(dt), diagonal=1) * (0.3 if item.get("upper") else 0.0)
    pb = R.Problem()
    pb.counter = gen.Counter()
    pb.retain = False
    if item["functional"] == "fallback_solve":
        A0 = (torch.diag(d) + upper).requires_grad_(bool(item["req"][0]))
        ncols = item["ncols"]
        B = torch.randn((n, ncols), generator=g, dtype=torch.float64).to(dt).requires_grad_(bool(item["req"][1]))
        Ev = [float(d[(item["which"] + c) % n]) if c in item["singcols"] else 0.37 + 0.01 * c for c in range(ncols)]
        E = torch.tensor(Ev, dtype=dt).requires_grad_(True)
        pb.wrt = [t for t in (A0, B, E) if t.requires_grad]
        pb.roots = [("tensors", [A0, B, E])]

        def forward():
            return (linalg.solve(LinearOperator.m(A0), B, E=E, method=item["method"]),)
    else:
        A0 = torch.diag(d).requires_grad_(True)
        pb.wrt = [A0]
        pb.roots = [("tensors", [A0])]

        def forward():
            if item["functional"] == "fallback_symeig":
                return tuple(linalg.symeig(LinearOperator.m(A0, is_hermitian=True), neig=item["neig"], method=item["method"]))
            return tuple(linalg.svd(LinearOperator.m(A0), k=item["neig"], method=item["method"]))
    pb.forward = forward
    pb.probe = lambda: []
    return pb


@st.composite
def fallback_item_st(draw):
    functional = draw(st.sampled_from(["fallback_solve", "fallback_solve", "fallback_symeig", "fallback_svd"]))
    n = draw(st.integers(2, 4))
    item = {"functional": functional, "n": n, "seed": draw(st.integers(0, 2 ** 31 - 1)),
            "phase": draw(st.sampled_from([0, 1, 2, 3])),
            "diag": draw(st.permutations([1, 2, 3, 5]))}
    if functional == "fallback_solve":
        item["method"] = draw(st.sampled_from(["exactsolve", "custom_exactsolve"]))
        item["ncols"] = draw(st.integers(1, 3))
        item["singcols"] = sorted(draw(st.sets(st.integers(0, item["ncols"] - 1), min_size=1)))
        item["which"] = draw(st.integers(0, n - 1))
        item["upper"] = draw(st.booleans())
        item["f32"] = draw(st.booleans())
        item["req"] = [draw(st.booleans()), draw(st.booleans())]
    else:
        item["method"] = draw(st.sampled_from(["custom_exacteig", "exacteig"]))
        item["neig"] = draw(st.integers(1, n))
        item["f32"] = True
    return item


@st.composite
def fallback_history_st(draw, tier="quick"):
    items = [draw(fallback_item_st())]
    if draw(st.booleans()):
        items.append(draw(st.one_of(fallback_item_st(), item_st(tier))))
    return {"items": items}


# ------------------------------------------------------------------------------------------ strategy

ALL_KINDS = gen.KINDS + R.EXTRA_KINDS


@st.composite
def xopts_st(draw, functional, method):
    """rarely used documented options of the built-in methods: a per-call helper object that keeps a reference to itself only when
    such an option is set (a bound method stored on its own instance, a closure over the progress printer) leaks the iterate"""
    o = {}
    if functional in ("rootfinder", "equilibrium", "minimize"):
        if draw(st.booleans()):
            o["verbose"] = True
        if method in ("gd", "adam"):
            if draw(st.booleans()):
                o["f_tol"] = draw(st.sampled_from([0.0, 1e-3]))
            if draw(st.booleans()):
                o["x_tol"] = draw(st.sampled_from([0.0, 1e-3]))
        else:
            if draw(st.booleans()):
                o["f_tol"] = 1e-3
            if method in ("broyden1", "broyden2", "linearmixing") and draw(st.booleans()):
                o["line_search"] = draw(st.booleans())
    elif functional == "solve":
        if method in ("cg", "bicgstab") and draw(st.booleans()):
            o["verbose"] = True
        if method in ("cg", "bicgstab", "gmres") and draw(st.booleans()):
            o["rtol"] = 1e-3
    elif functional == "symeig":
        if method == "davidson" and draw(st.booleans()):
            o["verbose"] = True
    return o


@st.composite
def item_st(draw, tier="quick", functionals=None):
    functional = draw(st.sampled_from(functionals or (R.FCN_FUNCTIONALS + R.FCN_FUNCTIONALS + R.OP_FUNCTIONALS * 3 + R.MISC_FUNCTIONALS)))
    method = draw(st.sampled_from(R.METHODS[functional] + R.METHODS_C19_EXTRA.get(functional, [])))
    item = {"functional": functional, "method": method, "phase": draw(st.sampled_from([0, 1, 1, 2, 2, 3, 3])),
            "seed": draw(st.integers(0, 2 ** 31 - 1))}
    if functional in R.FCN_FUNCTIONALS:
        item["spec"] = draw(gen.funspec_st(2, 2, kinds=ALL_KINDS, allow_unused=(functional != "mcquad")))
        item["m"] = draw(st.integers(1, 3))
        r0 = draw(st.booleans())
        item["req"] = [r0, (not r0) or draw(st.booleans())]
        item["maxiter"] = draw(st.integers(1, 5 if tier == "quick" else 12))
        if functional in ("rootfinder", "equilibrium", "minimize") and draw(st.integers(0, 3)) == 0:
            item["xopts"] = draw(xopts_st(functional, method))
        if functional == "solve_ivp":
            item["nt"] = draw(st.integers(2, 4))
            item["tsdir"] = draw(st.sampled_from([1, 1, -1]))
        if functional == "quad":
            item["n"] = draw(st.integers(2, 5))
            item["limgrad"] = draw(st.booleans())
        if functional == "mcquad":
            item["role"] = draw(st.sampled_from(["f", "p"]))
            item["ns"] = draw(st.integers(2, 6))
    elif functional in R.OP_FUNCTIONALS:
        item["lkind"] = draw(st.sampled_from(R.LINOP_KINDS + ["m"]))
        item["impl"] = draw(st.sampled_from(R.LINOP_IMPLS))
        item["n"] = draw(st.integers(2, 4))
        r0 = draw(st.booleans())
        item["req"] = [r0, (not r0) or draw(st.booleans())]
        item["maxiter"] = draw(st.integers(1, 5 if tier == "quick" else 12))
        item["useM"] = draw(st.booleans())
        item["freshM"] = draw(st.booleans())
        if draw(st.integers(0, 3)) == 0:
            item["xopts"] = draw(xopts_st(functional, method))
        if functional == "solve":
            item["useE"] = draw(st.booleans())
            item["ncols"] = draw(st.integers(1, 2))
            item["breq"] = draw(st.booleans())
            item["hermitian"] = draw(st.booleans())
        else:
            item["neig"] = draw(st.integers(1, 2))
            item["mode"] = draw(st.sampled_from(["lowest", "uppest"]))
    else:
        item["npts"] = draw(st.integers(4, 8))
        item["yat"] = draw(st.sampled_from(["init", "call", "call_held"]))
    return item


@st.composite
def history_st(draw, tier="quick", functionals=None):
    n = draw(st.sampled_from([1, 1, 1, 2, 2, 3]))
    return {"items": [draw(item_st(tier, functionals)) for _ in range(n)]}


def tasks(tier):
    return [
        Task("history", strategy=history_st(tier), run=run_case, examples={"quick": 2400, "thorough": 40000}),
        # solve_ivp owns the two recorded leaks (D12, D13): a dedicated budget for every scheme x direction x phase
        Task("ivp", strategy=history_st(tier, ["solve_ivp"]), run=run_case, examples={"quick": 400, "thorough": 6000}),
        # the path on which xitorch handles an exception internally (singular shifted matrix in the direct solve)
        Task("fallback", strategy=fallback_history_st(tier), run=run_case, examples={"quick": 240, "thorough": 3000}),
    ]
