"""C17 — jac and hess are the true Jacobian and Hessian as differentiable operators.

The function under differentiation is  f(*args, *tail) = core(xs, eff, scale)  realised in one of the function kinds of
pbt/gen.py (pure / nn.Module / nested / EditableModule / containers / siblings): `args` are 1..3 float tensors of shapes
(), (k,), (k,l) interleaved with non-differentiable arguments (python float, python int, integer tensor, float tensor
without requires_grad); `tail` are the explicitly passed parameter tensors, an optional unused tensor and an optional
non-tensor scale; the remaining parameter tensors are held by the object(s).

Reference model (independent of xitorch): `Model.eval(curmap)` evaluates `core` directly on the tensors of a map
{id(original tensor) -> current tensor}; the dense Jacobian / Hessian is assembled row by row with plain
`torch.autograd.grad(..., create_graph=True)`, products are `torch.matmul` with it, and derivatives of products are
autograd through those expressions.  (A sample of cases is cross-checked against `torch.autograd.functional.jacobian /
hessian`; a disagreement there is a harness error, not a violation.)

Tasks
  products  one jac/hess call: return structure, shapes, flags, mv/rmv/mm/rmm/fullmatrix/.H with batched operands,
            first/second-order differentiation of one product w.r.t. point, parameters and operand.
  reject    an index pointing at a non-differentiable argument must raise TypeError (`_setup_idxs`).
  history   stateful: operators of one jac/hess call under nested `uselinopparams` contexts (directly or through `.H`):
            enter(new tensors per slot: keep / fresh leaf / non-leaf / no-grad) / evaluate(product [+ gradient]) / exit;
            inside a context the products equal the reference at the substituted tensors, after it at the previous ones.
Grad mode of the caller: the VALUE of a product does not depend on whether the caller runs with grad mode enabled or inside
`torch.no_grad()` (every solver's forward pass, `torch.autograd.Function.forward/backward`).  products: the whole case, or (mode
"mixed") each product evaluation separately by a drawn bit mask, is evaluated under no_grad; history: every evaluate step carries
its own grad mode; a no_grad evaluation with a requested differentiation order is followed by the same product in grad mode, which
is then differentiated (an evaluation without graph must not spoil the next one with graph).
"""
from __future__ import annotations

import torch
from hypothesis import strategies as st
from hypothesis.stateful import RuleBasedStateMachine, rule, initialize, precondition

from pbt import gen
from pbt.harness import Task, ok, violation, discard, xt_call, HarnessError

PID = "C17"
RULE = ("products: f(*args,*tail) with 1..3 float-tensor args of shapes (),(k,),(k,l) (k,l<=3) + 0..2 non-differentiable args "
        "(float/int/int-tensor/no-grad tensor) x function kind (pure, nn.Module, nested, EditableModule, containers, nn-in-EM, "
        "1- and 2-object siblings; explicit/object-held/derived/unused tensors, non-tensor scale) x jac (output (),(m,),(m,l)) or "
        "hess (output (),(1,),(1,1)) x idxs None/int/list/tuple (targets: args and explicit parameter tensors) x operands with 0..2 "
        "leading batch dims x f64/f32 x caller's grad mode (grad / all products under torch.no_grad() / operators built under no_grad / "
        "mixed: each of the product evaluations under no_grad or not by a drawn bit mask) x differentiation order 0/1/2 of one drawn product "
        "(evaluated with grad mode enabled, after the other products). "
        "reject: one non-differentiable index (alone, or anywhere in a list). "
        "history: RuleBasedStateMachine over enter/evaluate/exit steps on the operators of one call; every evaluate step (and the final "
        "evaluation after all contexts) draws the caller's grad mode (enabled / torch.no_grad()); under no_grad the value is compared, "
        "and when a differentiation order was drawn the same product is evaluated again with grad mode enabled and differentiated. "
        "Targets include arguments the function ignores or uses linearly only (structurally zero Jacobian/Hessian). "
        "Non-trivial = some reference matrix has a non-zero entry and (products) nin*nout>1 or a batched operand, "
        "(reject) always, (history) some evaluation happens inside a context that replaced >=1 tensor and one after an exit; "
        "distinct by canonical case.")
ASSUMPTIONS = [
    "float64/float32 real tensors only; all tensors of one case share the dtype",
    "tolerance: values |got-ref| <= tol = 1e3*eps*S*max(1,||x||_1), S = 1 + max|J| of the reference matrix, x the operand "
    "(column); first derivatives 10*tol*(1+max|ref gradient|); second derivatives 100*tol*(1+max|ref|+max|first gradient|); "
    "the core function has O(1) coefficients (|M_ik|~1, |a|<=3.5, sizes <= 16) so intermediate magnitudes stay within ~1e2*S",
    "the differentiated argument is never an autograd ancestor of (nor identical to) another argument or object-held tensor "
    "(partial and total derivative coincide); generated by construction",
    "the Jacobian w.r.t. an argument the function does not depend on (and the Hessian w.r.t. one that enters linearly) is the zero "
    "matrix, as torch.autograd.functional.jacobian/hessian return it",
    "tensors substituted through uselinopparams: same shape/dtype; the slot of the differentiated argument always requires grad "
    "(as in every caller: solve forward/backward pass the original tensors or clones requiring grad)",
    "the value of every product is the same whether the caller has grad mode enabled or disabled (torch.no_grad()): LinearOperator "
    "products are called from torch.autograd.Function.forward/backward of every solver; the reference is always evaluated with grad "
    "mode enabled; nothing is asserted about the graph of a result obtained under no_grad",
    "trusts torch.autograd on the plain-torch reference expression",
]
LEVEL_TEXT = ("Differential exploration against a dense autograd reference over generated argument lists, function kinds and index "
              "selections, plus model-based histories of parameter substitution (the operator caches its graph and reuses it "
              "only while tensor identities are unchanged, so behaviour is history-dependent).")
LEVEL_NOTE = "trusts torch.autograd on the reference expression; sizes nin,nout<=9, <=3 nested contexts, <=5 operators per call"
TECHNIQUE = "Hypothesis property-based testing: differential oracle (dense autograd reference) + stateful substitution-history machine"

DT = {"f64": torch.float64, "f32": torch.float32}
PRODUCTS = ["mv", "rmv", "mm", "rmm", "fullmatrix", "H.mv", "H.rmv", "H.mm", "H.rmm", "H.fullmatrix"]


# ------------------------------------------------------------------ the mathematical function

def make_core(M, N, L, linpos, outshape):
    """y_i = sum_j cos(c_j + j/2) sin(a_j s_i) + (1 + mean(a)/4) ((N tanh(z*roll(z)))_i + (L u)_i),  s = M z,
    z = the float args flattened, u = the float args in the positions `linpos` (they enter linearly only: their Hessian is
    structurally zero).  Non-linear in every other float argument and in a and c; non-float arguments only scale the value."""
    def core(xs, eff, scale):
        zs = []
        us = []
        mult = 1.0
        for i, x in enumerate(xs):
            if isinstance(x, torch.Tensor):
                if i in linpos:
                    us.append(x.reshape(-1))
                elif x.dtype.is_floating_point:
                    zs.append(x.reshape(-1))
                else:
                    mult = mult * (1.0 + 0.25 * float(x.sum()))
            elif isinstance(x, float):
                mult = mult * x
            else:
                mult = mult * (1.0 + 0.25 * int(x))
        z = torch.cat(zs)
        a = eff[0].reshape(-1)
        c = eff[1].reshape(-1)
        j = torch.arange(a.numel(), dtype=z.dtype)
        s = torch.matmul(M, z)
        y = (torch.cos(c + 0.5 * j) * torch.sin(a * s.unsqueeze(-1))).sum(-1)
        t = z * torch.roll(z, 1)
        nl = torch.matmul(N, torch.tanh(t))
        if us:
            nl = nl + torch.matmul(L, torch.cat(us))
        y = y + (1.0 + 0.25 * a.mean()) * nl
        return (float(scale) * mult * y).reshape(outshape)
    return core


def norm_explicit(spec):
    if spec["kind"] == "pure":
        return [True, True]
    return [bool(e) for e in spec["explicit"]]


def layout(args, spec, req):
    """class of every position of the full parameter list: diff | nodiff | unused"""
    pos = []
    for a in args:
        pos.append("diff" if a["t"] == "x" and a["req"] else "nodiff")
    explicit = norm_explicit(spec)
    for j in range(2):
        if explicit[j]:
            deps = gen._leaf_deps(spec["derive"], j)
            pos.append("diff" if any(req[i] for i in deps) else "nodiff")
    if spec.get("unused") == "explicit":
        pos.append("unused")
    if spec.get("nontensor"):
        pos.append("nodiff")
    return pos


class World:
    """tensors, the function object and the reference model of one case"""

    def __init__(self, case):
        self.case = case
        self.dtype = DT[case["dtype"]]
        self.eps = torch.finfo(self.dtype).eps
        g = gen.seeded(case["seed"])
        self.g = g
        spec = case["spec"]
        self.spec = spec
        xs = []
        nl_roots = []
        for a in case["args"]:
            if a["t"] == "x":
                v = (0.7 * gen.randn(g, tuple(a["shape"]), self.dtype)).requires_grad_(bool(a["req"]))
                if a.get("nl") and a["req"]:        # the point itself is a non-leaf tensor (derived from a leaf root)
                    nl_roots.append(v)
                    v = 0.5 * v + 0.1
                xs.append(v)
            elif a["t"] == "float":
                xs.append(float(a["v"]))
            elif a["t"] == "int":
                xs.append(int(a["v"]))
            elif a["t"] == "itensor":
                xs.append(torch.tensor(a["v"], dtype=torch.int64))
            else:
                raise ValueError(a)
        self.xs = xs
        self.nx = len(xs)
        lshape = tuple(case["leafshape"])
        values = [(0.5 + torch.rand(lshape, generator=g, dtype=torch.float64)).to(self.dtype), gen.randn(g, lshape, self.dtype)]
        self.leaves = gen.make_leaves(values, case["req"], spec["kind"])
        linpos = {i for i, a in enumerate(case["args"]) if a["t"] == "x" and a.get("lin")}
        n = sum(x.numel() for i, x in enumerate(xs) if isinstance(x, torch.Tensor) and x.dtype.is_floating_point and i not in linpos)
        nlin = sum(xs[i].numel() for i in linpos)
        self.outshape = tuple(case["outshape"])
        nout = 1
        for d in self.outshape:
            nout *= d
        self.nout = nout
        M = gen.randn(g, (nout, n), self.dtype)
        N = 0.5 * gen.randn(g, (nout, n), self.dtype)
        L = gen.randn(g, (nout, nlin), self.dtype)
        self.core = make_core(M, N, L, linpos, self.outshape)
        self.fcn, params, self.info = gen.build_function(self.core, self.leaves, spec)
        self.tail = list(params)
        self.allp = xs + self.tail
        self.pos = layout(case["args"], spec, case["req"])
        assert len(self.pos) == len(self.allp), (self.pos, len(self.allp))
        # ---- model of the object-held tensors (mirrors pbt/gen.py build_function)
        kind = spec["kind"]
        derive = spec["derive"]
        explicit = norm_explicit(spec)
        self.exp_idx = [j for j in range(2) if explicit[j]]
        self.obj_idx = [j for j in range(2) if not explicit[j]]
        self.held = {}
        held_tensors = []
        needed = sorted({i for j in self.obj_idx for i in gen._leaf_deps(derive, j)})
        obj = self.info["obj"]
        if kind in ("nn", "nn_nested", "em_nn"):
            for j in self.obj_idx:
                self.held[j] = ("derive", derive[j])
            held_tensors = [self.leaves[i] for i in needed]
        elif kind in ("em", "sib1"):
            for j in self.obj_idx:
                self.held[j] = ("tensor", getattr(obj, "t%d" % j))
            held_tensors = [self.held[j][1] for j in self.obj_idx]
        elif kind == "em_cont":
            for k, j in enumerate(self.obj_idx):
                self.held[j] = ("tensor", obj.lst[k // 2] if k % 2 == 0 else obj.dct["k%d" % (k // 2)])
            held_tensors = [self.held[j][1] for j in self.obj_idx]
        elif kind == "sib2":
            em_idx, nn_idx = self.obj_idx[::2], self.obj_idx[1::2]
            for j in em_idx:
                self.held[j] = ("tensor", getattr(obj, "t%d" % j))
            for j in nn_idx:
                self.held[j] = ("derive", derive[j])
            held_tensors = [self.held[j][1] for j in em_idx] + \
                           [self.leaves[i] for i in sorted({i for j in nn_idx for i in gen._leaf_deps(derive, j)})]
        if spec.get("unused") == "object" and kind != "pure":
            held_tensors.append(self.info["unused"])
        self.held_tensors = []         # unique by identity (one leaf may be held by two objects of a sibling pair)
        for t in held_tensors:
            if not any(t is u for u in self.held_tensors):
                self.held_tensors.append(t)
        self.roots = [x for x in xs if isinstance(x, torch.Tensor) and x.requires_grad and x.is_leaf] + nl_roots + \
                     [l for l in self.leaves if l.requires_grad]

    # reference evaluation on a map {id(original) -> current}
    def eval(self, m):
        def cur(t):
            return m.get(id(t), t) if isinstance(t, torch.Tensor) else t
        args = [cur(p) for p in self.allp]
        xs, tail = args[:self.nx], args[self.nx:]
        eff = [None, None]
        for k, j in enumerate(self.exp_idx):
            eff[j] = tail[k]
        for j in self.obj_idx:
            h = self.held[j]
            if h[0] == "tensor":
                eff[j] = cur(h[1])
            else:
                rec = h[1]
                eff[j] = gen.derive_one(rec, {i: cur(self.leaves[i]) for i in rec[1:]}, None)
        sc = tail[-1] if self.spec.get("nontensor") else self.spec.get("scale", 1.0)
        return self.core(xs, eff, sc)

    def dense(self, m, idx, which):
        """reference (nout x nin) matrix w.r.t. the current tensor in position idx, with graph"""
        T = m.get(id(self.allp[idx]), self.allp[idx])
        out = self.eval(m)
        if which == "hess":
            gr = None
            if out.requires_grad:
                gr, = torch.autograd.grad(out.reshape(()), T, create_graph=True, allow_unused=True)
            flat = (torch.zeros_like(T) if gr is None else gr).reshape(-1)
        else:
            flat = out.reshape(-1)
        rows = []
        for i in range(flat.numel()):
            r = None
            if flat.requires_grad:
                r, = torch.autograd.grad(flat[i], T, create_graph=True, retain_graph=True, allow_unused=True)
            rows.append((torch.zeros_like(T) if r is None else r).reshape(-1))
        return torch.stack(rows)

    def expected_slots(self, idx):
        """the tensors whose substitution changes the products (unique, by identity)"""
        lst = [self.allp[idx]] + [p for p in self.allp if isinstance(p, torch.Tensor) and p.requires_grad] + self.held_tensors
        seen, out = set(), []
        for t in lst:
            if id(t) not in seen:
                seen.add(id(t))
                out.append(t)
        return out

    def functional_crosscheck(self, idx, which, J):
        """torch.autograd.functional reference on detached values (harness self-check)"""
        T = self.allp[idx]

        def f(y):
            return self.eval({id(T): y})
        if which == "hess":
            R = torch.autograd.functional.hessian(lambda y: f(y).reshape(()), T.detach())
        else:
            R = torch.autograd.functional.jacobian(f, T.detach())
        R = R.reshape(J.shape)
        if not torch.allclose(R, J.detach(), rtol=1e4 * self.eps, atol=1e4 * self.eps):
            raise HarnessError("row-wise reference disagrees with torch.autograd.functional: %r vs %r" % (R, J))


def product_ref(name, J, xv):
    JH = J.transpose(-2, -1)
    if name in ("mv", "H.rmv"):
        return torch.matmul(J, xv.unsqueeze(-1)).squeeze(-1)
    if name in ("rmv", "H.mv"):
        return torch.matmul(JH, xv.unsqueeze(-1)).squeeze(-1)
    if name in ("mm", "H.rmm"):
        return torch.matmul(J, xv)
    if name in ("rmm", "H.mm"):
        return torch.matmul(JH, xv)
    if name == "fullmatrix":
        return J
    if name == "H.fullmatrix":
        return JH
    raise ValueError(name)


def product_call(name, op, xv):
    tgt = op.H if name.startswith("H.") else op
    meth = name.split(".")[-1]
    if meth == "fullmatrix":
        return xt_call(tgt.fullmatrix, _where=name)
    return xt_call(getattr(tgt, meth), xv, _where=name)


def operand_shape(name, nout, nin, xb, r):
    if name.endswith("fullmatrix"):
        return None
    inner = nin if name in ("mv", "mm", "H.rmv", "H.rmm") else nout
    if name.endswith("mv"):
        return (*xb, inner)
    return (*xb, inner, r)


def mismatch(got, ref, tol, what):
    if not isinstance(got, torch.Tensor):
        return "%s: returned %r" % (what, type(got))
    if tuple(got.shape) != tuple(ref.shape):
        return "%s: shape %s, expected %s" % (what, tuple(got.shape), tuple(ref.shape))
    if got.dtype != ref.dtype:
        return "%s: dtype %s, expected %s" % (what, got.dtype, ref.dtype)
    err = (got.detach() - ref.detach()).abs()
    bad = ~(err <= tol)
    if bool(bad.any()):
        i = int(torch.nonzero(bad.reshape(-1))[0])
        return "%s: entry %d is %r, reference %r (|diff| %.3e > tol %.3e)" % (
            what, i, got.detach().reshape(-1)[i].item(), ref.detach().reshape(-1)[i].item(), float(err.reshape(-1)[i]), float(tol))
    return None


def grads(y, wrt, create_graph=False):
    if not wrt:
        return []
    if not (isinstance(y, torch.Tensor) and y.requires_grad):
        return [None] * len(wrt)
    return list(torch.autograd.grad(y, wrt, create_graph=create_graph, retain_graph=True, allow_unused=True))


def compare_grads(got, ref, wrt, tol_of, what):
    for k, (gk, rk, x) in enumerate(zip(got, ref, wrt)):
        g0 = torch.zeros_like(x) if gk is None else gk
        r0 = torch.zeros_like(x) if rk is None else rk
        sc = float(r0.detach().abs().max()) if r0.numel() else 0.0
        msg = mismatch(g0, r0, tol_of(sc), "%s w.r.t. tensor #%d of %d (shape %s)" % (what, k, len(wrt), tuple(x.shape)))
        if msg:
            return msg
    return None


def value_tol(W, J, xv):
    """1e3*eps*S*max(1, largest L1 norm of an operand vector / matrix column)"""
    S = 1.0 + float(J.detach().abs().max())
    l1 = 1.0
    if xv is not None:
        a = xv.detach().abs()
        # vectors contract over the last dim; for matrices the larger of both sums is a valid (looser) bound
        l1 = max(float(a.sum(-1).max()), float(a.sum(-2).max()) if a.dim() >= 2 else 0.0, 1.0)
    return 1e3 * W.eps * S * l1, S


def diff_check(W, g, got, ref, wrt, order, tol, what, strict=()):
    """first/second-order derivatives of <Wt, product> w.r.t. `wrt` against the same derivatives of the reference expression.
    `strict`: tensors the operator lists as its parameters and that require grad - differentiating the product w.r.t. them
    must not need allow_unused (jachess.connect_graph exists for exactly that).  Returns (kind, message) or None."""
    Wt = gen.randn(g, tuple(ref.shape), W.dtype)
    second = order == 2
    ref_loss = (ref * Wt).sum()
    got_loss = (got * Wt).sum()
    ref1 = grads(ref_loss, wrt, create_graph=second)
    if not got_loss.requires_grad:
        if any(rk is not None and float(rk.detach().abs().max()) > 0 for rk in ref1):
            return "no_graph", "%s does not require grad although the reference gradient is non-zero" % what
        return None
    got1 = xt_call(torch.autograd.grad, got_loss, wrt, create_graph=second, retain_graph=True, allow_unused=True, _where="backward")
    msg = compare_grads(got1, ref1, wrt, lambda sc: 10 * tol * (1.0 + sc), "first derivative of <W,%s>" % what)
    if msg:
        return "grad1", msg
    for t in strict:
        try:
            torch.autograd.grad(got_loss, [t], retain_graph=True)
        except RuntimeError as e:
            return "param_disconnected", "%s cannot be differentiated w.r.t. one of the operator's own parameter tensors (shape %s): %s" % (
                what, tuple(t.shape), str(e)[:160])
    if second:
        C = [gen.randn(g, tuple(x.shape), W.dtype) for x in wrt]
        rterms = [(c * rk).sum() for c, rk in zip(C, ref1) if rk is not None and rk.requires_grad]
        gterms = [(c * gk_).sum() for c, gk_ in zip(C, got1) if gk_ is not None and gk_.requires_grad]
        ref2 = grads(sum(rterms), wrt) if rterms else [None] * len(wrt)
        if gterms:
            got2 = xt_call(torch.autograd.grad, sum(gterms), wrt, allow_unused=True, retain_graph=True, _where="backward2")
        else:
            got2 = [None] * len(wrt)
        g1max = max([float(rk.detach().abs().max()) for rk in ref1 if rk is not None and rk.numel()] + [0.0])
        msg = compare_grads(got2, ref2, wrt, lambda sc: 100 * tol * (1.0 + sc + g1max), "second derivative of <W,%s>" % what)
        if msg:
            return "grad2", msg
    return None


def _call_jh(which, fcn, params, idxs):
    from xitorch.grad import jac, hess
    return (jac if which == "jac" else hess)(fcn, params, idxs=idxs)


def get_ops(W, which, idxs, as_tuple):
    params = tuple(W.allp) if as_tuple else list(W.allp)
    return xt_call(_call_jh, which, W.fcn, params, idxs, _where="construct")


def structure_check(W, res, which, idxs, expect_positions):
    """return structure, class, shape, dtype, flag; returns (ops, message)"""
    import xitorch
    if isinstance(idxs, int):
        if not isinstance(res, xitorch.LinearOperator):
            return None, "idxs=%r: expected a single LinearOperator, got %r" % (idxs, type(res))
        ops = [res]
    else:
        if not isinstance(res, list):
            return None, "idxs=%r: expected a list of LinearOperator, got %r" % (idxs, type(res))
        ops = res
    if len(ops) != len(expect_positions):
        return None, "idxs=%r: %d operators returned, %d expected (positions %s)" % (idxs, len(ops), len(expect_positions), expect_positions)
    for op, p in zip(ops, expect_positions):
        if not isinstance(op, xitorch.LinearOperator):
            return None, "element for position %d is %r" % (p, type(op))
        nin = W.allp[p].numel()
        nrow = nin if which == "hess" else W.nout
        if tuple(op.shape) != (nrow, nin):
            return None, "operator for position %d has shape %s, expected %s" % (p, tuple(op.shape), (nrow, nin))
        if op.dtype != W.dtype:
            return None, "operator for position %d has dtype %s, tensors are %s" % (p, op.dtype, W.dtype)
        if bool(op.is_hermitian) != (which == "hess"):
            return None, "%s operator has is_hermitian=%s" % (which, op.is_hermitian)
    return ops, None


def base_labels(case, W):
    spec = case["spec"]
    nt = sum(1 for a in case["args"] if a["t"] == "x" and a["req"])
    shapes = sorted({len(a["shape"]) for a in case["args"] if a["t"] == "x"})
    return ["kind=" + spec["kind"], "which=" + case["which"], "dtype=" + case["dtype"], "ntensorargs=%d" % nt,
            "nondiffargs=%d" % sum(1 for a in case["args"] if not (a["t"] == "x" and a["req"])),
            "argranks=" + "".join(str(s) for s in shapes), "outrank=%d" % len(case["outshape"]),
            "nonleafpoint=%s" % any(a.get("nl") for a in case["args"] if a["t"] == "x" and a["req"]),
            "unused=%s" % spec.get("unused"), "nontensor=%s" % bool(spec.get("nontensor"))]


# ------------------------------------------------------------------ task: products

def run_products(case):
    torch.manual_seed(0)
    W = World(case)
    which = case["which"]
    idxs = case["idxs"]
    labels = base_labels(case, W)
    form = "none" if idxs is None else ("int" if isinstance(idxs, int) else ("tuple" if case.get("idxs_tuple") else "list"))
    labels += ["idxs=" + form, "order=%d" % case["order"], "mode=" + case["mode"], "xbatchrank=%d" % len(case["xbatch"])]
    diffpos = [i for i, c in enumerate(W.pos) if c in ("diff", "unused")]
    if idxs is None:
        expect = diffpos
        arg = None
    elif isinstance(idxs, int):
        expect = [idxs]
        arg = idxs
    else:
        expect = list(idxs)
        arg = tuple(idxs) if case.get("idxs_tuple") else list(idxs)
    labels.append("nops=%d" % len(expect))
    labels.append("target=" + "+".join(sorted({"arg" if p < W.nx else "param" for p in expect})))
    if case["mode"] == "cnograd":      # operators built under no_grad, used with grad
        with torch.no_grad():
            res = get_ops(W, which, arg, case.get("params_tuple", False))
    else:
        res = get_ops(W, which, arg, case.get("params_tuple", False))
    ops, msg = structure_check(W, res, which, arg, expect)
    if msg:
        return violation("structure", msg, labels)

    xb = tuple(case["xbatch"])
    r = case["r"]
    g = W.g
    nograd = case["mode"] == "nograd"
    # mode "mixed": the caller's grad mode changes from one product evaluation to the next (bit i of gmask, counted over all
    # product evaluations of the case: 1 = under torch.no_grad())
    gmask = int(case.get("gmask", 0)) if case["mode"] == "mixed" else 0
    neval = 0
    m0 = {}
    nonzero = False
    zero_target = False
    gk = case["gop"] % len(ops)
    for k, (op, p) in enumerate(zip(ops, expect)):
        J = W.dense(m0, p, which)
        nout, nin = J.shape
        if float(J.detach().abs().max()) == 0.0:
            zero_target = True
        else:
            nonzero = True
        if (case["seed"] + k) % 6 == 0:
            W.functional_crosscheck(p, which, J)
        # the listed operator parameters are exactly the tensors the products depend on
        got_slots = xt_call(op.getlinopparams, _where="getlinopparams")
        exp_slots = W.expected_slots(p)
        if sorted(id(t) for t in got_slots) != sorted(id(t) for t in exp_slots):
            return violation("linop_params", "operator for position %d lists %d parameter tensors, expected %d (shapes %s vs %s)" % (
                p, len(got_slots), len(exp_slots), [tuple(t.shape) for t in got_slots], [tuple(t.shape) for t in exp_slots]), labels)
        for name in PRODUCTS:
            if case.get("which_products") and name not in case["which_products"]:
                continue
            shp = operand_shape(name, nout, nin, xb, r)
            xv = None if shp is None else gen.randn(g, shp, W.dtype)
            ref = product_ref(name, J, xv)
            off = nograd or bool((gmask >> (neval % 30)) & 1)
            neval += 1
            if off:
                with torch.no_grad():
                    got = product_call(name, op, xv)
            else:
                got = product_call(name, op, xv)
            tol, S = value_tol(W, J, xv)
            msg = mismatch(got, ref, tol, "%s of the %s w.r.t. position %d (operand %s%s)" % (
                name, which, p, shp, ", caller under torch.no_grad()" if off else ""))
            if msg:
                return violation("product:" + name, msg, labels)
        if which == "hess":
            F = product_call("fullmatrix", op, None)
            asym = float((F - F.transpose(-2, -1)).detach().abs().max())
            tol, S = value_tol(W, J, None)
            if not asym <= tol:
                return violation("hess_asymmetric", "Hessian fullmatrix differs from its transpose by %.3e (tol %.3e)" % (asym, tol), labels)

        # ---- differentiation of one product
        if k != gk or case["order"] == 0 or nograd:
            continue
        name = case["gprod"]
        labels.append("gprod=" + name)
        shp = operand_shape(name, nout, nin, xb, r)
        xv = None
        if shp is not None:
            xv = gen.randn(g, shp, W.dtype).requires_grad_(bool(case["xreq"]))
        ref = product_ref(name, J, xv)
        got = product_call(name, op, xv)
        wrt = list(W.roots) + ([xv] if xv is not None and xv.requires_grad else [])
        wrt += [W.info["unused"]] if W.info["unused"] is not None else []
        tol, S = value_tol(W, J, xv)
        bad = diff_check(W, g, got, ref, wrt, case["order"], tol, "%s of the %s w.r.t. position %d" % (name, which, p),
                         strict=[t for t in got_slots if t.requires_grad])
        if bad:
            return violation("%s:%s" % (bad[0], name), bad[1], labels)
    nin_max = max(W.allp[p].numel() for p in expect)
    labels.append("zero_target=%s" % zero_target)
    return ok(labels, nontrivial=nonzero and (nin_max * W.nout > 1 or len(xb) > 0))


# ------------------------------------------------------------------ task: reject

def run_reject(case):
    torch.manual_seed(0)
    W = World(case)
    which = case["which"]
    idxs = case["idxs"]
    bad = case["bad"]
    cls = W.pos[bad]
    a = W.allp[bad]
    what = ("tensor_nograd" if a.dtype.is_floating_point else "int_tensor") if isinstance(a, torch.Tensor) else type(a).__name__
    labels = base_labels(case, W) + ["bad=" + what, "idxsform=" + ("int" if isinstance(idxs, int) else "list%d" % len(idxs)),
                                     "badfirst=%s" % (isinstance(idxs, int) or idxs[0] == bad)]
    if cls != "nodiff":
        raise HarnessError("reject case points at a differentiable position")
    from xitorch.grad import jac, hess
    fn = jac if which == "jac" else hess
    arg = idxs if isinstance(idxs, int) else (tuple(idxs) if case.get("idxs_tuple") else list(idxs))
    try:
        fn(W.fcn, tuple(W.allp) if case.get("params_tuple") else list(W.allp), idxs=arg)
    except TypeError:
        return ok(labels, True)
    except Exception as e:  # noqa: BLE001
        return violation("wrong_error", "%s(idxs=%r) with a %s at position %d raised %s instead of TypeError: %s" % (
            which, arg, what, bad, type(e).__name__, str(e)[:200]), labels)
    return violation("not_rejected", "%s(idxs=%r) accepted although position %d is a %s" % (which, arg, bad, what), labels)


# ------------------------------------------------------------------ task: history

def run_history(case):
    """ops: ["enter", k, via, [forms], vseed] | ["eval", k, product, xbatch, r, order(, "grad" | "nograd")] | ["exit"]
    (grad mode of the caller of the product; absent = "grad"); case["final_gm"]: grad mode of the evaluation after all contexts
    case["construct"]: plain | nograd (operators built under torch.no_grad) | useobj (operators built while the function's
    object parameters are substituted through PureFunction.useobjparams - what every rootfinder backward does)"""
    torch.manual_seed(0)
    W = World(case)
    which = case["which"]
    idxs = list(case["idxs"])
    construct = case.get("construct", "plain")
    labels = base_labels(case, W) + ["construct=" + construct]
    g = W.g
    m0 = {}                       # id(original) -> tensor in use when the operators were built
    roots = list(W.roots)
    if construct == "useobj":
        from xitorch._core.pure_function import get_pure_function
        pf = xt_call(get_pure_function, W.fcn, _where="get_pure_function")
        cur_obj = list(pf.objparams())
        if sorted(id(t) for t in cur_obj) != sorted(id(t) for t in W.held_tensors):
            return violation("objparams_model", "the pure function lists %d object tensors, the function object holds %d" % (
                len(cur_obj), len(W.held_tensors)), labels)
        new_obj = []
        for t0 in cur_obj:
            t = (0.2 + 0.7 * gen.randn(g, tuple(t0.shape), W.dtype)).requires_grad_()
            new_obj.append(t)
            roots.append(t)
            m0[id(t0)] = t
        with pf.useobjparams(new_obj):
            res = xt_call(_call_jh, which, pf, list(W.allp), idxs, _where="construct")
    elif construct == "nograd":
        with torch.no_grad():
            res = get_ops(W, which, idxs, False)
    else:
        res = get_ops(W, which, idxs, False)
    ops, msg = structure_check(W, res, which, idxs, idxs)
    if msg:
        return violation("structure", msg, labels)
    nops = len(ops)
    inv = {id(t): W_t0 for W_t0 in W.held_tensors for t in [m0.get(id(W_t0))] if t is not None}
    # slot -> original tensor, per operator and route (direct / through .H)
    slot_origs = []
    for k, op in enumerate(ops):
        exp = [m0.get(id(t), t) for t in W.expected_slots(idxs[k])]
        per = {}
        for via in ("op", "H"):
            tgt = op if via == "op" else op.H
            got = xt_call(tgt.getlinopparams, _where="getlinopparams")
            if sorted(id(t) for t in got) != sorted(id(t) for t in exp):
                return violation("linop_params", "operator %d (%s) lists %d parameter tensors, expected %d" % (k, via, len(got), len(exp)), labels)
            per[via] = [inv.get(id(t), t) for t in got]
        slot_origs.append(per)
    stacks = [[dict(m0)] for _ in range(nops)]  # per operator: stack of maps id(orig) -> current
    ctx = []                                   # (k, context manager, number of replaced tensors)
    n_eval_inside = n_eval_after_exit = n_enter = 0
    exited = False
    maxdepth = 0
    used_forms = set()
    nonzero = False
    orders = set()

    evalmodes = set()

    def evaluate(k, name, xb, r, order, where, gm="grad"):
        nonlocal nonzero
        order = int(order)
        m = stacks[k][-1]
        J = W.dense(m, idxs[k], which)
        if float(J.detach().abs().max()) != 0.0:
            nonzero = True
        nout, nin = J.shape
        shp = operand_shape(name, nout, nin, tuple(xb), r)
        xv = None if shp is None else gen.randn(g, shp, W.dtype)
        ref = product_ref(name, J, xv)
        tol, S = value_tol(W, J, xv)
        depth = len(stacks[k]) - 1
        inside = "inside %d context(s) of this operator" % depth if depth else "with the tensors it was built from"
        phase = "inside" if depth else ("after" if exited else "before")
        evalmodes.add(gm + ("-inside" if depth else ""))
        if gm == "nograd":
            # the caller runs without grad mode (a solver's forward pass): same value
            with torch.no_grad():
                got = product_call(name, ops[k], xv)
            msg = mismatch(got, ref, tol, "%s: %s of operator %d %s, caller under torch.no_grad()" % (where, name, k, inside))
            if msg:
                return violation("history_product_nograd:" + phase, msg, labels)
            if not order:
                return None
            # ... and the same product right afterwards with grad mode enabled, differentiated below
        got = product_call(name, ops[k], xv)
        msg = mismatch(got, ref, tol, "%s: %s of operator %d %s%s" % (where, name, k, inside, " (after the same call under no_grad)" if gm == "nograd" else ""))
        if msg:
            return violation("history_product:" + phase, msg, labels)
        if order:
            orders.add(order)
            bad = diff_check(W, g, got, ref, roots, order, tol, "%s of operator %d %s (%s)" % (name, k, inside, where))
            if bad:
                return violation("history_%s:%s" % (bad[0], phase), bad[1], labels)
        return None

    for step, o in enumerate(case["ops"]):
        where = "step %d %s" % (step, o[0])
        if o[0] == "enter":
            _, k, via, forms, vseed = o
            k = k % nops
            if len(ctx) >= 3:
                continue
            tgt = ops[k] if via == "op" else ops[k].H
            origs = slot_origs[k][via]
            top = stacks[k][-1]
            current = xt_call(tgt.getlinopparams, _where="getlinopparams")
            if [id(t) for t in current] != [id(top.get(id(t0), t0)) for t0 in origs]:
                return violation("linop_params_state", "%s: getlinopparams does not return the tensors currently in use" % where, labels)
            g2 = gen.seeded(vseed)
            newmap = dict(top)
            new = []
            nrep = 0
            ytensor = W.allp[idxs[k]]
            for i, t0 in enumerate(origs):
                f = forms[i % len(forms)]
                curt = top.get(id(t0), t0)
                if f == "nograd" and t0 is ytensor:
                    f = "leaf"
                used_forms.add(f)
                if f == "keep":
                    t = curt
                else:
                    val = 0.2 + 0.7 * gen.randn(g2, tuple(t0.shape), W.dtype)
                    nrep += 1
                    if f == "leaf":
                        t = val.requires_grad_()
                        roots.append(t)
                    elif f == "nonleaf":
                        b = val.requires_grad_()
                        roots.append(b)
                        t = 1.25 * b - 0.1
                    else:
                        t = val
                new.append(t)
                newmap[id(t0)] = t
            cm = tgt.uselinopparams(*new)
            xt_call(cm.__enter__, _where="uselinopparams.enter")
            ctx.append((k, cm, nrep))
            stacks[k].append(newmap)
            n_enter += 1
            maxdepth = max(maxdepth, len(ctx))
        elif o[0] == "exit":
            if not ctx:
                continue
            k, cm, _ = ctx.pop()
            xt_call(cm.__exit__, None, None, None, _where="uselinopparams.exit")
            stacks[k].pop()
            exited = True
        elif o[0] == "eval":
            _, k, name, xb, r, order = o[:6]
            k = k % nops
            v = evaluate(k, name, xb, r, order, where, o[6] if len(o) > 6 else "grad")
            if v is not None:
                return v
            if len(stacks[k]) > 1 and any(n for kk, _, n in ctx if kk == k):
                n_eval_inside += 1
            elif exited:
                n_eval_after_exit += 1
        else:
            raise ValueError(o)
    # leave all contexts, then every operator must be back at its original tensors
    while ctx:
        k, cm, _ = ctx.pop()
        xt_call(cm.__exit__, None, None, None, _where="uselinopparams.exit")
        stacks[k].pop()
        exited = True
    for k in range(nops):
        v = evaluate(k, case["final"], [], 2, 1, "after all contexts", case.get("final_gm", "grad"))
        if v is not None:
            return v
        got = xt_call(ops[k].getlinopparams, _where="getlinopparams")
        if [id(t) for t in got] != [id(m0.get(id(t), t)) for t in slot_origs[k]["op"]]:
            return violation("linop_params_state", "after all contexts operator %d does not list its original tensors" % k, labels)
    labels += sorted("evalorder=%d" % o_ for o_ in orders) + sorted("evalmode=" + e for e in evalmodes)
    labels += ["nops=%d" % nops, "enters=%d" % min(n_enter, 4), "maxdepth=%d" % maxdepth, "eval_inside=%s" % (n_eval_inside > 0)] + \
              sorted("form=" + f for f in used_forms) + sorted({"via=" + o[2] for o in case["ops"] if o[0] == "enter"})
    return ok(labels, nontrivial=nonzero and n_eval_inside > 0 and n_enter > 0)


# ------------------------------------------------------------------ strategies

@st.composite
def spec_st(draw, target_unused_ok=False):
    kind = draw(st.sampled_from(gen.KINDS))
    derive = []
    for j in range(2):
        op = draw(st.sampled_from(["id", "id", "sq", "lin", "mul"]))
        derive.append(["mul", j, 1 - j] if op == "mul" else [op, j])
    explicit = [kind == "pure" or draw(st.sampled_from([False, False, True])) for _ in range(2)]
    if kind != "pure" and all(explicit):
        explicit[draw(st.integers(0, 1))] = False
    # the differentiated tensor must not be an ancestor of / identical to another argument or held tensor:
    # an explicitly passed *leaf* whose value also feeds the other effective tensor is passed as a derived tensor instead
    for j in range(2):
        if derive[j][0] == "mul" and explicit[1 - j] and derive[1 - j][0] == "id":
            derive[1 - j] = ["lin", 1 - j]
    unused = draw(st.sampled_from([None, None, None, "explicit", "object"]))
    if kind == "pure" and unused == "object":
        unused = "explicit"
    return {"kind": kind, "derive": derive, "explicit": explicit, "unused": unused,
            "nontensor": draw(st.booleans()), "scale": draw(st.sampled_from([1.0, 0.5, 2.0, -1.5]))}


def shape_of(maxdim):
    return st.one_of(st.just([]), st.lists(st.integers(1, maxdim), min_size=1, max_size=1), st.lists(st.integers(1, maxdim), min_size=2, max_size=2))


shape_st = shape_of(3)


@st.composite
def nondiff_st(draw):
    t = draw(st.sampled_from(["float", "int", "itensor", "xnograd"]))
    if t == "float":
        return {"t": "float", "v": draw(st.sampled_from([1.5, -0.5, 2.0, 0.75]))}
    if t == "int":
        return {"t": "int", "v": draw(st.integers(-2, 3))}
    if t == "itensor":
        return {"t": "itensor", "v": draw(st.lists(st.integers(-1, 2), min_size=1, max_size=2))}
    return {"t": "x", "shape": draw(shape_st), "req": False}


@st.composite
def base_st(draw, min_nondiff=0, small=False, tier="quick"):
    nt = draw(st.integers(1, 2 if small else 3))
    xshape = shape_of(4) if tier == "thorough" and not small else shape_st
    args = [{"t": "x", "shape": draw(xshape), "req": True, "nl": draw(st.sampled_from([False, False, False, True]))} for _ in range(nt)]
    if nt > 1 and draw(st.integers(0, 3)) == 0:
        args[draw(st.integers(0, nt - 1))]["lin"] = True      # enters linearly only (structurally zero Hessian)
    nnd = draw(st.integers(min_nondiff, 2))
    for _ in range(nnd):
        args.insert(draw(st.integers(0, len(args))), draw(nondiff_st()))
    which = draw(st.sampled_from(["jac", "jac", "hess"]))
    if which == "hess":
        outshape = draw(st.sampled_from([[], [1], [1, 1]]))
    else:
        outshape = draw(st.one_of(st.just([]), st.lists(st.integers(1, 3), min_size=1, max_size=2)))
    return {"args": args, "spec": draw(spec_st()), "req": [draw(st.sampled_from([True, True, False])), draw(st.sampled_from([True, True, False]))],
            "leafshape": draw(shape_st), "which": which, "outshape": outshape,
            "dtype": draw(st.sampled_from(["f64", "f64", "f64", "f32"])), "params_tuple": draw(st.booleans()),
            "seed": draw(st.integers(0, 2 ** 31 - 1))}


@st.composite
def products_st(draw, tier="quick"):
    case = draw(base_st(tier=tier))
    pos = layout(case["args"], case["spec"], case["req"])
    diff = [i for i, c in enumerate(pos) if c in ("diff", "unused")]   # an unused tensor is a target with a zero Jacobian
    form = draw(st.sampled_from(["none", "int", "list", "list"]))
    if form == "none":
        idxs = None
    elif form == "int":
        idxs = draw(st.sampled_from(diff))
    else:
        idxs = draw(st.lists(st.sampled_from(diff), min_size=1, max_size=3))
    case.update({"idxs": idxs, "idxs_tuple": draw(st.booleans()),
                 "xbatch": draw(st.lists(st.integers(1, 3), max_size=2)), "r": draw(st.integers(1, 3)),
                 "order": draw(st.sampled_from([0, 1, 1, 2, 2])), "gprod": draw(st.sampled_from(PRODUCTS)),
                 "gop": draw(st.integers(0, 4)), "xreq": draw(st.booleans()),
                 "mode": draw(st.sampled_from(["grad", "grad", "grad", "nograd", "cnograd", "mixed", "mixed"]))})
    if case["mode"] == "mixed":
        case["gmask"] = draw(st.integers(1, 2 ** 30 - 1))
    return case


@st.composite
def reject_st(draw):
    case = draw(base_st(min_nondiff=0))
    pos = layout(case["args"], case["spec"], case["req"])
    nod = [i for i, c in enumerate(pos) if c == "nodiff"]
    if not nod:
        case["args"].insert(draw(st.integers(0, len(case["args"]))), draw(nondiff_st()))
        pos = layout(case["args"], case["spec"], case["req"])
        nod = [i for i, c in enumerate(pos) if c == "nodiff"]
    diff = [i for i, c in enumerate(pos) if c == "diff"]
    bad = draw(st.sampled_from(nod))
    if draw(st.booleans()):
        idxs = bad
    else:
        n = draw(st.integers(0, 2))
        idxs = [draw(st.sampled_from(diff)) for _ in range(n)]
        idxs.insert(draw(st.integers(0, len(idxs))), bad)
    case.update({"idxs": idxs, "bad": bad, "idxs_tuple": draw(st.booleans())})
    return case


def machine(holder):
    class SubstitutionHistory(RuleBasedStateMachine):
        def __init__(self):
            super().__init__()
            self.case = None
            self.depth = 0

        @initialize(base=base_st(small=True), data=st.data())
        def init(self, base, data):
            pos = layout(base["args"], base["spec"], base["req"])
            diff = [i for i, c in enumerate(pos) if c in ("diff", "unused")]
            base["idxs"] = data.draw(st.lists(st.sampled_from(diff), min_size=1, max_size=2, unique=True))
            base["final"] = data.draw(st.sampled_from(["fullmatrix", "mv", "rmv", "H.mm"]))
            # useobj = what rootfinder's backward does, and it only ever builds jac there (hess creates a new sibling
            # pure function, which is not meant to happen while the object is in a substituted state)
            base["construct"] = data.draw(st.sampled_from(["plain", "plain", "nograd", "useobj", "useobj"] if base["which"] == "jac"
                                                          else ["plain", "plain", "nograd"]))
            base["final_gm"] = data.draw(st.sampled_from(["grad", "grad", "nograd"]))
            base["ops"] = []
            self.case = base

        @precondition(lambda self: self.case is not None and self.depth < 3)
        @rule(k=st.integers(0, 1), via=st.sampled_from(["op", "op", "H"]),
              forms=st.lists(st.sampled_from(["keep", "leaf", "leaf", "nonleaf", "nograd"]), min_size=1, max_size=5),
              vseed=st.integers(0, 2 ** 31 - 1))
        def enter(self, k, via, forms, vseed):
            self.case["ops"].append(["enter", k, via, forms, vseed])
            self.depth += 1

        @precondition(lambda self: self.case is not None and self.depth < 3)
        @rule(k=st.integers(0, 1), via=st.sampled_from(["op", "op", "H"]),
              forms=st.lists(st.sampled_from(["keep", "leaf", "leaf", "nonleaf", "nograd"]), min_size=1, max_size=5),
              vseed=st.integers(0, 2 ** 31 - 1), name=st.sampled_from(["mv", "rmv", "mm", "rmm", "fullmatrix", "H.mv", "H.rmm"]),
              order=st.sampled_from([0, 1, 2]), gm=st.sampled_from(["grad", "grad", "nograd"]))
        def enter_and_evaluate(self, k, via, forms, vseed, name, order, gm):
            self.case["ops"].append(["enter", k, via, forms, vseed])
            self.case["ops"].append(["eval", k, name, [], 1, order, gm])
            self.depth += 1

        @precondition(lambda self: self.case is not None)
        @rule(k=st.integers(0, 1), name=st.sampled_from(["mv", "rmv", "mm", "rmm", "fullmatrix", "H.mv", "H.rmm"]),
              xb=st.lists(st.integers(1, 2), max_size=1), r=st.integers(1, 2), order=st.sampled_from([0, 1, 1, 2]), gm=st.sampled_from(["grad", "grad", "nograd"]))
        def evaluate(self, k, name, xb, r, order, gm):
            self.case["ops"].append(["eval", k, name, xb, r, order, gm])

        @precondition(lambda self: self.case is not None and self.depth > 0)
        @rule()
        def leave(self):
            self.case["ops"].append(["exit"])
            self.depth -= 1

        def teardown(self):
            if self.case is not None:
                holder["submit"](self.case)
    return SubstitutionHistory


def tasks(tier):
    return [
        Task("products", strategy=products_st(tier), run=run_products, examples={"quick": 2000, "thorough": 40000}),
        Task("reject", strategy=reject_st(), run=run_reject, examples={"quick": 400, "thorough": 4000}),
        Task("history", machine=machine, run=run_history, examples={"quick": 1200, "thorough": 24000},
             steps={"quick": 10, "thorough": 16}),
    ]
