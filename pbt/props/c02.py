"""C02 — gradients through solve equal the derivative of the exact solution map X = (A - E M)^-1 B (column by column).

Leaves PA, PB, PE, PM; A = PA (non-Hermitian spectra) or Herm(PA) (Hermitian spectra; PA carries an extra anti-Hermitian part
that must not matter), M = Herm(PM); the operators are built on these *derived* tensors by pbt/ref_c01.make_operator, so the
pull-back has to route through the operators' parameter names (Mat, a./b./obj. prefixes, jac parameters).
Reference: the dense column-by-column torch.linalg.solve built from the same leaves; autograd gives its exact first-order
gradients and, through a random contraction of them, the second-order ones.
loss = Re<W, X> with a random (complex) cotangent W.

Tolerance for a leaf gradient g: |g - g_ref|_max <= 50 (k^3 t_f + k t_b + k n eps) (1 + |g_ref|_max), k = max cond(A - e_c M) measured on
the dense matrices, t_f / t_b the forward / backward solver tolerances (0 for direct solves); second order: 10 k times that.
Cases in which the forward or the backward solve warned are discarded (counted): the property is about the gradient of the solution.

Task sharedparam: ONE tensor object held at two different places of A and/or M (composed operators whose operands are built on the
same tensor, caller-written classes holding it as an attribute and inside a sub-object / list / dict, both listed by
_getparamnames; see build_shared). The implicit backward substitutes differentiable copies at every place (uselinopparams), so
the leaf gradient is the sum over both places - which is what autograd through the dense matrix built from the same tensor gives.
Same oracle and tolerances.
"""
from __future__ import annotations

import warnings

import torch
from hypothesis import strategies as st

from pbt import gen
from pbt import ref_c01 as R
from pbt.harness import Task, ok, violation, discard, xt_call

PID = "C02"
RULE = ("n 1..6, ncols 1..3, target batch rank 0..2 with independent sub-patterns for A,B,E,M; f64/c128; spectra {spd, indef, few_spd, "
        "normal_rhp, general, few_normal} cond<=10; operator kinds of C01 (leaf classes with/without rmv/mm, sums, differences, "
        "scalings, products, adjoints, jac) built on derived tensors, user-class leaves optionally non-linear in their own parameter (matrix = Mat*exp(s), extra leaf s); optional listed-but-unused operator parameter; E mode "
        "{none, E, E+M, M only}; forward method x backward options {default, exactsolve, cg, bicgstab, gmres}; which leaves require "
        "grad; first and second order (create_graph). Non-trivial = n>=2, nothing warned and the reference gradient w.r.t. the "
        "matrix leaf (or, if it does not require grad, any leaf) is non-zero; distinct by (method, bck, E mode, kind, dtype, spectrum, "
        "batch class, order, n, seed mod 64). Task sharedparam: the same dimensions, A and/or M (E+M mode) holding ONE tensor object at two "
        "different places: (op1(t)+op2(t))/2, 2 op1(t)-op2(t), op1(t)+opK(t) with opK = K t, op1(t).matmul(opK(t)) = t K t (non-linear in t), "
        "caller-written classes with self.w and self.sub.w / self.lst[1] / self.dct['k'] (matrix (w+w2)/2 or w K w2), either order of "
        "the two names, t a derived tensor or the leaf itself; kind label sh_<shape>.")
ASSUMPTIONS = [
    "reference gradients by torch autograd through torch.linalg.solve on the dense shifted matrices (float64/complex128)",
    "iterative solvers run with rtol=1e-11, atol=1e-14 (forward and backward) except the default backward above 5 unknowns (rtol 1e-6)",
    "tolerance 50 (k^3 t_f + k t_b + k n eps)(1+|g_ref|), second order x 10 k; k measured by SVD of the dense shifted matrices",
    "cases whose forward/backward solve warned are discarded and counted",
    "sharedparam: parameter names with sub-objects, list indices and dict keys ('sub.w', 'lst[1]', \"dct['k']\") are accepted by "
    "getparamnames (xitorch/_utils/attr.py); constants K (unitary-derived or a detached inverse of A) are not parameters; the composed "
    "matrix equals the target up to cond(A) eps, covered by the k n eps term",
]
LEVEL_TEXT = ("Exploration against a differentiable dense reference built from the same leaves: first- and second-order leaf gradients "
              "of random contractions for every operator kind, method pair, E/M mode and batch pattern.")
LEVEL_NOTE = "trusts torch autograd through torch.linalg.solve; n<=6, cond<=10, batch rank<=2"
TECHNIQUE = "Hypothesis property-based testing: differentiable reference model (autograd through dense solves) for 1st/2nd-order gradients"

TIGHT = 1e-11


def rdot(W, X):
    return (W.conj() * X).real.sum() if X.is_complex() else (W * X).sum()


def fwd_options(method, n):
    if method in ("cg", "bicgstab", "gmres"):
        return {"rtol": TIGHT, "atol": 1e-14, "max_niter": 3 * n + 10}, TIGHT
    if method == "broyden1":
        return {"f_tol": TIGHT, "maxiter": 400}, TIGHT
    return {}, 0.0


# ------------------------------------------------------------------ one tensor object at two different places of an operator
#
# "shape" of the sharing (t = the shared tensor object, K a constant matrix that is not a parameter):
#   add2      (op1(t) + op2(t)) * 0.5                      matrix t          two distinct component objects, names a.a.Mat / a.b.Mat
#   subscale  2 * op1(t) - op2(t)                          matrix t
#   addK      op1(t) + opK(t),  opK's matrix = K t         matrix (I + K) t  (I + K = 1.5 * unitary, t = (I + K)^-1 A)
#   matmul    op1(t).matmul(opK(t))                        matrix t K t      (K = A^-1 detached, t = A: non-linear in t)
#   own / own_list / own_dict   caller-written class holding t as self.w and as self.sub.w / self.lst[1] / self.dct['k'],
#                               both listed by _getparamnames             matrix 0.5 (w + w2)
#   own_quad  the same class (second place self.sub.w)     matrix w K w2     (K = A^-1 detached)
# op1 is any leaf kind of C01 (dense included), op2/opK a user-class leaf (two dense operands would be folded into one matrix).
SHARED_A = ("add2", "subscale", "addK", "matmul", "own", "own_list", "own_dict", "own_quad")
SHARED_M = ("add2", "subscale", "own", "own_list", "own_dict")          # M has to stay (flagged) Hermitian
SECOND_PLACE = {"own": "sub.w", "own_quad": "sub.w", "own_list": "lst[1]", "own_dict": "dct['k']"}


class _Holder(object):
    pass


def _own_class(name, methods, counter, names, matfn):
    """fresh caller-written LinearOperator class whose matrix is matfn(self) and whose parameter names are `names`"""
    import xitorch

    def tick(k):
        counter[k] = counter.get(k, 0) + 1

    def _mv(self, x):
        tick("mv")
        return torch.matmul(matfn(self), x.unsqueeze(-1)).squeeze(-1)

    def _rmv(self, x):
        tick("rmv")
        return torch.matmul(R.H(matfn(self)), x.unsqueeze(-1)).squeeze(-1)

    def _mm(self, x):
        tick("mm")
        return torch.matmul(matfn(self), x)

    def _rmm(self, x):
        tick("rmm")
        return torch.matmul(R.H(matfn(self)), x)

    def _fullmatrix(self):
        tick("fullmatrix")
        return matfn(self)

    def _getparamnames(self, prefix=""):
        return [prefix + nm for nm in names]

    def __init__(self, shape, dtype, is_hermitian, **attrs):
        xitorch.LinearOperator.__init__(self, shape=shape, is_hermitian=is_hermitian, dtype=dtype, device=torch.device("cpu"),
                                        _suppress_hermit_warning=True)
        for k, v in attrs.items():
            setattr(self, k, v)
    impl = {"_mv": _mv, "_rmv": _rmv, "_mm": _mm, "_rmm": _rmm, "_fullmatrix": _fullmatrix}
    body = {m: impl[m] for m in methods}
    body["_getparamnames"] = _getparamnames
    body["__init__"] = __init__
    return type(name, (xitorch.LinearOperator,), body)


def build_shared(shape, t, K, leaf1, leaf2, herm_flag, swapnames, counter):
    """operator holding the tensor object `t` at two different places; returns (operator, its dense matrix built from t)"""
    if shape in ("add2", "subscale", "addK", "matmul"):
        flag = bool(herm_flag) and shape in ("add2", "subscale")
        op1 = R.make_leaf(leaf1, t, flag, counter)
        if shape in ("addK", "matmul"):
            cls = _own_class("SK_" + leaf2, R.METHODSETS[leaf2], counter, ["Mat"], lambda s: torch.matmul(s.K, s.Mat))
            op2 = cls(tuple(t.shape), t.dtype, False, Mat=t, K=K)
        else:
            op2 = R.make_leaf(leaf2, t, flag, counter)
        if shape == "add2":
            return ((op2 + op1) if swapnames else (op1 + op2)) * 0.5, t
        if shape == "subscale":
            return 2 * op1 - op2, t
        if shape == "addK":
            return (op2 + op1) if swapnames else (op1 + op2), t + torch.matmul(K, t)
        return op1.matmul(op2), torch.matmul(t, torch.matmul(K, t))
    second = SECOND_PLACE[shape]
    if second == "sub.w":
        def w2(s):
            return s.sub.w
        sub = _Holder()
        sub.w = t
        attrs = {"sub": sub}
    elif second == "lst[1]":
        def w2(s):
            return s.lst[1]
        attrs = {"lst": [torch.zeros((1,), dtype=t.dtype), t]}
    else:
        def w2(s):
            return s.dct["k"]
        attrs = {"dct": {"k": t}}
    names = [second, "w"] if swapnames else ["w", second]
    if shape == "own_quad":
        cls = _own_class("SQ_" + leaf2, R.METHODSETS[leaf2], counter, names, lambda s: torch.matmul(s.w, torch.matmul(s.K, w2(s))))
        return cls(tuple(t.shape), t.dtype, False, w=t, K=K, **attrs), torch.matmul(t, torch.matmul(K, t))
    cls = _own_class("SO_" + leaf2, R.METHODSETS[leaf2], counter, names, lambda s: 0.5 * (s.w + w2(s)))
    return cls(tuple(t.shape), t.dtype, bool(herm_flag), w=t, **attrs), t


def run_case(case):
    from xitorch.linalg import solve
    import xitorch
    torch.manual_seed(case["seed"] & 0xFFFF)
    g = gen.seeded(case["seed"])
    dt = R.DT[case["dtype"]]
    n, ncols = case["n"], case["ncols"]
    herm = case["spec"] in R.HERMITIAN_SPECTRA
    req = case["req"]
    A0 = R.spectrum_matrix(g, case["bA"], n, dt, case["spec"], float(case["kappa"])).to(dt)
    if herm:
        K = gen.randn(g, A0.shape, dt)
        PA = (0.5 * (A0 + R.H(A0)) + 0.5 * (K - R.H(K))).requires_grad_(req[0])
        A = 0.5 * (PA + R.H(PA))
    else:
        PA = A0.clone().requires_grad_(req[0])
        A = PA if (case.get("shared") or {}).get("direct") else PA * 1.0      # direct: the leaf itself is what the operator holds
    PB = gen.randn(g, (*case["bB"], n, ncols), dt)
    if case["zero"] == "all":
        PB = PB * 0
    elif case["zero"] == "some" and ncols >= 2:
        PB[..., 0] = 0
    PB.requires_grad_(req[1])
    PE = M = PM = None
    em = case["emode"]
    if em in ("E", "EM"):
        u = torch.rand((*case["bE"], ncols), generator=g, dtype=torch.float64)
        mnorm = 2.0 if em == "EM" else 1.0
        if case["spec"] in ("spd", "few_spd") and not case["ecomplex"]:
            Ev = -2.0 * u
        else:
            Ev = (2 * u - 1) * 0.3 / mnorm
        if case["ecomplex"] and dt.is_complex:
            ph = torch.rand((*case["bE"], ncols), generator=g, dtype=torch.float64) * 6.283185307179586
            Ev = Ev * torch.exp(1j * ph)
        PE = Ev.to(dt).requires_grad_(req[2])
    if em in ("EM", "M"):
        M0 = R.spd_matrix(g, case["bM"], n, dt).to(dt)
        Km = gen.randn(g, M0.shape, dt)
        PM = (0.5 * (M0 + R.H(M0)) + 0.5 * (Km - R.H(Km))).requires_grad_(req[3])
        M = 0.5 * (PM + R.H(PM))
    leaves = [t for t in (PA, PB, PE, PM) if t is not None and t.requires_grad]
    names = [nm for nm, t in (("A", PA), ("B", PB), ("E", PE), ("M", PM)) if t is not None and t.requires_grad]
    method = case["method"]
    bck = case["bck"]
    second = case["order"] == 2
    kind = case["kind"]
    if kind == "jac" and (dt.is_complex or case["bA"]):
        kind = "mv_rmv"
    if case.get("shared") and case["shared"]["A"]:
        kind = "sh_" + case["shared"]["A"]
    batchclass = "b%d%d%d%d" % (len(case["bA"]), len(case["bB"]), len(case["bE"]) if PE is not None else 0, len(case["bM"]) if PM is not None else 0)
    labels = ["method=" + method, "bck=" + bck, "emode=" + em, "kind=" + kind, "dtype=" + case["dtype"], "spec=" + case["spec"],
              "batch=" + batchclass, "order=%d" % case["order"], "zero=" + case["zero"], "extra=%s" % case["extra"], "nonlin=%s" % (bool(case.get("nonlin")) and case["kind"] in R.METHODSETS), "reuse=%s" % bool(case.get("reuse"))]
    if case.get("shared"):
        labels += ["sharedA=%s" % case["shared"]["A"], "sharedM=%s" % (case["shared"]["M"] if M is not None else None),
                   "direct=%s" % bool(case["shared"].get("direct") and not herm)]
    if not leaves:
        return discard("nothing_requires_grad", labels)

    counter = {}
    sh = case.get("shared")
    nonlin = bool(case.get("nonlin")) and kind in R.METHODSETS and not sh
    if sh and sh["A"]:
        shape = sh["A"]
        K = None
        t = A
        if shape == "addK":
            P = R.rand_unitary(g, (), n, dt).to(dt) * 1.5
            K = P - torch.eye(n, dtype=dt)
            t = torch.matmul(R.H(P) / 2.25, A)              # (I + K)^-1 A
        elif shape in ("matmul", "own_quad"):
            K = torch.linalg.inv(A.detach())
        Aop, A = xt_call(build_shared, shape, t, K, sh["leaf1"], sh["leaf2"], herm and case["hflag"], sh["swap"], counter, _where="construct")
    elif nonlin:
        # operator non-linear in its own scalar parameter: matrix = A * exp(s); s real so that Hermitian stays Hermitian
        PS = torch.tensor(0.1, dtype=torch.float64, requires_grad=True)
        Aop = xt_call(R.make_nonlin_leaf, kind, A, PS, herm and case["hflag"], counter, _where="construct")
        A = A * torch.exp(PS)
        leaves.append(PS)
        names.append("S")
    else:
        Aop = xt_call(R.make_operator, kind, A, herm and case["hflag"], g, counter, case["leaf"], _where="construct")
    extra = None
    if case["extra"] and kind in ("mv", "mv_rmv", "mv_mm", "all") and not (sh and sh["A"]):
        # a parameter the operator lists but never uses
        extra = torch.full((2,), 0.5, dtype=dt, requires_grad=True)
        Aop.extra = extra
        cls = type(Aop)
        _old = cls._getparamnames
        cls._getparamnames = lambda self, prefix="": _old(self, prefix) + [prefix + "extra"]
    Mop = None
    if M is not None and sh and sh["M"]:
        Mop, M = xt_call(build_shared, sh["M"], M, None, sh["mleaf1"], sh["mleaf2"], True, sh["swap"], counter, _where="construct")
    elif M is not None:
        Mop = xt_call(R.make_leaf, case["mkind"], M, True, counter, _where="construct")
    fopts, tf = fwd_options(method, n)
    if bck == "default":
        bopts = {}
        tb = 1e-6 if n > 5 else 0.0
    elif bck == "exactsolve":
        bopts, tb = {"method": "exactsolve"}, 0.0
    else:
        o, tb = fwd_options(bck, n)
        bopts = dict(o, method=bck)

    with warnings.catch_warnings(record=True) as wlist:
        warnings.simplefilter("always")
        if case.get("reuse"):
            # history on one operator object: an earlier solve differentiated by a plain (non-recorded) backward must not
            # influence a later recorded one (e.g. through state cached on the operator in another autograd mode)
            Xp = xt_call(solve, Aop, PB, PE, Mop, method=method, bck_options=bopts, _where="forward", **fopts)
            if Xp.requires_grad:
                xt_call(torch.autograd.grad, rdot(gen.randn(g, Xp.shape, dt), Xp), leaves, retain_graph=True, allow_unused=True, _where="backward")
            del Xp
        X = xt_call(solve, Aop, PB, PE, Mop, method=method, bck_options=bopts, _where="forward", **fopts)
        W = gen.randn(g, X.shape, dt)
        loss = rdot(W, X)
        wrt = leaves + ([extra] if extra is not None else [])
        if X.requires_grad:
            got = xt_call(torch.autograd.grad, loss, wrt, create_graph=second, retain_graph=True, allow_unused=True, _where="backward")
        else:       # legitimate only if no leaf influences X (judged against the reference below)
            got = [None] * len(wrt)
        got2 = None
        C = [gen.randn(g, t.shape, t.dtype) for t in leaves]
        if second:
            terms = [rdot(c, gk) for c, gk in zip(C, got) if gk is not None and gk.requires_grad]
            if terms:
                got2 = xt_call(torch.autograd.grad, sum(terms), leaves, retain_graph=True, allow_unused=True, _where="backward2")
    warned = [w for w in wlist if issubclass(w.category, xitorch.ConvergenceWarning) or "onverge" in str(w.message)]
    if warned:
        return discard("solver_warned", labels)

    # ---------------- reference
    Eref = PE
    Mref = M if PE is not None else None
    Xref, S = R.dense_solve(A, PB, Eref, Mref)
    if list(Xref.shape) != list(X.shape):
        return violation("shape", "output shape %s, reference %s" % (list(X.shape), list(Xref.shape)), labels)
    sv = torch.linalg.svdvals(S.detach())
    k = float((sv[..., 0] / sv[..., -1]).max())
    eps = 2.3e-16
    base = 50 * (k ** 3 * tf + k * tb + k * n * eps)
    xerr = float((X.detach() - Xref.detach()).abs().max())
    if xerr > base * (1 + float(Xref.detach().abs().max())):
        return violation("forward_value", "silent forward differs from the dense reference by %.3e (tol %.3e)" % (xerr, base), labels)
    lref = rdot(W, Xref)
    if lref.requires_grad:
        ref = torch.autograd.grad(lref, leaves, create_graph=second, retain_graph=True, allow_unused=True)
    else:
        ref = [None] * len(leaves)
    nonzero = False
    mat_nonzero = None
    for nm, t, gk, rk in zip(names, leaves, got, ref):
        rk0 = torch.zeros_like(t) if rk is None else rk.detach()
        gk0 = torch.zeros_like(t) if gk is None else gk.detach()
        if tuple(gk0.shape) != tuple(t.shape):
            return violation("grad_shape", "gradient w.r.t. %s has shape %s, leaf %s" % (nm, tuple(gk0.shape), tuple(t.shape)), labels)
        sc = float(rk0.abs().max())
        err = float((gk0 - rk0).abs().max())
        nonzero = nonzero or sc > 0
        if nm == "A":
            mat_nonzero = sc > 0
        if not err <= base * (1 + sc):
            return violation("grad1_" + nm, "first-order gradient w.r.t. %s: max error %.3e (tol %.3e, |ref| %.3e, cond %.1f); got %s ref %s" % (
                nm, err, base * (1 + sc), sc, k, gk0.reshape(-1)[:3].tolist(), rk0.reshape(-1)[:3].tolist()), labels)
    if extra is not None:
        ge = got[-1]
        if ge is not None and float(ge.abs().max()) != 0.0:
            return violation("unused_param_grad", "listed-but-unused operator parameter received gradient %s" % ge.tolist(), labels)
    if second:
        rterms = [rdot(c, rk) for c, rk in zip(C, ref) if rk is not None and rk.requires_grad]
        if rterms:
            ref2 = torch.autograd.grad(sum(rterms), leaves, allow_unused=True)
            if got2 is None:
                return violation("no_second_graph", "create_graph=True produced gradients without graph", labels)
            base2 = 10 * k * base
            for nm, t, gk, rk in zip(names, leaves, got2, ref2):
                rk0 = torch.zeros_like(t) if rk is None else rk.detach()
                gk0 = torch.zeros_like(t) if gk is None else gk.detach()
                sc = float(rk0.abs().max())
                err = float((gk0 - rk0).abs().max())
                if not err <= base2 * (1 + sc):
                    return violation("grad2_" + nm, "second-order gradient w.r.t. %s: max error %.3e (tol %.3e, |ref| %.3e, cond %.1f); got %s ref %s" % (
                        nm, err, base2 * (1 + sc), sc, k, gk0.reshape(-1)[:3].tolist(), rk0.reshape(-1)[:3].tolist()), labels)
    nt = n >= 2 and (mat_nonzero if mat_nonzero is not None else nonzero)
    key = [method, bck, em, kind, case["dtype"], case["spec"], batchclass, case["order"], n, case["seed"] % 64]
    return ok(labels, bool(nt), key=key)


# ------------------------------------------------------------------ strategy

@st.composite
def case_st(draw, tier="quick"):
    n = draw(st.one_of(st.integers(1, 3), st.integers(2, 6), st.integers(6, 6 if tier == "quick" else 9)))
    ncols = draw(st.integers(1, 3))
    batch = draw(R.batch_st(2))
    if draw(st.integers(0, 9)) == 0:
        kk = draw(st.integers(1, 3))
        n, ncols, batch = kk, kk, [kk]
    method = draw(st.sampled_from(["exactsolve", "custom_exactsolve", "cg", "bicgstab", "gmres", "broyden1"]))
    bck = draw(st.sampled_from(["default", "default", "exactsolve", "cg", "bicgstab", "gmres"]))
    if method == "gmres" or bck == "gmres":
        spec = draw(st.sampled_from(["few_spd", "few_normal"]))
    else:
        spec = draw(st.sampled_from(R.SPECTRA))
    req = [draw(st.sampled_from([True, True, True, False])) for _ in range(4)]
    if not any(req):
        req[0] = True
    return {
        "n": n, "ncols": ncols, "batch": batch,
        "bA": R.sub_batch(draw, batch), "bB": R.sub_batch(draw, batch), "bE": R.sub_batch(draw, batch), "bM": R.sub_batch(draw, batch),
        "dtype": draw(st.sampled_from(["f64", "c128"])), "spec": spec, "kappa": draw(st.sampled_from([2, 5, 10])),
        "kind": draw(st.sampled_from(R.KINDS)), "leaf": draw(st.sampled_from(["dense", "mv", "mv_rmv", "all"])),
        "mkind": draw(st.sampled_from(["dense", "mv", "all"])), "hflag": draw(st.sampled_from([True, True, False])),
        "method": method, "bck": bck, "emode": draw(st.sampled_from(["none", "E", "E", "EM", "EM", "EM", "M"])),
        "ecomplex": draw(st.booleans()), "req": req, "order": draw(st.sampled_from([1, 1, 2])),
        "zero": draw(st.sampled_from(["none"] * 6 + ["some", "all"])), "extra": draw(st.sampled_from([False, False, True])), "nonlin": draw(st.sampled_from([False, True])), "reuse": draw(st.sampled_from([False, False, True])),
        "seed": draw(st.integers(0, 2 ** 31 - 1)),
    }


@st.composite
def shared_st(draw, tier="quick"):
    """one tensor object held at two different places of A and/or M (see build_shared); the gradient w.r.t. the matrix leaf is
    always requested and the forward method is mostly one that goes through the implicit backward"""
    case = draw(case_st(tier))
    case["n"] = max(2, case["n"])
    case["req"][0] = True
    case["zero"], case["extra"], case["nonlin"] = "none", False, False
    where = draw(st.sampled_from(["A", "A", "A", "M", "AM"]))
    if where in ("M", "AM"):
        case["emode"] = "EM"
        case["req"][3] = True
    if draw(st.integers(0, 7)) != 0 and case["method"] == "exactsolve":
        case["method"] = "custom_exactsolve"
    if draw(st.integers(0, 2)) != 0:            # gmres mostly warns (discarded) once E M shifts the few distinct eigenvalues apart
        case["method"] = "bicgstab" if case["method"] == "gmres" else case["method"]
        case["bck"] = "bicgstab" if case["bck"] == "gmres" else case["bck"]
    shA = draw(st.sampled_from(SHARED_A)) if where in ("A", "AM") else None
    nondense = ["mv", "mv_rmv", "mv_mm", "all"]
    case["shared"] = {
        "A": shA, "M": draw(st.sampled_from(SHARED_M)) if where in ("M", "AM") else None,
        "leaf1": draw(st.sampled_from(nondense if shA == "subscale" else ["dense"] + nondense)), "leaf2": draw(st.sampled_from(nondense)),
        "mleaf1": draw(st.sampled_from(nondense)), "mleaf2": draw(st.sampled_from(nondense)),
        "swap": draw(st.booleans()), "direct": draw(st.booleans()),
    }
    return case


def tasks(tier):
    return [Task("solvegrad", strategy=case_st(tier), run=run_case, examples={"quick": 1600, "thorough": 24000}),
            Task("sharedparam", strategy=shared_st(tier), run=run_case, examples={"quick": 500, "thorough": 6000})]
