"""C18 — results and gradients do not depend on how the forward solution was produced.

Three tasks over the functionals solve, symeig (+svd), rootfinder, equilibrium, minimize, solve_ivp, quad, mcquad,
Interp1D, SQuad:

  names    every built-in method name under a random upper/lower-case pattern (as `method`, and as
           bck_options["method"] where the backward is itself a functional call) must behave *bit-identically* to the
           lower-case name: same values, same first- and second-order gradients (torch RNG reseeded before each run).
  unknown  a string that is not a member of the functional's method table (random letters, a member with one character
           appended / removed, a member of another functional's table, the empty string) must raise at the call (or,
           as bck_options["method"], in the backward) instead of silently using a default.
  custom   a caller-supplied callable as `method`:
             closed — computes the answer in closed form from the arguments it receives, graph-free;
             wrap   — forwards its arguments to a built-in implementation.
           Observed: positional arguments (documented signature = the functional's own without bck_options/method),
           keyword arguments (exactly the caller's fwd options; in the backward of solve_ivp/quad the documented merge
           "bck_options, unspecified fields from fwd_options"), torch.is_grad_enabled()==False (functionals only:
           Interp1D/SQuad are documented as differentiated through the implementation), and the functional returns
           the callable's value.  closed: first/second-order gradients are compared with autograd through an independent
           plain-torch closed form of the solution; wrap: values and gradients must be bit-identical to passing the
           built-in's name with the same options.  A second recording callable is passed as bck_options["method"]
           (solve family: the backward linear solve) and must see exactly the bck options.
           Who does the nested solves / integrations of every differentiation order (orders 1, 2 and, where a backward method of
           the caller can be observed, 3; the third order only serves these observations and the bit-identity of wrapped
           built-ins, its values are not compared with a reference):
             * every call of the backward callable, at whatever nesting depth (backward of the backward solve, adjoint of the
               adjoint integration), must carry the documented options and run with gradient recording disabled;
             * calls are counted per differentiation pass (c1, c2, c3).  The first-order gradient of solve / symeig / svd /
               rootfinder / equilibrium / minimize / solve_ivp is a function of the functional's own output and of the results
               of the c1 first-order backward solves (integrations): differentiating it differentiates each of those (one solve
               each, configured by the same bck_options) and re-enters the functional's backward on a new cotangent (c1 solves
               again): c2 >= 2 c1, and likewise c3 >= 2 c2.  quad's gradient does not contain the integral: c2 >= c1, c3 >= c2.
               Fewer calls mean that some other solver did the rest (the automatic default instead of the caller's method);
             * the backward callable is the only accurate solver at hand: it is an exact dense solve, and with it the problem may
               have more than 5 unknowns behind a LinearOperator that is not a plain matrix (solve: the caller's own subclass;
               root family: the Jacobian operator), where the automatic default is cg / bicgstab at relative residual 1e-6 —
               4-5 orders of magnitude above the second-order tolerance; for solve_ivp / quad it is an accurate integrator
               (rk45 at 1e-10 / 24-point Gauss) that does not read the options it is handed, while those contain no tolerance
               (quad: n=2), so that a built-in given the same options misses the closed-form reference.
           mcquad's backward re-uses the forward samples (no nested sampler call): values only.

Tolerances (closed; all float64, eps = 2.2e-16; relative to scale = 1 + max|reference|; first / second order):
  solve        X = (A - e M)^-1 B with kappa(A - e M) <= 3 (sym) or sigma in [0.7, 3.3] (gen) by construction, for every n; the
               backward is a dense solve (n <= 4: exactsolve or the recording callable; 8 <= n <= 12: only with the recording
               exact callable as backward method): error <= c n kappa^2 eps (first), c n kappa^3 eps (second), c ~ 30, n <= 12
               -> 1e-12 / 1e-11 (largest observed ratio error/tolerance 5e-4 for n <= 4, 1e-3 for n <= 12).
  symeig/svd   spectral gaps >= 0.5, |lambda| <= 5, kappa(M) <= 2.  Values 1e-10.  The implicit backward solves the shifted
               system (A - lambda_i M) x = b, singular to rounding, densely and projects the eigenvector component
               alpha_i = O(eps/delta_i) out again (delta_i = distance to exact singularity, a rounding accident with a 1/x
               tail: alpha ~ 1e1..1e5 observed in 1e4 cases).  First-order error = O(eps alpha) -> tolerance 1e-6 (alpha > 1e10
               does not happen in double precision short of an exactly singular LU).  Second-order error = O(eps alpha^2) with
               alpha measured by the case's own first-order error: tolerance 1e-8 + 100 err1^2/eps.  In addition the built-in
               custom_exacteig is run on the same problem: when its forward values are bit-identical to the callable's
               (always, by construction) the first/second-order gradients must be bit-identical too.
  root family  y* = K^-1 asinh(c), kappa(K) <= 3, Jacobian (K^T) diag(cosh) K-type with kappa <= 15 (bounds on the spectrum of K and
               on |c|, independent of n), dense backward solve (n <= 3 any backward; 6 <= n <= 10 only with the recording exact
               callable) -> 1e-12 / 1e-11 (observed ratio <= 1e-3 for n <= 3, <= 3e-3 for n <= 10).
  solve_ivp    closed form expm; backward by rk45 with rtol = atol = 1e-10 (named in bck_options, or the caller's callable that runs
               rk45 at these tolerances whatever options it is handed): local error per step <= 1e-10 scale,
               <= ~50 steps over <= 1.8 time units, amplification exp(|A| T) <= ~9 -> 5e-8 first order, 5e-7 second order
               (the second-order pass integrates the first-order pass's own adjoint; observed ratio <= 1e-3).
  quad         closed form; backward by 24-point Gauss-Legendre (named, or the caller's callable) on an entire integrand with |a (xu - xl)| <= 6:
               truncation << eps, rounding <= 1e2 n eps -> 1e-12 / 1e-11 (observed ratio <= 2e-3).
  mcquad       sampler = fixed nodes with self-normalised weights prop. to p: the estimator is an explicit finite sum,
               whose autograd derivatives coincide with mcquad's score-function backward -> 1e-12 / 1e-11.
  Interp1D/SQuad  piecewise-linear / trapezoid formulas in plain torch -> 1e-13 / 1e-12.

Units of measurement and spellings of `mode` (all three tasks):
  * the data carry a unit drawn from 1e-20 .. 1e6 (right-hand side of solve, the matrix of symeig / svd, the residual / objective of the
    root family, y0, the integrand, ordinates; admissible sets per functional in unit_choices) and the cotangent a magnitude drawn from
    1e-20 .. 1e6.  Every functional is homogeneous in that unit, the gradients are linear in the cotangent, and all bounds above are
    relative: the comparison scales become  unit + max|reference|.  A right-hand side / cotangent in tiny units is not zero: the caller's
    callable (forward and backward) must be called for it and its result returned; only an exactly zero B is documented to be short-cut.
  * symeig / svd are called with `mode` in any letter case of the documented values "lowest", "uppest", "uppermost" (symeig lower-cases
    it and maps the alias before the default method sees it).  The caller-supplied callable must be handed one of the documented values,
    with the caller's meaning; names / wrap compare bit-for-bit with the run that spells `mode` canonically ("lowest" / "uppest"), so
    every built-in and every wrapped built-in has to return the same end of the spectrum for every spelling; closed compares with the
    dense reference for the canonical meaning.
"""
from __future__ import annotations

import math

import numpy as np
import torch
from hypothesis import strategies as st

from pbt import gen
from pbt.harness import Task, ok, violation, discard, xt_call, XitorchRaised

PID = "C18"
RULE = ("names: functional x built-in name x random case pattern (>=1 upper-case letter) x {as method, as bck_options.method} x order 1/2, "
        "compared bit-for-bit with the lower-case name; unknown: functional x non-member string (random letters, member+char, member-char, "
        "member with an inserted char, member of another table, empty) x {method, bck_options.method}; custom: functional x {closed-form "
        "callable, callable wrapping each built-in} x callable flavour (function, object, unhashable object, partial, bound method) x fwd "
        "option dict (0-3 keys, free and real option names, JSON values) x bck option dict (incl. a recording callable as backward method) "
        "x order 1/2(/3) x operator kind (matrix / the caller's own subclass) x size class. The finite part of the quantifier is also enumerated on every run (tasks *_all): every functional x every built-in "
        "name x {UPPER, Capitalised, aLtErNaTiNg} x order 1/2 (+ every backward method name), every functional x {empty, name+'x', "
        "name minus last char, name with '_' inserted}, every functional x {closed, each wrappable built-in} x order 1/2 x {no bck_options, "
        "recording backward callable}, with problem data re-drawn from VERIF_SEED. Tiny problems (n<=5) with closed-form solutions; with a "
        "recording exact backward callable also 8-12 unknowns behind the caller's own (non-matrix) LinearOperator (solve) and 6-10 unknowns "
        "(rootfinder/equilibrium/minimize), where the automatic backward solver would be iterative. Order 3 where a backward method of the "
        "caller is observable: calls of the backward callable are counted per differentiation pass (c2 >= 2 c1, c3 >= 2 c2; quad c2 >= c1) "
        "and every nested call must carry the documented options with grad mode off. "
        "All tasks: data in units 1e-12..1e6 (1e-20 with closed-form callables; per functional: unit_choices) and cotangents of magnitude 1e-10..1e6 (1e-20 with closed-form callables); symeig/svd `mode` in 12 "
        "spellings (letter cases of lowest/uppest/uppermost), compared with the canonical spelling and checked as seen by the callable. "
        "Non-trivial = the run differentiated at least one leaf with a non-zero reference/first gradient (names, custom) or the rejection "
        "was observed (unknown); distinct by canonical case.")
ASSUMPTIONS = [
    "float64; problems are well conditioned by construction (kappa<=3 for linear systems, spectral gaps>=0.5, contraction<=0.6)",
    "custom callable signature = the functional's own signature without bck_options/method (doc/getstart/custom_method.rst); for mcquad the "
    "callable is a sampler (logpfcn, x0, pparams, **opts) -> (xsamples, wsamples) as the built-in samplers; for equilibrium/minimize the "
    "function handed to the callable may be the root form / the (value, gradient) form used by the built-in methods",
    "solve is never given B == 0 with a callable (the documented zero short-cut does not call any method); a right-hand side or cotangent "
    "in tiny units (entries down to ~1e-20, products with the cotangent down to ~1e-40) is not zero and is solved by the caller's method",
    "units: the functionals are homogeneous in the unit of their data and all tolerances are relative to unit + max|reference|; excluded by "
    "construction where an ABSOLUTE documented threshold or the caller's own function breaks the homogeneity: symeig units >= 1e-4 (degen_atol), "
    "svd 1e-2..1e3 (Gram operator squares the unit), equilibrium with the closed-form comparison d in [0.125, 0.5] (y - f(y) cancels), "
    "solve_ivp with the closed-form comparison unit 1 (atol of the adaptive backward integrator); built-in root finders units <= 1",
    "symeig/svd `mode`: the docstring names \"lowest\", \"uppermost\"/\"uppest\"; other letter cases are accepted by symeig itself (lower-cased "
    "before the default method) and therefore must mean the same for every other method; a callable is handed one of the three documented "
    "lower-case values (the alias \"uppermost\" would be accepted as seen by the callable)",
    "solve_ivp is not differentiated w.r.t. ts; mcquad tensors each enter f or log p (no unused tensors); symeig spectra are separated",
    "bit-identity of name variants assumes single-threaded deterministic torch kernels and reseeding the global RNG before each run",
    "closed-form tolerances as derived in the module docstring; the independent reference is autograd through plain-torch closed forms",
    "bck_options govern every linear solve / integration of every differentiation order (the backward of the backward solve is configured "
    "by the same bck_options; solve_ivp/quad: bck_options with unspecified fields from the forward options, at every nesting depth)",
    "call counts: reverse-mode differentiation visits every implicit node once per pass and each visit of a solve / root / eigen / ivp node "
    "is one backward solve (per output interval for solve_ivp); the first-order gradient depends on the functional's output except for quad; "
    "cotangents are random normal, so no nested right-hand side is exactly zero (the documented zero short-cut calls no method)",
    "third-order values are not compared with a reference (the statement covers first and second order); they are compared bit-for-bit "
    "between a callable wrapping a built-in and the built-in's name",
]
LEVEL_TEXT = ("Exploration over functionals x methods x option dictionaries x derivative order with recording callables as the observation "
              "points; differential (bit-exact) oracle for name variants and wrapped built-ins, closed-form autograd reference for graph-free "
              "callables, rejection oracle for non-member names.")
LEVEL_NOTE = "trusts torch autograd/linalg on the plain-torch closed forms; sizes n<=5 (n<=12 with an exact backward callable)"
TECHNIQUE = "Hypothesis property-based testing: recording callables + differential and closed-form oracles"
WALL = {"quick": 300, "thorough": 1500}

DT = torch.float64

SOLVE_NAMES = ["exactsolve", "custom_exactsolve", "cg", "bicgstab", "gmres", "broyden1"]
EIG_NAMES = ["exacteig", "custom_exacteig", "davidson"]
RF_NAMES = ["newton", "broyden1", "broyden2", "linearmixing"]
IVP_NAMES = ["rk4", "rk38", "rk23", "rk45", "euler"]
BUILTINS = {
    "solve": SOLVE_NAMES,
    "symeig": EIG_NAMES,
    "svd": EIG_NAMES,
    "rootfinder": RF_NAMES,
    "equilibrium": RF_NAMES + ["anderson_acc"],
    "minimize": RF_NAMES + ["gd", "adam"],
    "solve_ivp": IVP_NAMES,
    "quad": ["leggauss"],
    "mcquad": ["mh", "mhcustom", "_dummy1d"],
    "interp1d": ["cspline", "linear"],
    "squad": ["cspline", "simpson", "trapz"],
}
# every name any table knows (a non-member must not be in the functional's own table; "scipy_gmres" is a member of solve's)
EXTRA_MEMBERS = {"solve": ["scipy_gmres"]}
# functional whose backward is a call of another functional that takes bck_options["method"]
BCK_NAMES = {
    "solve": SOLVE_NAMES, "symeig": SOLVE_NAMES, "svd": SOLVE_NAMES, "rootfinder": SOLVE_NAMES, "equilibrium": SOLVE_NAMES,
    "minimize": SOLVE_NAMES, "solve_ivp": IVP_NAMES, "quad": ["leggauss"],
}
FUNCTIONALS = list(BUILTINS)
# forward methods whose backward is plain autograd through the implementation (bck_options are not consulted)
DIRECT = {"exactsolve", "exacteig"}


# ------------------------------------------------------------------------------------------------
# small helpers

def _orth(g, n):
    q, _ = torch.linalg.qr(torch.randn((n, n), generator=g, dtype=DT))
    return q


def _sym(a):
    return 0.5 * (a + a.transpose(-2, -1))


def _leaf(t, req=True):
    return t.detach().clone().requires_grad_(req)


def _rand(g, shape, lo, hi):
    return lo + (hi - lo) * torch.rand(shape, generator=g, dtype=DT)


# units of measurement.  Every functional is homogeneous in the unit of its data (a linear system / an integral / an interpolant in the
# unit of the right-hand side / integrand / ordinates, an eigenproblem in the unit of A, a root in the unit of the residual) and the
# gradients are linear in the cotangent: values and gradients in small or large units are the unit-1 values times the unit.  All error
# bounds of the docstring are relative, so the comparison scales become  unit + max|reference|  instead of  1 + max|reference|.
UNITS_FULL = [1e-20, 1e-12, 1e-9, 1e-6, 1e-3, 1.0, 1.0, 1e3, 1e6]
COTS_FULL = [1e-20, 1e-10, 1e-7, 1e-4, 1.0, 1.0, 1e3, 1e6]


def unit_choices(fn, exact):
    """admissible units of the data of `fn`; exact = the gradients are compared with the closed-form reference (otherwise only
    bit-for-bit between two spellings / a wrapped built-in and its name, where any unit is admissible that keeps the iterations finite)"""
    if fn == "symeig":
        # eigenvalue gaps are >= 0.5 unit; the implicit backward treats gaps below degen_atol (an ABSOLUTE, documented threshold,
        # default eps^0.6 = 4e-10, drawn values <= 1e-7) as degenerate: units >= 1e-4 keep the spectrum separated by that criterion
        return [1e-4, 1e-2, 1.0, 1.0, 1e3, 1e6]
    if fn == "svd":
        return [1e-2, 1e-1, 1.0, 1.0, 1e2, 1e3]      # the Gram operator carries the square of the unit
    if fn == "equilibrium":
        # y -> y - d (sinh(K y) - c) stays a contraction for d <= 0.5.  The root form y - f(y) = d (sinh(K y) - c) and its Jacobian are
        # obtained by subtraction from y / the identity: their relative accuracy is eps / d (a property of the caller's function, not
        # of xitorch), so the closed-form comparison keeps d in [0.125, 0.5]
        return [0.25, 0.5, 1.0, 1.0] if exact else [1e-12, 1e-9, 1e-6, 1e-3, 1.0, 1.0]
    if fn in ("rootfinder", "minimize"):
        return UNITS_FULL if exact else [1e-12, 1e-9, 1e-6, 1e-3, 1.0, 1.0]   # built-in iterations stay finite for residual units <= 1
    if fn == "solve_ivp":
        # the adaptive integrator of the backward pass measures its error by rtol * |augmented state| + atol (absolute): with state,
        # adjoint and parameter gradients in different units the documented accuracy is relative to the largest of them only
        return [1.0] if exact else UNITS_FULL[1:]
    return UNITS_FULL if exact else UNITS_FULL[1:]


def cot_choices(fn, exact):
    # the extreme magnitude 1e-20 only where every solve is a direct one (closed-form / recording callables, exactsolve): the iterative
    # built-ins carry absolute safeguards of their own (broyden1 as a linear solver gives up with "Jacobian inversion yielded zero vector"
    # for a right-hand side of 1e-20), which is not this property's subject
    if fn == "solve_ivp" and exact:
        return [1.0]
    return COTS_FULL if exact else COTS_FULL[1:]


def canon_mode(mode):
    """the two documented values of symeig's / svd's `mode` ("uppermost" is the documented alias of "uppest")"""
    m = mode.lower()
    return "uppest" if m == "uppermost" else m


MODE_SPELLINGS = ["lowest", "uppest", "uppermost", "Lowest", "LOWEST", "lOwEsT", "Uppest", "UPPEST", "uPpEsT", "Uppermost", "UPPERMOST",
                  "upperMost"]


def variant(name, mask):
    """apply an upper-case mask (list of 0/1, cycled) to a name"""
    out = []
    for i, ch in enumerate(name):
        out.append(ch.upper() if mask[i % len(mask)] else ch)
    return "".join(out)


class Rec:
    """recording wrapper: every call logs positional args, kwargs, grad mode and (a detached copy of) the returned value"""

    def __init__(self, impl):
        self.impl = impl
        self.calls = []

    def __call__(self, *args, **kwargs):
        entry = {"args": args, "kwargs": dict(kwargs), "grad": torch.is_grad_enabled()}
        self.calls.append(entry)
        ret = self.impl(*args, **kwargs)
        entry["ret"] = ret
        return ret


class _Unhashable:
    """a callable object of a class that defines __eq__ without __hash__ (what @dataclass produces by default)"""
    __hash__ = None

    def __init__(self, inner):
        self.inner = inner

    def __eq__(self, other):
        return isinstance(other, _Unhashable) and other.inner is self.inner

    def __call__(self, *args, **kwargs):
        return self.inner(*args, **kwargs)


def flavoured(rec, flavor):
    """the same recording callable as a plain function / callable object / unhashable callable object / partial / bound method"""
    import functools
    if flavor == "function":
        def method_function(*args, **kwargs):
            return rec(*args, **kwargs)
        return method_function
    if flavor == "object":
        return rec
    if flavor == "unhashable":
        return _Unhashable(rec)
    if flavor == "partial":
        return functools.partial(rec)
    if flavor == "boundmethod":
        return rec.__call__
    raise ValueError(flavor)


FLAVORS = ["function", "object", "unhashable", "partial", "boundmethod"]


def _same_opts(got, want):
    if set(got) != set(want):
        return False
    for k in want:
        a, b = got[k], want[k]
        if a is b:
            continue
        if type(a) is not type(b) or a != b:
            return False
    return True


# ------------------------------------------------------------------------------------------------
# problems.  Each has: leaves, run(method, fwd, bck) -> list of output tensors, ref() -> list of reference outputs

_OPCLS = {}


def mv_operator(mat, herm):
    """the caller's own LinearOperator subclass (products only: not a MatrixLinearOperator, so that the automatic choice of a
    solver for more than 5 rows is an iterative one)"""
    if "cls" not in _OPCLS:
        import xitorch

        class ProductOperator(xitorch.LinearOperator):
            def __init__(self, mat, herm):
                super().__init__(shape=mat.shape, is_hermitian=herm, dtype=mat.dtype, device=mat.device)
                self.mat = mat

            def _mv(self, x):
                return torch.matmul(self.mat, x.unsqueeze(-1)).squeeze(-1)

            def _rmv(self, x):
                return torch.matmul(self.mat.transpose(-2, -1), x.unsqueeze(-1)).squeeze(-1)

            def _getparamnames(self, prefix=""):
                return [prefix + "mat"]
        _OPCLS["cls"] = ProductOperator
    return _OPCLS["cls"](mat, herm)


class SolveProblem:
    name = "solve"
    tol = (1e-12, 1e-11)

    def __init__(self, case, g):
        p = case["prob"]
        n, nc = p["n"], p["ncols"]
        self.sym = p["sym"]
        self.n, self.nc = n, nc
        self.op = p.get("op", "matrix")
        if self.sym:
            q = _orth(g, n)
            a = (q * _rand(g, (n,), 1.0, 3.0)) @ q.T
        else:
            a = (_orth(g, n) * _rand(g, (n,), 1.0, 3.0)) @ _orth(g, n).T
        self.La = _leaf(a)
        u = float(p.get("unit", 1.0))
        self.unit = u
        self.B = _leaf(u * (torch.randn((n, nc), generator=g, dtype=DT) + 0.1))
        if p.get("zeroB"):
            self.B = torch.zeros((n, nc), dtype=DT)
        self.E = None
        self.Lm = None
        if p["E"]:
            # sym: A - e M with e <= 0 stays SPD (lambda_min >= 1); gen: |e| <= 0.3 keeps sigma_min >= 0.7
            self.E = _leaf(_rand(g, (nc,), -1.0, 0.0) if self.sym else _rand(g, (nc,), -0.3, 0.3))
            if p["M"] and self.sym:
                q = _orth(g, n)
                self.Lm = _leaf((q * _rand(g, (n,), 0.5, 1.5)) @ q.T)
        self.leaves = [t for t in (self.La, self.B, self.E, self.Lm) if t is not None and t.requires_grad]
        self.leaf_units = [uu for t, uu in ((self.La, 1.0), (self.B, u), (self.E, 1.0), (self.Lm, 1.0)) if t is not None and t.requires_grad]
        self.out_units = [u]

    def mats(self):
        A = _sym(self.La) if self.sym else self.La
        M = _sym(self.Lm) if self.Lm is not None else None
        return A, M

    def run(self, method, fwd, bck):
        from xitorch import LinearOperator
        from xitorch.linalg import solve
        A, M = self.mats()
        Aop = LinearOperator.m(A, is_hermitian=self.sym) if self.op == "matrix" else mv_operator(A, self.sym)
        Mop = LinearOperator.m(M, is_hermitian=True) if M is not None else None
        kw = dict(fwd)
        if bck is not None:
            kw["bck_options"] = bck
        return [solve(Aop, self.B, self.E, Mop, method=method, **kw)]

    def ref(self):
        A, M = self.mats()
        if self.E is None:
            return [torch.linalg.solve(A, self.B)]
        eye = torch.eye(self.n, dtype=DT)
        cols = []
        for j in range(self.nc):
            Aj = A - self.E[j] * (M if M is not None else eye)
            cols.append(torch.linalg.solve(Aj, self.B[:, j]))
        return [torch.stack(cols, dim=-1)]


def dense_solve(A, B, E=None, M=None):
    """closed-form solve from the operator arguments (what a user's direct solver would do); graph-free"""
    Am = A.fullmatrix()
    if E is None:
        return torch.linalg.solve(Am, B)
    Mm = M.fullmatrix() if M is not None else torch.eye(Am.shape[-1], dtype=Am.dtype)
    cols = [torch.linalg.solve(Am - E[..., j] * Mm, B[..., j]) for j in range(B.shape[-1])]
    return torch.stack(cols, dim=-1)


class SymeigProblem:
    name = "symeig"
    tolv = 1e-10
    tol = (1e-6, 1e-8)
    adaptive2 = True

    def __init__(self, case, g):
        p = case["prob"]
        n = p["n"]
        self.n = n
        self.neig = p["neig"]           # may be None (all)
        self.mode = p["mode"]           # as the caller writes it (any case / "uppermost")
        lam = torch.arange(n, dtype=DT) * 0.8 + _rand(g, (n,), 0.0, 0.3) - 1.0   # gaps >= 0.5, |lam| <= 5
        lam = lam[torch.randperm(n, generator=g)]
        q = _orth(g, n)
        core = (q * lam) @ q.T
        self.Lm = None
        if p["M"]:
            L = torch.eye(n, dtype=DT) + 0.2 * torch.tril(torch.randn((n, n), generator=g, dtype=DT), -1)
            self.Lm = _leaf(L @ L.T)
            core = L @ core @ L.T
        u = float(p.get("unit", 1.0))
        self.unit = u
        self.La = _leaf(u * core)
        self.leaves = [t for t in (self.La, self.Lm) if t is not None]
        self.leaf_units = [u] + ([1.0] if self.Lm is not None else [])
        self.out_units = [u, 1.0]

    def k(self):
        return self.n if self.neig is None else self.neig

    def norm_mode(self):
        return canon_mode(self.mode)

    @staticmethod
    def post(evals, evecs):
        return [evals, evecs * evecs]     # invariant under the sign of each eigenvector

    def run(self, method, fwd, bck):
        from xitorch import LinearOperator
        from xitorch.linalg import symeig
        Aop = LinearOperator.m(_sym(self.La), is_hermitian=True)
        Mop = LinearOperator.m(_sym(self.Lm), is_hermitian=True) if self.Lm is not None else None
        kw = dict(fwd)
        if bck is not None:
            kw["bck_options"] = bck
        evals, evecs = symeig(Aop, self.neig, self.mode, Mop, method=method, **kw)
        self.raw = (evals, evecs)
        return self.post(evals, evecs)

    def ref(self):
        evals, evecs = dense_eig(_sym(self.La), self.k(), self.norm_mode(), _sym(self.Lm) if self.Lm is not None else None)
        return self.post(evals, evecs)


def dense_eig(A, neig, mode, M=None):
    if M is None:
        w, v = torch.linalg.eigh(A)
    else:
        L = torch.linalg.cholesky(M)
        Li = torch.inverse(L)
        LiT = Li.transpose(-2, -1)
        w, v = torch.linalg.eigh(torch.matmul(Li, torch.matmul(A, LiT)))
    n = A.shape[-1]
    if mode == "lowest":
        w, v = w[..., :neig], v[..., :neig]
    else:
        w, v = w[..., n - neig:], v[..., n - neig:]
    if M is not None:
        v = torch.matmul(LiT, v)
    return w, v


class SvdProblem:
    name = "svd"
    tolv = 1e-10
    tol = (1e-6, 1e-8)
    adaptive2 = True

    def __init__(self, case, g):
        p = case["prob"]
        m, n = p["m"], p["n"]
        k = min(m, n)
        s = torch.arange(k, dtype=DT) * 0.7 + 1.0 + _rand(g, (k,), 0.0, 0.2)
        u = _orth(g, m)[:, :k]
        v = _orth(g, n)[:, :k]
        un = float(p.get("unit", 1.0))
        self.unit = un
        self.La = _leaf(un * ((u * s) @ v.T))
        self.k = p["k"]
        self.mode = p["mode"]
        self.leaves = [self.La]
        self.leaf_units = [un]
        self.out_units = [un, 1.0]

    def norm_mode(self):
        return canon_mode(self.mode)

    def run(self, method, fwd, bck):
        from xitorch import LinearOperator
        from xitorch.linalg import svd
        kw = dict(fwd)
        if bck is not None:
            kw["bck_options"] = bck
        u, s, vh = svd(LinearOperator.m(self.La), self.k, self.mode, method=method, **kw)
        return [s, torch.einsum("ik,kj->kij", u, vh)]

    def ref(self):
        u, s, vh = torch.linalg.svd(self.La, full_matrices=False)
        k = self.k
        if self.norm_mode() == "lowest":
            idx = torch.arange(s.shape[0] - 1, s.shape[0] - 1 - k, -1)   # ascending order of the lowest k
        else:
            idx = torch.arange(k - 1, -1, -1)                              # symeig order: ascending eigenvalues
        u, s, vh = u[:, idx], s[idx], vh[idx, :]
        return [s, torch.einsum("ik,kj->kij", u, vh)]


class RootProblem:
    """sinh(K y) = c  <=>  y* = K^-1 asinh(c); the three optimisers share the solution"""
    tol = (1e-12, 1e-11)

    def __init__(self, case, g):
        p = case["prob"]
        self.name = case["fn"]
        n = p["n"]
        self.n = n
        q1, q2 = _orth(g, n), _orth(g, n)
        self.K = _leaf((q1 * _rand(g, (n,), 0.8, 1.4)) @ q1.T + 0.15 * (q2 - q2.T))
        self.c = _leaf(_rand(g, (n,), -1.0, 1.0))
        r = float(p.get("unit", 1.0))       # unit of the residual / of the objective (equilibrium: of the relaxation d)
        self.unit = r
        self.d = _leaf(torch.tensor(0.5 * r, dtype=DT)) if self.name == "equilibrium" else None
        self.y0 = torch.zeros((n,), dtype=DT)
        self.leaves = [t for t in (self.K, self.c, self.d) if t is not None]
        self.leaf_units = [1.0, 1.0] + ([r] if self.d is not None else [])
        self.out_units = [1.0]

        # the caller's functions (pure functions with explicit parameters)
        def f_root(y, K, c):
            return r * (torch.sinh(K @ y) - c)

        def f_equil(y, K, c, d):
            return y - d * (torch.sinh(K @ y) - c)

        def f_min(y, K, c):
            z = K @ y
            return r * (torch.cosh(z).sum() - (c * z).sum())
        self.f_root, self.f_equil, self.f_min = f_root, f_equil, f_min

    def fcn(self):
        return {"rootfinder": self.f_root, "equilibrium": self.f_equil, "minimize": self.f_min}[self.name]

    def params(self):
        return (self.K, self.c) if self.d is None else (self.K, self.c, self.d)

    def run(self, method, fwd, bck):
        from xitorch import optimize
        fn = getattr(optimize, self.name)
        kw = dict(fwd)
        if bck is not None:
            kw["bck_options"] = bck
        return [fn(self.fcn(), self.y0, self.params(), method=method, **kw)]

    def ref(self):
        y = torch.linalg.solve(self.K, torch.asinh(self.c))
        return [y]


class IvpProblem:
    name = "solve_ivp"
    tol = (5e-8, 5e-7)

    def __init__(self, case, g):
        p = case["prob"]
        self.A = _leaf(0.6 * torch.randn((2, 2), generator=g, dtype=DT))
        u = float(p.get("unit", 1.0))
        self.unit = u
        self.y0 = _leaf(u * torch.randn((2,), generator=g, dtype=DT))
        self.leaf_units = [1.0, u]
        self.out_units = [u]
        steps = torch.tensor(p["steps"], dtype=DT)          # each in [0.2, 0.6], <= 3 steps
        sgn = -1.0 if p["backward_time"] else 1.0
        self.ts = torch.cat([torch.zeros(1, dtype=DT), torch.cumsum(steps, 0)]) * sgn + p["t0"]
        self.ystate = p.get("ystate", "tensor")
        self.leaves = [self.A, self.y0]

    @staticmethod
    def fcn(t, y, A):
        return A @ y

    def run(self, method, fwd, bck):
        from xitorch.integrate import solve_ivp
        kw = dict(fwd)
        if bck is not None:
            kw["bck_options"] = bck
        if self.ystate == "tensor":
            return [solve_ivp(self.fcn, self.ts, self.y0, (self.A,), method=method, **kw)]
        # the documented other form of the state: a list / tuple of tensors (here the two components as separate (1,) tensors); the
        # caller's method and both option sets must be honoured exactly as for a tensor state
        seq = tuple if self.ystate == "tuple" else list

        def fcn_seq(t, ys, A):
            dy = A @ torch.cat([y.reshape(-1) for y in ys])
            return seq([dy[:1], dy[1:]])
        res = solve_ivp(fcn_seq, self.ts, seq([self.y0[:1], self.y0[1:]]), (self.A,), method=method, **kw)
        assert isinstance(res, (list, tuple)) and len(res) == 2, "state given as a sequence: the result must be a sequence of the same length"
        return [torch.cat([r.reshape(len(self.ts), -1) for r in res], dim=-1)]

    def ref(self):
        return [torch.stack([torch.matrix_exp(self.A * (t - self.ts[0])) @ self.y0 for t in self.ts])]


class QuadProblem:
    name = "quad"
    tol = (1e-12, 1e-11)

    def __init__(self, case, g):
        p = case["prob"]
        m = p["m"]
        self.m = m
        self.a = _leaf(_rand(g, (m,), 0.5, 2.0))
        u = float(p.get("unit", 1.0))
        self.unit = u
        self.c = _leaf(u * torch.randn((m,), generator=g, dtype=DT))
        self.j = torch.arange(m, dtype=DT)

        def mk(v, form):
            if form == "float":
                return float(v)
            return torch.tensor(v, dtype=DT, requires_grad=(form == "tg"))
        self.xl = mk(p["xl"], p["xlform"])
        self.xu = mk(p["xu"], p["xuform"])
        self.leaves = [self.a, self.c] + [t for t in (self.xl, self.xu) if isinstance(t, torch.Tensor) and t.requires_grad]
        self.leaf_units = [1.0, u] + [1.0] * (len(self.leaves) - 2)
        self.out_units = [u]
        j = self.j

        def fcn(x, a, c):
            return c * torch.sin(a * x + j)
        self.fcn = fcn

    def run(self, method, fwd, bck):
        from xitorch.integrate import quad
        kw = dict(fwd)
        if bck is not None:
            kw["bck_options"] = bck
        return [quad(self.fcn, self.xl, self.xu, (self.a, self.c), method=method, **kw)]

    def ref(self):
        return [self.c * (torch.cos(self.a * self.xl + self.j) - torch.cos(self.a * self.xu + self.j)) / self.a]


class McquadProblem:
    name = "mcquad"
    tol = (1e-12, 1e-11)

    def __init__(self, case, g):
        p = case["prob"]
        u = float(p.get("unit", 1.0))
        self.unit = u
        self.p = _leaf(u * _rand(g, (2,), 0.5, 1.5))
        self.q = _leaf(u * torch.randn((2,), generator=g, dtype=DT))
        self.leaf_units = [u, u, 1.0, 1.0]
        self.out_units = [u]
        self.mu = _leaf(_rand(g, (1,), -0.5, 0.5))
        self.sg = _leaf(_rand(g, (1,), 0.7, 1.3))
        self.x0 = torch.zeros((1,), dtype=DT)
        self.nodes = p["nodes"]
        self.leaves = [self.p, self.q, self.mu, self.sg]

    @staticmethod
    def ffcn(x, p, q):
        return p * x * x + q * torch.sin(x)

    @staticmethod
    def logp(x, mu, sg):
        return (-0.5 * ((x - mu) / sg) ** 2).sum()

    def run(self, method, fwd, bck):
        from xitorch.integrate import mcquad
        kw = dict(fwd)
        if bck is not None:
            kw["bck_options"] = bck
        return [mcquad(self.ffcn, self.logp, self.x0, (self.p, self.q), (self.mu, self.sg), method=method, **kw)]

    def grid(self):
        k = self.nodes
        return torch.linspace(-3.0, 3.0, k, dtype=DT).reshape(k, 1) + 0.05

    def ref(self):
        xs = self.grid()
        lp = torch.stack([self.logp(x, self.mu, self.sg) for x in xs])
        w = torch.softmax(lp, dim=0)
        f = torch.stack([self.ffcn(x, self.p, self.q) for x in xs])
        return [(w.unsqueeze(-1) * f).sum(0)]


def lin_interp(xs, ys, xq):
    """piecewise linear interpolation, xs sorted (nr,), ys (nr,), xq (nq,) inside [xs0, xs-1]"""
    idx = torch.clamp(torch.searchsorted(xs.detach(), xq.detach(), right=True) - 1, 0, xs.shape[0] - 2)
    x0, x1 = xs[idx], xs[idx + 1]
    t = (xq - x0) / (x1 - x0)
    return ys[idx] * (1 - t) + ys[idx + 1] * t


class InterpProblem:
    name = "interp1d"
    tol = (1e-13, 1e-12)

    def __init__(self, case, g):
        p = case["prob"]
        nr, nq = p["nr"], p["nq"]
        xs = torch.cumsum(_rand(g, (nr,), 0.3, 1.0), 0)
        self.perm = torch.randperm(nr, generator=g) if p["shuffled"] else torch.arange(nr)
        self.x = xs[self.perm].clone()
        self.xsorted = xs
        u = float(p.get("unit", 1.0))
        self.unit = u
        self.y = _leaf(u * torch.randn((nr,), generator=g, dtype=DT))         # in the order of self.x
        self.leaf_units = [u, 1.0]
        self.out_units = [u]
        lo, hi = float(xs[0]), float(xs[-1])
        self.xq = _leaf(lo + (hi - lo) * (0.02 + 0.96 * torch.rand((nq,), generator=g, dtype=DT)))
        self.y_at_call = p["y_at_call"]
        self.assume_sorted = (not p["shuffled"]) and p["assume_sorted"]
        self.leaves = [self.y, self.xq]

    def run(self, method, fwd, bck):
        from xitorch.interpolate import Interp1D
        if self.y_at_call:
            obj = Interp1D(self.x, method=method, assume_sorted=self.assume_sorted, **fwd)
            return [obj(self.xq, self.y)]
        obj = Interp1D(self.x, self.y, method=method, assume_sorted=self.assume_sorted, **fwd)
        return [obj(self.xq)]

    def ysorted(self):
        # x = xs[perm]  =>  sorted position k holds x index argsort(x)[k]
        order = torch.argsort(self.x)
        return self.y[order]

    def ref(self):
        return [lin_interp(self.xsorted, self.ysorted(), self.xq)]


def trapz_cumsum(x, y):
    """cumulative trapezoid along the last dim (first entry 0)"""
    dx = x[1:] - x[:-1]
    seg = 0.5 * (y[..., 1:] + y[..., :-1]) * dx
    return torch.cat([torch.zeros_like(y[..., :1]), torch.cumsum(seg, dim=-1)], dim=-1)


class SquadProblem:
    name = "squad"
    tol = (1e-13, 1e-12)

    def __init__(self, case, g):
        p = case["prob"]
        nx = p["nx"]
        self.x = torch.cumsum(_rand(g, (nx,), 0.2, 0.8), 0)
        shape = list(p["batch"])
        self.dim = p["dim"] if shape else -1
        full = list(shape)
        pos = self.dim if self.dim >= 0 else len(full) + 1 + self.dim
        full.insert(pos, nx)
        u = float(p.get("unit", 1.0))
        self.unit = u
        self.y = _leaf(u * torch.randn(tuple(full), generator=g, dtype=DT))
        self.leaf_units = [u]
        self.out_units = [u]
        self.op = p["op"]
        self.keepdim = p["keepdim"]
        self.leaves = [self.y]

    def run(self, method, fwd, bck):
        from xitorch.integrate import SQuad
        obj = SQuad(self.x, method=method, **fwd)
        if self.op == "cumsum":
            return [obj.cumsum(self.y, dim=self.dim)]
        return [obj.integrate(self.y, dim=self.dim, keepdim=self.keepdim)]

    def ref(self):
        yt = self.y.transpose(self.dim, -1)
        cs = trapz_cumsum(self.x, yt)
        if self.op == "cumsum":
            return [cs.transpose(self.dim, -1)]
        res = cs[..., -1:]
        res = res.transpose(self.dim, -1)
        if not self.keepdim:
            res = res.squeeze(self.dim)
        return [res]


PROBLEMS = {
    "solve": SolveProblem, "symeig": SymeigProblem, "svd": SvdProblem,
    "rootfinder": RootProblem, "equilibrium": RootProblem, "minimize": RootProblem,
    "solve_ivp": IvpProblem, "quad": QuadProblem, "mcquad": McquadProblem,
    "interp1d": InterpProblem, "squad": SquadProblem,
}


def build(case):
    g = gen.seeded(case["seed"])
    return PROBLEMS[case["fn"]](case, g), g


# ------------------------------------------------------------------------------------------------
# options that keep the built-ins cheap and (where needed) accurate

def _mh_step(x, mu, sg):
    return 0.7 * x + 0.3 * mu + 0.1


def fast_opts(fn, method):
    """few iterations: used where only bit-identity between two spellings matters"""
    if fn == "solve":
        return {} if method in ("exactsolve", "custom_exactsolve") else ({"maxiter": 6} if method == "broyden1" else {"max_niter": 6})
    if fn in ("symeig", "svd"):
        return {"max_niter": 20} if method == "davidson" else {}
    if fn in ("rootfinder", "equilibrium", "minimize"):
        if method in ("gd", "adam"):
            return {"maxiter": 15, "step": 0.05}
        return {"maxiter": 8}
    if fn == "solve_ivp":
        return {}
    if fn == "quad":
        return {"n": 5}
    if fn == "mcquad":
        if method == "mh":
            return {"nsamples": 12, "nburnout": 4, "step_size": 0.8}
        if method == "mhcustom":
            return {"nsamples": 12, "nburnout": 6, "custom_step": _mh_step}
        return {"nsamples": 7, "lb": -3.0, "ub": 3.0}
    return {}


def bck_fast_opts(fn, bname):
    """options for a built-in named in bck_options['method']"""
    if fn in ("solve", "symeig", "rootfinder", "equilibrium", "minimize"):
        return fast_opts("solve", bname)
    if fn == "quad":
        return {"n": 6}
    return {}


# ------------------------------------------------------------------------------------------------
# evaluation: outputs, first- and second-order gradients with fixed random contractions

def _opts_changed(before, now):
    if before is None:
        return None
    if list(before) != list(now):
        return "keys %r became %r" % (list(before), list(now))
    for k, v in before.items():
        if not (v is now[k] or (not isinstance(v, torch.Tensor) and v == now[k])):
            return "option %r changed from %r to %r" % (k, v, now[k])
    return None


def _cotangents(prob, cot, outs, gw):
    """random normal cotangents of magnitude `cot` for the first output; further outputs (symeig / svd: the eigenvector part) get the
    magnitude that gives every term of the contraction the same unit  cot * (unit of the first output)"""
    ou = getattr(prob, "out_units", None) or [1.0] * len(outs)
    return [torch.randn(o.shape, generator=gw, dtype=DT) * (float(cot) * ou[0] / ou[i]) for i, o in enumerate(outs)]


def _contractions(prob, leaves, gw):
    """random normal contraction of the gradients, each in the unit of its leaf (so that every term of the contracted scalar has the
    unit of the loss, whatever the units of the data)"""
    lu = getattr(prob, "leaf_units", None) or [1.0] * len(leaves)
    return [torch.randn(x.shape, generator=gw, dtype=DT) * lu[i] for i, x in enumerate(leaves)]


def evaluate(prob, case, method, fwd, bck, order, wseed, counters=()):
    """counters: recording callables; res["ncalls"] = their call counts after the forward call, the first-order and the
    second-order differentiation (one row per stage reached)"""
    from pbt.harness import XitorchRaised
    torch.manual_seed(case["seed"] % (2 ** 31))
    fwd0, bck0 = dict(fwd), (None if bck is None else dict(bck))
    ncalls = []

    def mark():
        ncalls.append([len(c.calls) for c in counters])

    def options_intact(when):
        # the caller's option dictionaries are the caller's: a functional that edits them changes what the *next* call
        # with the same dictionaries is asked to do (results would depend on the call history)
        msg = _opts_changed(fwd0, fwd) or _opts_changed(bck0, bck)
        if msg:
            raise XitorchRaised("caller_options_mutated", "after the %s the caller's option dictionary was modified: %s" % (when, msg))
    outs = xt_call(prob.run, method, fwd, bck, _where="forward")
    options_intact("forward call")
    mark()
    gw = gen.seeded(wseed)
    W = _cotangents(prob, case.get("cot", 1.0), outs, gw)
    loss = sum((o * w).sum() for o, w in zip(outs, W))
    res = {"outs": [o.detach().clone() for o in outs], "g1": None, "g2": None, "graph": loss.requires_grad, "ncalls": ncalls}
    if not loss.requires_grad:
        return res
    leaves = prob.leaves
    g1 = xt_call(torch.autograd.grad, loss, leaves, create_graph=(order >= 2), allow_unused=True, _where="backward")
    options_intact("backward pass")
    mark()
    res["g1"] = [None if x is None else x.detach().clone() for x in g1]
    gk = g1
    for k in range(2, order + 1):
        # order k: gradient of a fixed random contraction of the order k-1 gradients (order 3 only serves the observation of the
        # callables; its values are compared between two spellings of one method, never with a reference)
        C = _contractions(prob, leaves, gw)
        terms = [(c * x).sum() for c, x in zip(C, gk) if x is not None and x.requires_grad]
        if not terms:
            res["g%d" % k] = "nograph"
            break
        gk = xt_call(torch.autograd.grad, sum(terms), leaves, create_graph=(k < order), allow_unused=True, _where="backward%d" % k)
        options_intact("order-%d backward pass" % k)
        mark()
        res["g%d" % k] = [None if x is None else x.detach().clone() for x in gk]
    return res


def evaluate_ref(prob, order, wseed, cot=1.0):
    outs = prob.ref()
    gw = gen.seeded(wseed)
    W = _cotangents(prob, cot, outs, gw)
    loss = sum((o * w).sum() for o, w in zip(outs, W))
    leaves = prob.leaves
    g1 = torch.autograd.grad(loss, leaves, create_graph=(order >= 2), allow_unused=True)
    res = {"outs": [o.detach() for o in outs], "g1": [torch.zeros_like(l) if x is None else x.detach() for x, l in zip(g1, leaves)], "g2": None}
    if order >= 2:
        C = _contractions(prob, leaves, gw)
        terms = [(c * x).sum() for c, x in zip(C, g1) if x is not None and x.requires_grad]
        g2 = torch.autograd.grad(sum(terms), leaves, allow_unused=True) if terms else [None] * len(leaves)
        res["g2"] = [torch.zeros_like(l) if x is None else x.detach() for x, l in zip(g2, leaves)]
        res["g2_graph"] = bool(terms)
    return res


def _eq_list(a, b):
    if a is None or b is None or isinstance(a, str) or isinstance(b, str):
        return a is b or a == b
    if len(a) != len(b):
        return False
    for x, y in zip(a, b):
        if (x is None) != (y is None):
            return False
        if x is not None and not (x.shape == y.shape and torch.equal(x, y)):
            return False
    return True


def _maxdiff(a, b):
    d = 0.0
    for x, y in zip(a, b):
        if x is None or y is None:
            continue
        if x.shape != y.shape:
            return float("inf")
        if x.numel():
            v = float((x - y).abs().max())
            d = max(d, v if v == v else float("inf"))
    return d


def compare_exact(r1, r2, what, labels):
    for key in ("outs", "g1", "g2", "g3"):
        if not _eq_list(r1.get(key), r2.get(key)):
            a, b = r1.get(key), r2.get(key)
            diff = _maxdiff(a, b) if isinstance(a, list) and isinstance(b, list) and len(a) == len(b) else float("nan")
            return violation("differs_" + key, "%s: %s differ (max abs diff %.3e)" % (what, key, diff), labels)
    return None


RATIOS = {}      # development aid: largest observed error/tolerance ratio per (what, quantity)


def _note(what, q, ratio):
    k = (what, q)
    if ratio > RATIOS.get(k, 0.0):
        RATIOS[k] = ratio


def compare_ref(res, ref, prob, order, what, labels, cot=1.0):
    """res from evaluate(), ref from evaluate_ref(); tolerances relative to  unit + max|ref|, where unit is the natural magnitude of the
    quantity: the unit of the output for values, (cotangent magnitude x unit of the first output) / (unit of the leaf) for the first- and
    second-order gradients (the contraction of the first-order gradients carries the leaf units, see _contractions)"""
    t1, t2 = prob.tol
    ou = getattr(prob, "out_units", None) or [1.0] * len(res["outs"])
    lu = getattr(prob, "leaf_units", None) or [1.0] * len(prob.leaves)
    lossunit = float(cot) * ou[0]
    tv = getattr(prob, "tolv", t1)
    worst1 = 0.0
    for i, (o, r) in enumerate(zip(res["outs"], ref["outs"])):
        if o.shape != r.shape:
            return violation("shape", "%s: output shape %s, reference %s" % (what, tuple(o.shape), tuple(r.shape)), labels), False
        sc = ou[i] + float(r.abs().max()) if r.numel() else ou[i]
        err = float((o - r).abs().max()) if r.numel() else 0.0
        _note(what, "value", err / (tv * sc))
        if not err <= tv * sc:
            return violation("value", "%s: value differs from the closed form by %.3e (tol %.3e)" % (what, err, tv * sc), labels), False
    if not res["graph"]:
        return violation("no_graph", "%s: output carries no graph although leaves require grad" % what, labels), False
    nonzero = False
    for k, (gk, rk) in enumerate(zip(res["g1"], ref["g1"])):
        gk0 = torch.zeros_like(rk) if gk is None else gk
        sc = lossunit / lu[k] + float(rk.abs().max())
        err = float((gk0 - rk).abs().max())
        nonzero = nonzero or float(rk.abs().max()) > 0
        _note(what, "grad1", err / (t1 * sc))
        worst1 = max(worst1, err / sc)
        if not err <= t1 * sc:
            return violation("grad1", "%s: first-order gradient of leaf #%d differs from the reference by %.3e (tol %.3e): got %s ref %s" % (
                what, k, err, t1 * sc, gk0.reshape(-1).tolist()[:4], rk.reshape(-1).tolist()[:4]), labels), False
    if order >= 2:
        if (res["g2"] == "nograph" or res["g2"] is None) and not ref["g2_graph"]:
            return None, nonzero        # the first-order gradient is constant in the leaves for the reference too
        if res["g2"] == "nograph" or res["g2"] is None:
            return violation("no_second_graph", "%s: create_graph=True produced first-order gradients without graph" % what, labels), False
        if getattr(prob, "adaptive2", False):
            # implicit eigen-backward: the shifted system is singular to rounding and the component of its solution along the
            # eigenvector, alpha ~ (first-order error)/eps, is only removed to rounding; it enters the second-order pass squared
            t2 = t2 + 100.0 * worst1 * worst1 / 2.2e-16
        for k, (gk, rk) in enumerate(zip(res["g2"], ref["g2"])):
            gk0 = torch.zeros_like(rk) if gk is None else gk
            sc = lossunit / lu[k] + float(rk.abs().max())
            err = float((gk0 - rk).abs().max())
            _note(what, "grad2", err / (t2 * sc))
            if not err <= t2 * sc:
                return violation("grad2", "%s: second-order gradient of leaf #%d differs from the reference by %.3e (tol %.3e): got %s ref %s" % (
                    what, k, err, t2 * sc, gk0.reshape(-1).tolist()[:4], rk.reshape(-1).tolist()[:4]), labels), False
    return None, nonzero


# ------------------------------------------------------------------------------------------------
# task "names"

def mode_class(mode):
    """how the caller spells symeig's / svd's `mode`: one of the two values the implementations are handed, the documented alias, or
    another letter case of either"""
    if mode in ("lowest", "uppest"):
        return "canonical"
    if mode == "uppermost":
        return "alias"
    return "othercase/" + canon_mode(mode)


def scale_labels(case):
    out = ["unit=%g" % case["prob"].get("unit", 1.0), "cot=%g" % case.get("cot", 1.0)]
    if "mode" in case["prob"]:
        out.append("mode=" + mode_class(case["prob"]["mode"]))
    return out


def canonical_case(case):
    """the same case with `mode` (symeig, svd) in the spelling that the implementations are documented to receive"""
    if "mode" not in case["prob"]:
        return case
    c = dict(case)
    c["prob"] = dict(case["prob"], mode=canon_mode(case["prob"]["mode"]))
    return c


def run_names(case):
    fn, method = case["fn"], case["method"]
    where = case["where"]
    var = variant(case["bname"] if where == "bck" else method, case["mask"])
    labels = ["task=names", "fn=" + fn, "where=" + where, "order=%d" % case["order"],
              "name=%s/%s" % (fn, case["bname"] if where == "bck" else method)] + scale_labels(case)
    low = case["bname"] if where == "bck" else method
    mode = case["prob"].get("mode")
    respelled = mode is not None and mode != canon_mode(mode)
    if var == low and not respelled:
        return discard("no_upper_case_letter", labels)
    fwd = fast_opts(fn, method)
    results = []
    # reference spelling: lower-case method name and, for symeig / svd, the canonical `mode`; variant: the case pattern and the caller's
    # spelling of `mode` (another letter case, or the alias "uppermost")
    for spelling, c in ((low, canonical_case(case)), (var, case)):
        prob, _ = build(c)
        if where == "fwd":
            bck = None
            m = spelling
        else:
            bck = dict(bck_fast_opts(fn, case["bname"]))
            bck["method"] = spelling
            m = method
        try:
            results.append(evaluate(prob, case, m, fwd, bck, case["order"], case["seed"] + 1))
        except XitorchRaised as e:
            if spelling == low:
                raise
            return violation("variant_raises:%s/%s:%s" % (fn, low, e.kind.split(":")[1].split("@")[0]),
                             "%s(%s=%r) raises although %r works: %s" % (fn, "method" if where == "fwd" else "bck_options.method", var, low, e.detail[:600]),
                             labels)
    what = "%s %s=%r vs %r" % (fn, "method" if where == "fwd" else "bck method", var, low)
    if respelled:
        what += " and mode=%r vs %r" % (mode, canon_mode(mode))
    v = compare_exact(results[0], results[1], what, labels)
    if v is not None:
        return v
    g1 = results[0]["g1"]
    nontrivial = g1 is not None and any(x is not None and float(x.abs().max()) > 0 for x in g1 if x is not None and x.numel())
    return ok(labels, nontrivial=nontrivial)


def prob_st(draw, fn, exact=False):
    """exact: the case is compared with the closed-form reference (restricts the units of measurement, see unit_choices)"""
    prob = _prob_st(draw, fn)
    prob["unit"] = draw(st.sampled_from(unit_choices(fn, exact)))
    return prob


def _prob_st(draw, fn):
    fl = st.floats(-1.5, 1.5, allow_subnormal=False, width=32)
    if fn == "solve":
        sym = draw(st.booleans())
        E = draw(st.booleans())
        return {"n": draw(st.integers(2, 4)), "ncols": draw(st.integers(1, 3)), "sym": sym, "E": E, "M": E and sym and draw(st.booleans())}
    if fn == "symeig":
        n = draw(st.integers(3, 5))
        return {"n": n, "neig": draw(st.one_of(st.none(), st.integers(1, n - 1))),
                "mode": draw(st.sampled_from(MODE_SPELLINGS)), "M": draw(st.booleans())}
    if fn == "svd":
        m, n = draw(st.integers(2, 4)), draw(st.integers(2, 4))
        return {"m": m, "n": n, "k": draw(st.integers(1, min(m, n))), "mode": draw(st.sampled_from(MODE_SPELLINGS))}
    if fn in ("rootfinder", "equilibrium", "minimize"):
        return {"n": draw(st.integers(1, 3))}
    if fn == "solve_ivp":
        return {"steps": draw(st.lists(st.sampled_from([0.2, 0.3, 0.45, 0.6]), min_size=1, max_size=3)),
                "backward_time": draw(st.booleans()), "t0": draw(st.sampled_from([0.0, 0.5, -1.0])),
                "ystate": draw(st.sampled_from(["tensor", "tensor", "tuple", "list"]))}
    if fn == "quad":
        forms = ["float", "t", "tg"]
        return {"m": draw(st.integers(1, 3)), "xl": draw(fl), "xu": draw(fl), "xlform": draw(st.sampled_from(forms)),
                "xuform": draw(st.sampled_from(forms))}
    if fn == "mcquad":
        return {"nodes": draw(st.integers(3, 9))}
    if fn == "interp1d":
        shuffled = draw(st.booleans())
        return {"nr": draw(st.integers(4, 7)), "nq": draw(st.integers(1, 4)), "shuffled": shuffled,
                "assume_sorted": draw(st.booleans()), "y_at_call": draw(st.booleans())}
    if fn == "squad":
        batch = draw(st.lists(st.integers(1, 3), min_size=0, max_size=2))
        op = draw(st.sampled_from(["cumsum", "integrate"]))
        return {"nx": draw(st.integers(3, 7)), "batch": batch, "dim": draw(st.integers(-(len(batch) + 1), len(batch))),
                "op": op, "keepdim": draw(st.booleans())}
    raise ValueError(fn)


@st.composite
def names_st(draw, tier="quick"):
    fn = draw(st.sampled_from(FUNCTIONALS))
    method = draw(st.sampled_from(BUILTINS[fn]))
    where = "fwd"
    bname = None
    if fn in BCK_NAMES and draw(st.integers(0, 3)) == 0:
        where = "bck"
        method = draw(st.sampled_from([m for m in BUILTINS[fn] if m not in DIRECT]))
        bname = draw(st.sampled_from(BCK_NAMES[fn]))
    name = bname if where == "bck" else method
    style = draw(st.sampled_from(["random", "random", "upper", "capital"]))
    if style == "upper":
        mask = [1]
    elif style == "capital":
        mask = [1] + [0] * (len(name) - 1)
    else:
        mask = draw(st.lists(st.integers(0, 1), min_size=len(name), max_size=len(name)))
        mask[draw(st.sampled_from([i for i, ch in enumerate(name) if ch.isalpha()]))] = 1
    order = draw(st.sampled_from([1, 2]))
    return {"fn": fn, "method": method, "where": where, "bname": bname, "mask": mask, "order": order,
            "prob": prob_st(draw, fn), "cot": draw(st.sampled_from(cot_choices(fn, False))), "seed": draw(st.integers(0, 2 ** 31 - 2))}


# ------------------------------------------------------------------------------------------------
# task "unknown"

def members(fn):
    return set(BUILTINS[fn]) | set(EXTRA_MEMBERS.get(fn, []))


def run_unknown(case):
    fn, where, name = case["fn"], case["where"], case["name"]
    labels = ["task=unknown", "fn=" + fn, "where=" + where, "style=" + case["style"]]
    table = members(fn) if where == "fwd" else (set(BCK_NAMES[fn]) | set(EXTRA_MEMBERS.get("solve", []) if BCK_NAMES[fn] is SOLVE_NAMES else []))
    if name.lower() in table:
        return discard("generated_name_is_a_member", labels)
    prob, _ = build(case)
    if where == "fwd":
        method = name
        fwd = {}
        bck = None
    else:
        method = case["method"]
        fwd = fast_opts(fn, method)
        bck = {"method": name}
    try:
        res = evaluate(prob, case, method, fwd, bck, 1, case["seed"] + 1)
    except XitorchRaised as e:
        etype = e.kind.split(":")[1].split("@")[0]
        if etype not in ("RuntimeError", "ValueError", "TypeError", "KeyError", "NotImplementedError", "AssertionError"):
            return violation("unknown_name_crashes:" + etype, "%s with unknown name %r failed with an unrelated error: %s" % (fn, name, e.detail[:500]), labels)
        return ok(labels + ["raised=" + etype], nontrivial=True)
    if where == "bck" and not res["graph"]:
        return discard("no_backward", labels)
    return violation("unknown_name_accepted", "%s(%s=%r) returned a result (value %s) instead of raising; members are %s" % (
        fn, "method" if where == "fwd" else "bck_options.method", name, [o.reshape(-1).tolist()[:3] for o in res["outs"]], sorted(table)), labels)


@st.composite
def unknown_st(draw, tier="quick"):
    fn = draw(st.sampled_from(FUNCTIONALS))
    where = "fwd"
    if fn in BCK_NAMES and draw(st.integers(0, 3)) == 0:
        where = "bck"
    table = sorted(members(fn)) if where == "fwd" else list(BCK_NAMES[fn])
    style = draw(st.sampled_from(["letters", "append", "drop", "foreign", "empty", "inner"]))
    letters = st.text(alphabet="abcdefghijklmnopqrstuvwxyzABCDEFGHIJKLMNOPQRSTUVWXYZ_0123456789", min_size=1, max_size=8)
    if style == "letters":
        name = draw(letters)
    elif style == "append":
        name = draw(st.sampled_from(table)) + draw(st.sampled_from(list("abxyz_01")))
    elif style == "drop":
        base = draw(st.sampled_from(table))
        i = draw(st.integers(0, len(base) - 1))
        name = base[:i] + base[i + 1:]
    elif style == "inner":
        base = draw(st.sampled_from(table))
        i = draw(st.integers(0, len(base)))
        name = base[:i] + draw(st.sampled_from(list("_-x1"))) + base[i:]
    elif style == "foreign":
        others = sorted({m for f in FUNCTIONALS for m in BUILTINS[f]} - set(m.lower() for m in table))
        name = draw(st.sampled_from(others))
        name = variant(name, draw(st.lists(st.integers(0, 1), min_size=len(name), max_size=len(name))))
    else:
        name = ""
    prob = prob_st(draw, fn)
    if fn == "solve" and where == "fwd":
        prob["zeroB"] = draw(st.integers(0, 4)) == 0
    return {"fn": fn, "where": where, "name": name, "style": style, "method": draw(st.sampled_from([m for m in BUILTINS[fn] if m not in DIRECT])),
            "prob": prob, "seed": draw(st.integers(0, 2 ** 31 - 2))}


# ------------------------------------------------------------------------------------------------
# task "custom"

FREE_KEYS = ["alpha9", "tag", "verbose_", "kmax", "zeta", "mode_"]
REAL_KEYS = ["rtol", "atol", "maxiter", "max_niter", "n", "f_tol", "x_tol", "step", "nsamples", "verbose", "min_eps", "alpha",
             "posdef", "nburnout", "extrap", "bc_type", "line_search"]
SOLVE_FAMILY = ("solve", "symeig", "svd", "rootfinder", "equilibrium", "minimize")
WRAPPABLE = {
    "solve": ["custom_exactsolve", "cg", "bicgstab", "gmres", "broyden1"],
    "symeig": ["custom_exacteig", "davidson"],
    "svd": ["custom_exacteig", "davidson"],
    "rootfinder": RF_NAMES,
    "equilibrium": RF_NAMES,          # a callable is handed the root form y - f(y): the fixed-point method anderson_acc does not apply
    "minimize": ["gd", "adam"],       # a callable is handed the (value, gradient) form used by the minimisers
    "solve_ivp": IVP_NAMES,
    "quad": ["leggauss"],
    "mcquad": ["mh", "_dummy1d"],
    "interp1d": ["cspline", "linear"],
    "squad": ["cspline", "simpson", "trapz"],
}


def builtin_impl(fn, name):
    if fn == "solve":
        from xitorch._impls.linalg import solve as m
        from xitorch.linalg.solve import custom_exactsolve
        return {"custom_exactsolve": custom_exactsolve, "cg": m.cg, "bicgstab": m.bicgstab, "gmres": m.gmres, "broyden1": m.broyden1_solve}[name]
    if fn in ("symeig", "svd"):
        from xitorch._impls.linalg.symeig import davidson
        from xitorch.linalg.symeig import custom_exacteig
        return {"custom_exacteig": custom_exacteig, "davidson": davidson}[name]
    if fn in ("rootfinder", "equilibrium", "minimize"):
        from xitorch._impls.optimize.root import rootsolver as r
        from xitorch._impls.optimize import minimizer as mm
        return {"newton": r.newton, "broyden1": r.broyden1, "broyden2": r.broyden2, "linearmixing": r.linearmixing, "gd": mm.gd, "adam": mm.adam}[name]
    if fn == "solve_ivp":
        from xitorch._impls.integrate.ivp import explicit_rk as e, adaptive_rk as a
        return {"rk4": e.rk4_ivp, "rk38": e.rk38_ivp, "euler": e.fwd_euler_ivp, "rk23": a.rk23_adaptive, "rk45": a.rk45_adaptive}[name]
    if fn == "quad":
        from xitorch._impls.integrate.fixed_quad import leggauss
        return leggauss
    if fn == "mcquad":
        from xitorch._impls.integrate.mcsamples import mcmc
        return {"mh": mcmc.mh, "_dummy1d": mcmc.dummy1d}[name]
    if fn == "interp1d":
        from xitorch._impls.interpolate.interp_1d import CubicSpline1D, LinearInterp1D
        return {"cspline": CubicSpline1D, "linear": LinearInterp1D}[name]
    if fn == "squad":
        from xitorch._impls.integrate.samples_quad import CubicSplineSQuad, TrapzSQuad, SimpsonSQuad
        return {"cspline": CubicSplineSQuad, "simpson": SimpsonSQuad, "trapz": TrapzSQuad}[name]
    raise ValueError(fn)


class _LinObj:
    def __init__(self, x, y):
        self.x, self.y = x, y

    def __call__(self, xq, y=None):
        return lin_interp(self.x, self.y if self.y is not None else y, xq)

    def getparamnames(self):
        return ["x", "y"] if self.y is not None else ["x"]


class _TrapzObj:
    def __init__(self, x):
        self.x = x

    def cumsum(self, y):
        return trapz_cumsum(self.x, y)

    def integrate(self, y):
        return trapz_cumsum(self.x, y)[..., -1]

    def getparamnames(self, methodname, prefix=""):
        return [prefix + "x"]


def closed_impl(fn, prob):
    """graph-free closed-form implementations that compute the answer from the arguments they are handed"""
    if fn == "solve":
        return lambda A, B, E=None, M=None, **kw: dense_solve(A, B, E, M)
    if fn in ("symeig", "svd"):
        return lambda A, neig, mode, M=None, **kw: dense_eig(A.fullmatrix(), neig, mode, M.fullmatrix() if M is not None else None)
    if fn in ("rootfinder", "equilibrium", "minimize"):
        return lambda fcn, y0, params, **kw: torch.linalg.solve(params[0], torch.asinh(params[1]))
    if fn == "solve_ivp":
        return lambda fcn, ts, y0, params, **kw: torch.stack([torch.matrix_exp(params[0] * (t - ts[0])) @ y0 for t in ts])
    if fn == "quad":
        j = prob.j
        return lambda fcn, xl, xu, params, **kw: params[1] * (torch.cos(params[0] * xl + j) - torch.cos(params[0] * xu + j)) / params[0]
    if fn == "mcquad":
        xs = prob.grid()

        def sampler(logp, x0, pparams, **kw):
            lp = torch.stack([logp(x, *pparams) for x in xs])
            return xs.clone(), torch.softmax(lp, dim=0)
        return sampler
    if fn == "interp1d":
        return lambda x, y=None, **kw: _LinObj(x, y)
    if fn == "squad":
        return lambda x, **kw: _TrapzObj(x)
    raise ValueError(fn)


def accurate_impl(fn):
    """the caller's own accurate backward integrator: it does not read the options it is handed (they are the caller's, with the
    caller's meaning), so that no built-in given the same options can stand in for it unnoticed"""
    if fn == "solve_ivp":
        rk45 = builtin_impl("solve_ivp", "rk45")
        return lambda fcn, ts, y0, params, **kw: rk45(fcn, ts, y0, params, rtol=1e-10, atol=1e-10)
    if fn == "quad":
        lg = builtin_impl("quad", "leggauss")
        return lambda fcn, xl, xu, params, **kw: lg(fcn, xl, xu, params, n=24)
    raise ValueError(fn)


# functionals whose first-order gradient is a function of their own output (x, the eigenvectors, y*, y(t)) besides the result of the
# backward solve / integration: differentiating it once more re-enters the functional's backward (the first-order solves again, on a
# new cotangent) in addition to differentiating every first-order backward solve.  quad's gradient does not contain the integral.
REENTRY = {"solve": 2, "symeig": 2, "svd": 2, "rootfinder": 2, "equilibrium": 2, "minimize": 2, "solve_ivp": 2, "quad": 1}


def tight_opts(fn, name):
    """options under which the wrapped built-in is cheap (accuracy is irrelevant for the bit-identity oracle)"""
    return fast_opts(fn, name)


def _val(v):
    return None if v == "__none__" else v


def _close(a, b, tol=1e-12):
    a = torch.as_tensor(a, dtype=DT)
    b = torch.as_tensor(b, dtype=DT)
    return a.shape == b.shape and bool(((a - b).abs() <= tol * (1 + b.abs())).all())


DOCUMENTED_MODES = ("lowest", "uppest", "uppermost")


def _mode_arg_error(seen, asked):
    """the `mode` handed to a caller-supplied method must be one of the documented values (symeig's docstring: "lowest" or
    "uppermost"/"uppest") and mean what the caller asked for (the caller's spelling may be any letter case of these: symeig lower-cases
    it before the default method sees it, so every other method has to see the same)"""
    if not isinstance(seen, str) or seen not in DOCUMENTED_MODES:
        return "mode=%r is not one of the documented values %r (the caller passed %r)" % (seen, DOCUMENTED_MODES, asked)
    if canon_mode(seen) != canon_mode(asked):
        return "mode=%r, the caller passed %r" % (seen, asked)
    return None


def check_args(fn, prob, args):
    """documented positional arguments of the forward call; returns an error string or None"""
    from xitorch import LinearOperator
    if fn == "solve":
        if len(args) != 4:
            return "expected (A, B, E, M), got %d positional arguments" % len(args)
        A, B, E, M = args
        Am, Mm = prob.mats()
        if not isinstance(A, LinearOperator) or not _close(A.fullmatrix(), Am.detach()):
            return "A is not the caller's operator"
        if not (isinstance(B, torch.Tensor) and _close(B / prob.unit, prob.B.detach() / prob.unit)):
            return "B is not the caller's right hand side"
        if (E is None) != (prob.E is None) or (E is not None and not _close(E, prob.E.detach())):
            return "E is not the caller's E"
        if (M is None) != (Mm is None) or (M is not None and not _close(M.fullmatrix(), Mm.detach())):
            return "M is not the caller's M"
        return None
    if fn == "symeig":
        if len(args) != 4:
            return "expected (A, neig, mode, M), got %d positional arguments" % len(args)
        A, neig, mode, M = args
        if not isinstance(A, LinearOperator) or not _close(A.fullmatrix() / prob.unit, _sym(prob.La).detach() / prob.unit):
            return "A is not the caller's operator"
        if neig != prob.k():
            return "neig=%r, the caller asked for %r of %d" % (neig, prob.neig, prob.n)
        err = _mode_arg_error(mode, prob.mode)
        if err:
            return err
        if (M is None) != (prob.Lm is None) or (M is not None and not _close(M.fullmatrix(), _sym(prob.Lm).detach())):
            return "M is not the caller's M"
        return None
    if fn == "svd":
        # svd is documented as symeig of A^H A or A A^H, whichever is smaller
        if len(args) != 4:
            return "expected (A, neig, mode, M), got %d positional arguments" % len(args)
        A, neig, mode, M = args
        La = prob.La.detach()
        gram = La @ La.T if La.shape[0] < La.shape[1] else La.T @ La
        if not isinstance(A, LinearOperator) or not _close(A.fullmatrix() / prob.unit ** 2, gram / prob.unit ** 2, 1e-11):
            return "A is not the Gram operator of the caller's matrix"
        if neig != prob.k or M is not None:
            return "neig/M = %r/%r, the caller asked for k=%r" % (neig, M, prob.k)
        return _mode_arg_error(mode, prob.mode)
    if fn in ("rootfinder", "equilibrium", "minimize"):
        if len(args) != 3:
            return "expected (fcn, y0, params), got %d positional arguments" % len(args)
        fcn, y0, params = args
        if not _close(y0, prob.y0):
            return "y0 is not the caller's initial guess"
        want = prob.params()
        if len(params) != len(want) or not all(_close(a, b.detach()) for a, b in zip(params, want)):
            return "params are not the caller's parameters"
        yt = torch.linspace(0.3, -0.2, prob.n, dtype=DT)
        with torch.no_grad():
            out = fcn(yt, *params)
            wp = [w.detach() for w in want]
            r = prob.unit     # unit of the residual / objective: compared in that unit
            if fn == "rootfinder":
                good = isinstance(out, torch.Tensor) and _close(out / r, prob.f_root(yt, *wp) / r)
            elif fn == "equilibrium":
                fy = prob.f_equil(yt, *wp)
                good = isinstance(out, torch.Tensor) and (_close(out, fy) or _close(out, yt - fy))
            else:
                z = prob.f_min(yt, *wp) / r
                grad = wp[0].T @ (torch.sinh(wp[0] @ yt) - wp[1])
                if isinstance(out, torch.Tensor):
                    good = _close(out / r, z) or _close(out / r, grad, 1e-10)
                else:
                    good = len(out) == 2 and _close(out[0] / r, z) and _close(out[1] / r, grad, 1e-10)
        return None if good else "fcn does not evaluate the caller's function (value/root/gradient form) at a test point"
    if fn == "solve_ivp":
        if len(args) != 4:
            return "expected (fcn, ts, y0, params), got %d positional arguments" % len(args)
        fcn, ts, y0, params = args
        if not _close(ts, prob.ts):
            return "ts is not the caller's time grid"
        if not _close(y0, prob.y0.detach()):
            return "y0 is not the caller's initial value"
        if len(params) != 1 or not _close(params[0], prob.A.detach()):
            return "params are not the caller's parameters"
        with torch.no_grad():
            if not _close(fcn(ts[0], y0, *params), prob.A.detach() @ prob.y0.detach()):
                return "fcn does not evaluate the caller's function"
        return None
    if fn == "quad":
        if len(args) != 4:
            return "expected (fcn, xl, xu, params), got %d positional arguments" % len(args)
        fcn, xl, xu, params = args
        if not _close(torch.as_tensor(xl).reshape(()), float(prob.xl)) or not _close(torch.as_tensor(xu).reshape(()), float(prob.xu)):
            return "limits are not the caller's limits"
        if len(params) != 2 or not _close(params[0], prob.a.detach()) or not _close(params[1], prob.c.detach()):
            return "params are not the caller's parameters"
        with torch.no_grad():
            xt = torch.tensor(0.37, dtype=DT)
            if not _close(fcn(xt, *params), prob.fcn(xt, prob.a.detach(), prob.c.detach())):
                return "fcn does not evaluate the caller's integrand"
        return None
    if fn == "mcquad":
        if len(args) != 3:
            return "expected (log_pfcn, x0, pparams), got %d positional arguments" % len(args)
        logp, x0, pparams = args
        if not _close(x0, prob.x0):
            return "x0 is not the caller's initial position"
        if len(pparams) != 2 or not _close(pparams[0], prob.mu.detach()) or not _close(pparams[1], prob.sg.detach()):
            return "pparams are not the caller's parameters"
        with torch.no_grad():
            xt = torch.tensor([0.37], dtype=DT)
            if not _close(logp(xt, *pparams), prob.logp(xt, prob.mu.detach(), prob.sg.detach())):
                return "log_pfcn does not evaluate the caller's function"
        return None
    if fn == "interp1d":
        if len(args) != 2:
            return "expected (x, y), got %d positional arguments" % len(args)
        x, y = args
        want_x = prob.x if prob.assume_sorted else prob.xsorted
        if not _close(x, want_x):
            return "x is not the caller's (sorted) grid"
        if prob.y_at_call:
            if y is not None:
                return "y given although the caller supplies it at call time"
        elif not _close(y, prob.ysorted().detach()):
            return "y is not the caller's values (in the order of the sorted grid)"
        return None
    if fn == "squad":
        if len(args) != 1 or not _close(args[0], prob.x):
            return "expected (x,) with the caller's grid"
        return None
    raise ValueError(fn)


def _ret_matches(fn, prob, ret, outs_raw):
    """the functional's value is the callable's value"""
    if fn == "symeig":
        return torch.equal(ret[0], outs_raw[0].detach()) and torch.equal(ret[1], outs_raw[1].detach())
    if fn in ("mcquad", "interp1d", "squad", "svd"):
        return True     # the callable returns samples / an object / eigenpairs of the Gram operator; covered by the reference comparison
    return torch.equal(ret, outs_raw[0].detach())


def run_custom(case):
    fn, kind = case["fn"], case["kind"]
    order = case["order"]
    flavor = case.get("flavor", "object")
    labels = ["task=custom", "fn=" + fn, "kind=" + kind + ("/" + case["wrapped"] if kind == "wrap" else ""), "order=%d" % order,
              "nfwd=%d" % len(case["fwd"]), "bck=" + case["bckmode"], "callable=" + flavor] + scale_labels(case)
    if fn == "solve" or fn in ROOT_FAMILY:
        labels.append("unknowns=" + (">5" if case["prob"]["n"] > 5 else "<=5"))
    if fn == "solve":
        labels.append("operator=" + case["prob"].get("op", "matrix"))
    if fn == "solve_ivp":
        labels.append("ivp_state=%s/bck=%s" % (case["prob"].get("ystate", "tensor"), case["bckmode"]))
    prob, g = build(case)
    fwd = {k: _val(v) for k, v in case["fwd"].items()}
    bck = {k: _val(v) for k, v in case["bck"].items()}
    operation = fn in ("interp1d", "squad")

    if kind == "wrap":
        impl = builtin_impl(fn, case["wrapped"])
        base = tight_opts(fn, case["wrapped"])
        free_ok = not (fn == "squad" and case["wrapped"] in ("trapz", "simpson"))     # these two accept no unknown options
        fwd = dict(base, **{k: v for k, v in fwd.items() if k in FREE_KEYS and free_ok})
        if fn in ("solve_ivp", "quad", "mcquad"):
            # the backward re-uses the wrapped built-in with the merged options: keep them meaningful for it
            bck = {k: v for k, v in bck.items() if k in FREE_KEYS}
        callee = impl
    else:
        callee = closed_impl(fn, prob)
    rec = Rec(callee)

    # backward configuration
    brec = None
    bckmode = case["bckmode"]
    if operation:
        bck_arg = None
        bck = {}
    elif fn in SOLVE_FAMILY:
        if bckmode == "rec":
            brec = Rec(lambda A, B, E=None, M=None, **kw: dense_solve(A, B, E, M))
            bck["method"] = flavoured(brec, flavor)
        bck_arg = bck if (bck or bckmode != "none") else None
    elif fn == "solve_ivp":
        if kind == "closed" and bckmode == "rec":
            # the caller's accurate integrator as backward method and no tolerances among the options: every nested integration
            # (the adjoint, and the adjoint of the adjoint at second order) has to be done by this callable to meet the tolerance
            brec = Rec(accurate_impl(fn))
            bck["method"] = flavoured(brec, flavor)
        elif kind == "closed":
            bck.update({"method": "rk45", "rtol": 1e-10, "atol": 1e-10})
        elif bckmode == "rec":
            brec = Rec(builtin_impl(fn, case["wrapped"]))
            bck["method"] = flavoured(brec, flavor)
        bck_arg = bck if (bck or bckmode != "none") else None
    elif fn == "quad":
        if kind == "closed" and bckmode == "rec":
            # as above; "n" is the caller's own option (a 2-point rule if a built-in were to read it)
            brec = Rec(accurate_impl(fn))
            bck.update({"method": flavoured(brec, flavor), "n": 2})
        elif kind == "closed":
            bck.update({"method": "leggauss", "n": 24})
        elif bckmode == "rec":
            brec = Rec(builtin_impl(fn, case["wrapped"]))
            bck["method"] = flavoured(brec, flavor)
        bck_arg = bck if (bck or bckmode != "none") else None
    else:   # mcquad
        bck_arg = bck if (bck or bckmode != "none") else None

    counters = (rec,) if brec is None else (rec, brec)
    res = evaluate(prob, case, flavoured(rec, flavor), fwd, bck_arg, order, case["seed"] + 1, counters=counters)

    # ---- what the callable saw
    if not rec.calls:
        return violation("not_called", "%s never called the callable given as method" % fn, labels)
    first = rec.calls[0]
    err = check_args(fn, prob, first["args"])
    if err:
        return violation("args", "%s called the callable with unexpected positional arguments: %s" % (fn, err), labels)
    if not _same_opts(first["kwargs"], fwd):
        return violation("options", "%s passed options %r to the callable, the caller's fwd options are %r (bck_options %r)" % (
            fn, sorted(first["kwargs"].items(), key=str), sorted(fwd.items(), key=str), sorted(map(str, bck))), labels)
    if not operation and first["grad"]:
        return violation("grad_enabled", "%s called the callable with gradient recording enabled" % fn, labels)
    # later calls of the same callable: the backward of solve_ivp / quad re-uses the forward method
    merged = dict(fwd)
    merged.update({k: v for k, v in bck.items() if k != "method"})
    for c in rec.calls[1:]:
        if operation:
            break
        if c["grad"]:
            return violation("grad_enabled", "%s called the callable with gradient recording enabled (in the backward)" % fn, labels)
        if fn in ("solve_ivp", "quad", "mcquad"):
            if not _same_opts(c["kwargs"], merged):
                return violation("bck_options_merge", "%s backward passed options %r to the inherited method; documented: fwd options %r "
                                 "overridden by bck_options %r" % (fn, sorted(c["kwargs"].items(), key=str), sorted(fwd.items(), key=str),
                                                                   sorted((k, v) for k, v in bck.items() if k != "method")), labels)
        else:
            return violation("called_again", "%s called the forward callable %d times" % (fn, len(rec.calls)), labels)
    if brec is not None and res["g1"] is not None:
        if not brec.calls:
            return violation("bck_method_not_called", "%s: the callable given as bck_options['method'] was never called in the backward" % fn, labels)
        if fn in SOLVE_FAMILY:
            want = {k: v for k, v in bck.items() if k not in ("method", "degen_atol", "degen_rtol")} if fn in ("symeig", "svd") else \
                {k: v for k, v in bck.items() if k != "method"}
        else:
            want = merged
        for c in brec.calls:
            if c["grad"]:
                return violation("grad_enabled", "%s called the backward callable with gradient recording enabled" % fn, labels)
            if not _same_opts(c["kwargs"], want):
                return violation("bck_options", "%s backward passed options %r to the backward callable, expected %r (fwd options %r)" % (
                    fn, sorted(c["kwargs"].items(), key=str), sorted(want.items(), key=str), sorted(fwd.items(), key=str)), labels)
    # ---- who did the linear solves / integrations of each differentiation order: the caller's backward method (the callable given as
    # bck_options["method"]; for solve_ivp / quad without one, the inherited forward callable) has to do all of them
    nc = res["ncalls"]
    who = None
    if brec is not None:
        who, col = "the callable given as bck_options['method']", 1
    elif fn in ("solve_ivp", "quad") and kind == "wrap":
        who, col = "the forward callable (inherited as backward method)", 0
    if who is not None and len(nc) >= 2:
        c1 = nc[1][col] - nc[0][col]
        labels = labels + ["bckcalls1=%d" % c1]
        if c1 < 1:
            return violation("bck_method_not_called", "%s: %s was never called in the backward" % (fn, who), labels)
        if len(nc) >= 3:
            c2 = nc[2][col] - nc[1][col]
            labels = labels + ["bckcalls2=%d" % c2]
            if c2 < REENTRY[fn] * c1:
                return violation("bck_method_skipped_at_second_order",
                                 "%s: %s did %d solve(s)/integration(s) in the first-order pass but only %d in the second-order pass; differentiating "
                                 "the first-order gradient takes at least %d (one per first-order backward solve%s): some other solver did the rest" % (
                                     fn, who, c1, c2, REENTRY[fn] * c1,
                                     " and the first-order backward again for the dependence on the functional's output" if REENTRY[fn] == 2 else ""),
                                 labels)
            if len(nc) >= 4:
                c3 = nc[3][col] - nc[2][col]
                labels = labels + ["bckcalls3=%d" % c3]
                if c3 < REENTRY[fn] * c2:
                    return violation("bck_method_skipped_at_third_order",
                                     "%s: %s did %d / %d solve(s)/integration(s) in the first / second-order pass but only %d in the third-order pass; "
                                     "differentiating the second-order gradient takes at least %d (one per second-order solve%s)" % (
                                         fn, who, c1, c2, c3, REENTRY[fn] * c2,
                                         ", and the second-order pass again on a new cotangent" if REENTRY[fn] == 2 else ""), labels)
    # ---- the functional returns the callable's value
    raw = getattr(prob, "raw", None) or res["outs"]
    if not _ret_matches(fn, prob, first["ret"], raw):
        return violation("return_value", "%s did not return the callable's value" % fn, labels)

    # ---- gradients
    if kind == "closed":
        ref = evaluate_ref(prob, order, case["seed"] + 1, case.get("cot", 1.0))
        v, nonzero = compare_ref(res, ref, prob, order, "%s with a closed-form callable (data unit %g, cotangent magnitude %g)" % (
            fn, getattr(prob, "unit", 1.0), case.get("cot", 1.0)), labels, case.get("cot", 1.0))
        if v is not None:
            return v
        if fn in ("symeig", "svd"):
            # the built-in that reaches the same solution: custom_exacteig (dense eigh, implicit backward)
            prob2, _ = build(case)
            bck2 = None
            if bck_arg is not None:
                bck2 = dict(bck_arg)
                if brec is not None:
                    bck2["method"] = Rec(lambda A, B, E=None, M=None, **kw: dense_solve(A, B, E, M))
            res2 = evaluate(prob2, case, "custom_exacteig", fwd, bck2, order, case["seed"] + 1)
            if _eq_list(res2["outs"], res["outs"]):
                v = compare_exact(res2, res, "%s: closed-form callable vs method='custom_exacteig' (identical forward values)" % fn, labels)
                if v is not None:
                    return v
                labels = labels + ["eig_builtin_forward=identical"]
            else:
                labels = labels + ["eig_builtin_forward=differs"]
        return ok(labels, nontrivial=bool(nonzero))
    # wrap: bit-identical with the built-in's name and the same options (symeig / svd: the name path is given the canonical spelling of
    # `mode`, the callable path the caller's spelling: the wrapped built-in must be handed the same value in both)
    prob2, _ = build(canonical_case(case))
    bck2 = None
    if bck_arg is not None:
        bck2 = dict(bck_arg)
        if brec is not None:
            if fn in SOLVE_FAMILY:
                bck2["method"] = Rec(lambda A, B, E=None, M=None, **kw: dense_solve(A, B, E, M))
            else:
                bck2["method"] = case["wrapped"]
    res2 = evaluate(prob2, case, case["wrapped"], fwd, bck2, order, case["seed"] + 1)
    what = "%s: callable wrapping %r vs method=%r" % (fn, case["wrapped"], case["wrapped"])
    if "mode" in case["prob"] and case["prob"]["mode"] != canon_mode(case["prob"]["mode"]):
        what += " (mode=%r vs mode=%r)" % (case["prob"]["mode"], canon_mode(case["prob"]["mode"]))
    v = compare_exact(res2, res, what, labels)
    if v is not None:
        return v
    g1 = res["g1"]
    nontrivial = g1 is not None and any(x is not None and x.numel() and float(x.abs().max()) > 0 for x in g1)
    return ok(labels, nontrivial=nontrivial)


def optdict_st(draw, keys, maxn):
    ks = draw(st.lists(st.sampled_from(keys), unique=True, min_size=0, max_size=maxn))
    vals = st.one_of(st.integers(0, 40), st.sampled_from([1e-3, 0.5, 2.0, 1e-7]), st.booleans(), st.sampled_from(["abc", "none", "__none__"]))
    return {k: draw(vals) for k in ks}


ROOT_FAMILY = ("rootfinder", "equilibrium", "minimize")


def third_order_applies(fn, kind, bckmode):
    """a third differentiation is run where a backward method of the caller can be observed (who does the nested solves / integrations
    of every order, with which options, in which grad mode)"""
    return (fn in SOLVE_FAMILY and bckmode == "rec") or (fn in ("solve_ivp", "quad") and (bckmode == "rec" or kind == "wrap"))


def enlarge(fn, prob, bckmode, choose, integer):
    """custom task only: the operator of solve may be the caller's own LinearOperator subclass, and with a recording callable as backward
    method the problem may have more than 5 unknowns, where the *automatic* choice of a backward solver would be an iterative method
    with default tolerances (cg / bicgstab: relative residual 1e-6): a nested solve that is not done by the caller's exact callable
    then misses the second-order tolerance by orders of magnitude.  choose(list) / integer(lo, hi) draw."""
    big = bckmode == "rec" and choose([False, True, True])
    if fn == "solve":
        prob["op"] = "custom" if big else choose(["matrix", "custom"])
        if big:
            prob["n"] = integer(8, 12)
    elif fn in ROOT_FAMILY and big:
        prob["n"] = integer(6, 10)
    return prob


@st.composite
def custom_st(draw, tier="quick"):
    fn = draw(st.sampled_from(FUNCTIONALS))
    kind = draw(st.sampled_from(["closed", "closed", "wrap"]))
    wrapped = draw(st.sampled_from(WRAPPABLE[fn])) if kind == "wrap" else None
    fwd = optdict_st(draw, FREE_KEYS + REAL_KEYS, 3)
    bck = optdict_st(draw, FREE_KEYS + REAL_KEYS, 3)
    bckmode = draw(st.sampled_from(["none", "opts", "rec", "rec"]))
    if bckmode == "none":
        bck = {}
    if fn in ("symeig", "svd") and bckmode != "none" and draw(st.booleans()):
        bck["degen_atol"] = draw(st.sampled_from([1e-9, 1e-7]))
        bck["degen_rtol"] = draw(st.sampled_from([1e-9, 1e-7]))
    flavor = draw(st.sampled_from(FLAVORS))
    order = draw(st.sampled_from([1, 2]))
    if order == 2 and third_order_applies(fn, kind, bckmode) and draw(st.sampled_from([False, False, True])):
        order = 3
    exact = kind == "closed"
    prob = enlarge(fn, prob_st(draw, fn, exact), bckmode, lambda xs: draw(st.sampled_from(xs)), lambda lo, hi: draw(st.integers(lo, hi)))
    return {"fn": fn, "kind": kind, "wrapped": wrapped, "fwd": fwd, "bck": bck, "bckmode": bckmode, "flavor": flavor,
            "order": order, "prob": prob, "cot": draw(st.sampled_from(cot_choices(fn, exact))), "seed": draw(st.integers(0, 2 ** 31 - 2))}


# ------------------------------------------------------------------------------------------------
# exhaustive part of the quantifier: every functional x every built-in name / wrappable built-in, each run

def prob_rand(fn, r, exact=False):
    """python-random twin of prob_st for the enumerated tasks"""
    prob = _prob_rand(fn, r)
    prob["unit"] = r.choice(unit_choices(fn, exact))
    return prob


def _prob_rand(fn, r):
    if fn == "solve":
        sym, E = r.random() < 0.5, r.random() < 0.5
        return {"n": r.randint(2, 4), "ncols": r.randint(1, 3), "sym": sym, "E": E, "M": E and sym and r.random() < 0.5}
    if fn == "symeig":
        n = r.randint(3, 5)
        return {"n": n, "neig": r.choice([None] + list(range(1, n))), "mode": r.choice(MODE_SPELLINGS), "M": r.random() < 0.5}
    if fn == "svd":
        m, n = r.randint(2, 4), r.randint(2, 4)
        return {"m": m, "n": n, "k": r.randint(1, min(m, n)), "mode": r.choice(MODE_SPELLINGS)}
    if fn in ("rootfinder", "equilibrium", "minimize"):
        return {"n": r.randint(1, 3)}
    if fn == "solve_ivp":
        return {"steps": [r.choice([0.2, 0.3, 0.45, 0.6]) for _ in range(r.randint(1, 3))], "backward_time": r.random() < 0.5,
                "t0": r.choice([0.0, 0.5, -1.0]), "ystate": r.choice(["tensor", "tensor", "tuple", "list"])}
    if fn == "quad":
        forms = ["float", "t", "tg"]
        return {"m": r.randint(1, 3), "xl": round(r.uniform(-1.5, 1.5), 3), "xu": round(r.uniform(-1.5, 1.5), 3),
                "xlform": r.choice(forms), "xuform": r.choice(forms)}
    if fn == "mcquad":
        return {"nodes": r.randint(3, 9)}
    if fn == "interp1d":
        return {"nr": r.randint(4, 7), "nq": r.randint(1, 4), "shuffled": r.random() < 0.5, "assume_sorted": r.random() < 0.5,
                "y_at_call": r.random() < 0.5}
    if fn == "squad":
        batch = [r.randint(1, 3) for _ in range(r.randint(0, 2))]
        return {"nx": r.randint(3, 7), "batch": batch, "dim": r.randint(-(len(batch) + 1), len(batch)),
                "op": r.choice(["cumsum", "integrate"]), "keepdim": r.random() < 0.5}
    raise ValueError(fn)


def _base_seed():
    import os
    import zlib
    v = os.environ.get("VERIF_SEED", "1")
    return zlib.crc32(("c18|" + v).encode()) & 0x3FFFFFFF


def _sharded(cases, shard, nshards):
    import random
    base = _base_seed()
    for i, mk in enumerate(cases):
        if i % nshards != shard:
            continue
        r = random.Random(base + 7919 * i)
        yield mk(r, (base + 104729 * i) % (2 ** 31 - 2))


def _alt_mask(name):
    m, up = [], True
    for ch in name:
        m.append(1 if (ch.isalpha() and up) else 0)
        if ch.isalpha():
            up = not up
    return m


def enum_names(tier, shard, nshards):
    cases = []
    for fn in FUNCTIONALS:
        for method in BUILTINS[fn]:
            for style in ("upper", "capital", "alt"):
                for order in (1, 2):
                    def mk(r, seed, fn=fn, method=method, style=style, order=order):
                        first = next(i for i, ch in enumerate(method) if ch.isalpha())
                        mask = {"upper": [1], "capital": [1 if i == first else 0 for i in range(len(method))], "alt": _alt_mask(method)}[style]
                        return {"fn": fn, "method": method, "where": "fwd", "bname": None, "mask": mask, "order": order,
                                "prob": prob_rand(fn, r), "cot": r.choice(cot_choices(fn, False)), "seed": seed}
                    cases.append(mk)
        for bname in BCK_NAMES.get(fn, []):
            def mk(r, seed, fn=fn, bname=bname):
                method = r.choice([m for m in BUILTINS[fn] if m not in DIRECT])
                return {"fn": fn, "method": method, "where": "bck", "bname": bname, "mask": r.choice([[1], _alt_mask(bname)]),
                        "order": r.choice([1, 2]), "prob": prob_rand(fn, r), "cot": r.choice(cot_choices(fn, False)), "seed": seed}
            cases.append(mk)
    return _sharded(cases, shard, nshards)


def enum_unknown(tier, shard, nshards):
    cases = []
    for fn in FUNCTIONALS:
        for where in ("fwd", "bck"):
            if where == "bck" and fn not in BCK_NAMES:
                continue
            table = sorted(members(fn)) if where == "fwd" else list(BCK_NAMES[fn])
            names = [("empty", "")] + [("append", m + "x") for m in table] + [("drop", m[:-1]) for m in table] + [("inner", m[:2] + "_" + m[2:]) for m in table]
            for style, name in names:
                def mk(r, seed, fn=fn, where=where, style=style, name=name):
                    prob = prob_rand(fn, r)
                    if fn == "solve" and where == "fwd":
                        prob["zeroB"] = r.random() < 0.3
                    return {"fn": fn, "where": where, "name": name, "style": style,
                            "method": r.choice([m for m in BUILTINS[fn] if m not in DIRECT]), "prob": prob, "seed": seed}
                cases.append(mk)
    return _sharded(cases, shard, nshards)


def enum_custom(tier, shard, nshards):
    cases = []
    for fn in FUNCTIONALS:
        for kind, wrapped in [("closed", None)] + [("wrap", w) for w in WRAPPABLE[fn]]:
            for order in (1, 2):
                for bckmode in ("none", "rec"):
                    def mk(r, seed, fn=fn, kind=kind, wrapped=wrapped, order=order, bckmode=bckmode):
                        fwd = {k: r.choice([3, 0.5, True, "abc", "__none__"]) for k in r.sample(FREE_KEYS + REAL_KEYS, r.randint(0, 3))}
                        bck = {} if bckmode == "none" else {k: r.choice([7, 1e-3, False, "none"]) for k in r.sample(FREE_KEYS + REAL_KEYS, r.randint(0, 3))}
                        flavor = r.choice(FLAVORS)
                        if order == 2 and third_order_applies(fn, kind, bckmode) and r.random() < 0.34:
                            order = 3
                        exact = kind == "closed"
                        prob = enlarge(fn, prob_rand(fn, r, exact), bckmode, r.choice, r.randint)
                        return {"fn": fn, "kind": kind, "wrapped": wrapped, "fwd": fwd, "bck": bck, "bckmode": bckmode, "flavor": flavor,
                                "order": order, "prob": prob, "cot": r.choice(cot_choices(fn, exact)), "seed": seed}
                    cases.append(mk)
    return _sharded(cases, shard, nshards)


def tasks(tier):
    return [
        Task("names_all", enumerate=enum_names, run=run_names),
        Task("unknown_all", enumerate=enum_unknown, run=run_unknown),
        Task("custom_all", enumerate=enum_custom, run=run_custom),
        Task("names", strategy=names_st(tier), run=run_names, examples={"quick": 700, "thorough": 12000}),
        Task("unknown", strategy=unknown_st(tier), run=run_unknown, examples={"quick": 300, "thorough": 5000}),
        Task("custom", strategy=custom_st(tier), run=run_custom, examples={"quick": 1100, "thorough": 18000}),
    ]
