"""C20 — Packer round-trips any nested structure, preserving aliasing and its input.

Case = {"struct": tree, "pool": [[shape, dtype], ...], "ops": [op, ...]}
tree nodes: {"t":"T","i":k} tensor slot from the pool | {"t":"leaf","v":x} | {"t":"list","c":[..]}
            {"t":"dict","k":[..],"c":[..]} | {"t":"obj","k":[..],"c":[..]} | {"t":"tuple","c":[..]} (opaque; may hold a list of leaves)
            {"t":"mleaf","kind":set|bytearray|ndarray,"v":[ints]}  mutable non-tensor content the traversal does not descend into
ops: ["get_list",u] ["get_flat",u] ["cons_list",u,mode,k,mutate] ["cons_flat",u,mode,layout,mutate]
     mode in ok | short | long | badshape ; u = unique flag ; layout of the flat argument in contig | offset | strided | column
     mutate: after a successful rebuild the caller edits, in place, every mutable non-tensor leaf of the RESULT
     ["edit_orig",0]: the caller edits ITS OWN object (non-tensor values replaced, containers grown) after handing it to Packer;
     "obj" nodes with "callable": true are instances of a class defining __call__
Oracle: model traversal written here (independent of xitorch), see DESIGN.md C20.
"""
from __future__ import annotations

import torch
from hypothesis import strategies as st
from hypothesis.stateful import RuleBasedStateMachine, rule, initialize, precondition

from pbt.harness import Task, ok, violation, discard

PID = "C20"
RULE = ("Hypothesis RuleBasedStateMachine: one Packer per history over a generated nested structure "
        "(lists/dicts/attribute objects/opaque tuples/non-tensor leaves, depth<=4, <=12 tensor slots filled "
        "from a pool of 1..4 tensors => aliasing patterns), rules = the four public methods x unique flag x "
        "{correct, too short, too long, wrong shape} argument. Non-trivial = history contains a successful "
        "construct_* on a structure with >=2 tensor slots; distinct by (structure shape, aliasing pattern, op sequence). "
        "The flat argument of construct_from_tensor is supplied contiguous, as an offset slice, with stride 2 or as a matrix column; "
        "structures carry mutable non-tensor content (sets, bytearrays, numpy arrays, lists inside tuples) that the caller edits in "
        "the rebuilt structure between rebuilds; the caller also edits its own original object (values replaced, containers grown) at any "
        "point after handing it over - the Packer keeps the structure it was given; attribute objects include callable ones. "
        "Round 5: a container may be referenced a second time further on in the structure (node 'ref'; <= 24 slots with the repeated listing): "
        "the listing and the refill must walk the same traversal, so every slot after the second occurrence still holds its own tensor.")
ASSUMPTIONS = [
    "a container (list/dict/object) may be reachable through two paths of the structure (a second reference to a container completed "
    "earlier in the build order: no cycles); the traversal lists its tensors at every occurrence, and for the non-unique interfaces the "
    "caller supplies the same tensor for the traversal positions of one physical slot (otherwise 'position i holds the i-th supplied "
    "tensor' cannot hold for both positions); nothing is asserted about whether the rebuilt structure shares the container the same way",
    "tensors inside tuples are opaque to Packer (documented traversal: list elements, dict values, __dict__)",
    "construct_* called before the matching get_* must raise (RuntimeError or AssertionError accepted)",
]

DTYPES = {"f32": torch.float32, "f64": torch.float64, "i64": torch.int64, "c128": torch.complex128}


class Obj:
    pass


class Obj2:
    clsattr = 3


class ObjCall:
    """an attribute-bearing object that happens to be callable (as every torch.nn.Module, functor or bound configuration object is)"""

    def __call__(self, x):
        return x


OBJ_TYPES = (Obj, Obj2, ObjCall)


# ------------------------------------------------------------------ building / model

def build(tree, pool, reg=None):
    """reg: the containers completed so far, in the order in which expand_refs numbered them (node["cid"]); a node {"t": "ref"} is the
    SAME container object as the completed container number node["idx"] (a container reachable through two paths of the structure)"""
    reg = [] if reg is None else reg
    t = tree["t"]
    if t == "T":
        return pool[tree["i"]]
    if t == "leaf":
        return tree["v"]
    if t == "mleaf":
        return build_mleaf(tree)
    if t == "ref":
        return reg[tree["idx"]]
    if t == "tuple":
        return tuple(build(c, pool, reg) for c in tree["c"])
    if t == "list":
        o = [build(c, pool, reg) for c in tree["c"]]
    elif t == "dict":
        o = {k: build(c, pool, reg) for k, c in zip(tree["k"], tree["c"])}
    elif t == "obj":
        o = ObjCall() if tree.get("callable") else Obj() if len(tree["k"]) % 2 == 0 else Obj2()
        for k, c in zip(tree["k"], tree["c"]):
            setattr(o, k, build(c, pool, reg))
    else:
        raise ValueError(t)
    if "cid" in tree:
        assert tree["cid"] == len(reg)
        reg.append(o)
    return o


MAX_SLOTS_WITH_REFS = 24


def expand_refs(tree):
    """Resolve the generated nodes {"t": "ref", "to": k}: the k-th (modulo) container completed before this point of the build order,
    preferring containers that hold at least one tensor slot, is referenced a second time; the node gets the referenced subtree as
    "sub" (its slots are listed again by the documented traversal). Without a completed container, or beyond 24 slots, the node becomes
    a plain leaf. Containers are numbered in completion order ("cid"). Trees without ref nodes come back unchanged apart from "cid"."""
    done = []
    nslots = [0]

    def walk(node):
        t = node["t"]
        if t == "T":
            nslots[0] += 1
            return node
        if t == "ref":
            cands = [i for i, d in enumerate(done) if _count_slots(d) > 0] or list(range(len(done)))
            if not cands:
                return {"t": "leaf", "v": None}
            idx = cands[node["to"] % len(cands)]
            if nslots[0] + _count_slots(done[idx]) > MAX_SLOTS_WITH_REFS:
                return {"t": "leaf", "v": None}
            nslots[0] += _count_slots(done[idx])
            return {"t": "ref", "idx": idx, "sub": done[idx]}
        if t in ("list", "dict", "obj"):
            new = dict(node)
            new["c"] = [walk(c) for c in node["c"]]
            new["cid"] = len(done)
            done.append(new)
            return new
        return node
    return walk(tree)


def has_refs(tree):
    return tree["t"] == "ref" or (tree["t"] in ("list", "dict", "obj") and any(has_refs(c) for c in tree["c"]))


def physical_slots(tree, obj, out):
    """(id of the container, key) of every tensor slot in traversal order: two traversal positions with the same entry are one physical
    slot (inside a container that is referenced twice)"""
    t = tree["t"]
    if t == "ref":
        return physical_slots(tree["sub"], obj, out)
    if t == "list":
        for i, c in enumerate(tree["c"]):
            out.append((id(obj), i)) if c["t"] == "T" else physical_slots(c, obj[i], out)
    elif t == "dict":
        for k, c in zip(tree["k"], tree["c"]):
            out.append((id(obj), k)) if c["t"] == "T" else physical_slots(c, obj[k], out)
    elif t == "obj":
        for k, c in zip(tree["k"], tree["c"]):
            out.append((id(obj), k)) if c["t"] == "T" else physical_slots(c, obj.__dict__[k], out)
    elif t == "T":
        out.append((0, "root"))
    return out


def build_mleaf(tree):
    import numpy as np
    k, v = tree["kind"], tree["v"]
    return set(v) if k == "set" else bytearray(v) if k == "bytearray" else np.array(v, dtype=np.int64)


def mleaf_equal(a, b):
    import numpy as np
    if type(a) is not type(b):
        return False
    return bool(np.array_equal(a, b)) if isinstance(a, np.ndarray) else a == b


MUTABLE_LEAF_TYPES = None


def _mtypes():
    global MUTABLE_LEAF_TYPES
    if MUTABLE_LEAF_TYPES is None:
        import numpy as np
        MUTABLE_LEAF_TYPES = (set, bytearray, np.ndarray)
    return MUTABLE_LEAF_TYPES


def mutate_leaves(obj):
    """what a caller may do with a structure it was handed: edit its mutable non-tensor content in place"""
    import numpy as np
    n = 0
    if isinstance(obj, torch.Tensor):
        return 0
    if isinstance(obj, set):
        obj.add(99)
        return 1
    if isinstance(obj, bytearray):
        obj.append(9)
        return 1
    if isinstance(obj, np.ndarray):
        if obj.size:
            obj += 1
            return 1
        return 0
    if isinstance(obj, tuple):
        for e in obj:
            if isinstance(e, list):
                e.append(99)
                n += 1
            else:
                n += mutate_leaves(e)
    elif isinstance(obj, list):
        for e in obj:
            n += mutate_leaves(e)
    elif isinstance(obj, dict):
        for e in obj.values():
            n += mutate_leaves(e)
    elif isinstance(obj, OBJ_TYPES):
        for e in obj.__dict__.values():
            n += mutate_leaves(e)
    return n


def edit_original(obj):
    """what the caller may do with ITS OWN object after handing it to Packer: change non-tensor values, grow containers"""
    n = mutate_leaves(obj)
    if isinstance(obj, list):
        for i, e in enumerate(obj):
            if isinstance(e, (int, float, str)) and not isinstance(e, bool):
                obj[i] = 777
                n += 1
            else:
                n += edit_original(e) if isinstance(e, (list, dict) + OBJ_TYPES) else 0
        obj.append(555)
        n += 1
    elif isinstance(obj, dict):
        for k, e in list(obj.items()):
            if isinstance(e, (int, float, str)) and not isinstance(e, bool):
                obj[k] = 777
                n += 1
            else:
                n += edit_original(e) if isinstance(e, (list, dict) + OBJ_TYPES) else 0
        obj["zz_added"] = 555
        n += 1
    elif isinstance(obj, OBJ_TYPES):
        for k, e in list(obj.__dict__.items()):
            if isinstance(e, (int, float, str)) and not isinstance(e, bool):
                obj.__dict__[k] = 777
                n += 1
            else:
                n += edit_original(e) if isinstance(e, (list, dict) + OBJ_TYPES) else 0
        obj.zz_added = 555
        n += 1
    return n


def model_slots(tree, out):
    """pool indices in documented traversal order (tuples are opaque)"""
    t = tree["t"]
    if t == "T":
        out.append(tree["i"])
    elif t == "ref":
        model_slots(tree["sub"], out)       # the traversal descends into a container every time it meets it
    elif t in ("list", "dict", "obj"):
        for c in tree["c"]:
            model_slots(c, out)
    return out


def snapshot(obj, out):
    """identity snapshot of the original structure (containers, tensors, everything reachable)"""
    out.append((id(obj), type(obj)))
    if isinstance(obj, torch.Tensor):
        out.append(("val", obj.clone()))
    elif isinstance(obj, (list, tuple)):
        out.append(len(obj))
        for e in obj:
            snapshot(e, out)
    elif isinstance(obj, dict):
        out.append(tuple(obj.keys()))
        for e in obj.values():
            snapshot(e, out)
    elif isinstance(obj, OBJ_TYPES):
        out.append(tuple(obj.__dict__.keys()))
        for e in obj.__dict__.values():
            snapshot(e, out)
    else:
        out.append(("leaf", repr(obj)))
    return out


def snap_equal(a, b):
    if len(a) != len(b):
        return False
    for x, y in zip(a, b):
        if isinstance(x, tuple) and len(x) == 2 and x[0] == "val":
            if not (isinstance(y, tuple) and y[0] == "val" and torch.equal(x[1], y[1])):
                return False
        elif x != y:
            return False
    return True


def container_ids(obj, out):
    if isinstance(obj, (list, tuple)):
        if not isinstance(obj, tuple):
            out.add(id(obj))
        for e in obj:
            container_ids(e, out)
    elif isinstance(obj, dict):
        out.add(id(obj))
        for e in obj.values():
            container_ids(e, out)
    elif isinstance(obj, OBJ_TYPES):
        out.add(id(obj))
        for e in obj.__dict__.values():
            container_ids(e, out)
    elif isinstance(obj, _mtypes()):
        out.add(id(obj))
    return out


def compare(tree, new, orig, slots_expected, cursor, by_identity, errs, path="$"):
    """walk the rebuilt structure against the tree description"""
    t = tree["t"]
    if t == "ref":
        return compare(tree["sub"], new, orig, slots_expected, cursor, by_identity, errs, path + "<shared>")
    if t == "T":
        j = cursor[0]
        cursor[0] += 1
        exp = slots_expected[j]
        if not isinstance(new, torch.Tensor):
            errs.append("%s: expected tensor, got %s" % (path, type(new).__name__))
        elif by_identity:
            if new is not exp:
                errs.append("%s: slot %d does not hold the supplied tensor object" % (path, j))
        else:
            if new.shape != exp.shape or not torch.equal(new.to(exp.dtype), exp):
                errs.append("%s: slot %d value/shape differs from the supplied data" % (path, j))
        return
    if t == "leaf":
        if type(new) is not type(tree["v"]) or new != tree["v"]:
            errs.append("%s: leaf %r != %r" % (path, new, tree["v"]))
        return
    if t == "mleaf":
        if not mleaf_equal(new, build_mleaf(tree)):
            errs.append("%s: non-tensor content %r != %r" % (path, new, build_mleaf(tree)))
        elif new is orig:
            errs.append("%s: mutable non-tensor content is shared with the original, not copied" % path)
        return
    if t == "tuple":
        if not isinstance(new, tuple) or len(new) != len(tree["c"]):
            errs.append("%s: tuple mismatch" % path)
            return
        for i, c in enumerate(tree["c"]):
            if c["t"] == "T":
                if not isinstance(new[i], torch.Tensor) or not torch.equal(new[i], orig[i]):
                    errs.append("%s[%d]: tensor inside tuple changed" % (path, i))
            elif c["t"] == "leaf":
                if new[i] != c["v"]:
                    errs.append("%s[%d]: leaf in tuple changed" % (path, i))
            elif c["t"] == "list":
                if type(new[i]) is not list or new[i] != [x["v"] for x in c["c"]]:
                    errs.append("%s[%d]: list inside tuple %r != %r" % (path, i, new[i], [x["v"] for x in c["c"]]))
            elif c["t"] == "mleaf":
                if not mleaf_equal(new[i], build_mleaf(c)):
                    errs.append("%s[%d]: non-tensor content inside tuple %r != %r" % (path, i, new[i], build_mleaf(c)))
        return
    if t == "list":
        if type(new) is not list or len(new) != len(tree["c"]):
            errs.append("%s: list type/len mismatch" % path)
            return
        for i, c in enumerate(tree["c"]):
            compare(c, new[i], orig[i], slots_expected, cursor, by_identity, errs, "%s[%d]" % (path, i))
        return
    if t == "dict":
        if type(new) is not dict or list(new.keys()) != list(tree["k"]):
            errs.append("%s: dict keys %r != %r" % (path, list(new.keys()) if isinstance(new, dict) else None, tree["k"]))
            return
        for k, c in zip(tree["k"], tree["c"]):
            compare(c, new[k], orig[k], slots_expected, cursor, by_identity, errs, "%s[%r]" % (path, k))
        return
    if t == "obj":
        if type(new) is not type(orig) or list(new.__dict__.keys()) != list(tree["k"]):
            errs.append("%s: object type/attrs mismatch" % path)
            return
        for k, c in zip(tree["k"], tree["c"]):
            compare(c, new.__dict__[k], orig.__dict__[k], slots_expected, cursor, by_identity, errs, "%s.%s" % (path, k))
        return


def make_pool(pool_desc):
    g = torch.Generator().manual_seed(12345)
    pool = []
    for i, (shape, dt) in enumerate(pool_desc):
        dtype = DTYPES[dt]
        if dtype == torch.int64:
            t = torch.randint(-50, 50, tuple(shape), generator=g)
        else:
            t = torch.randn(tuple(shape), generator=g, dtype=torch.float64).to(dtype) + i
        pool.append(t)
    return pool


# ------------------------------------------------------------------ the interpreter (= replay)

def run_case(case):
    from xitorch import Packer
    tree, pool_desc, ops = expand_refs(case["struct"]), case["pool"], case["ops"]
    pool = make_pool(pool_desc)
    obj = build(tree, pool)
    shared = has_refs(tree)
    snap0 = snapshot(obj, [])
    orig_containers = container_ids(obj, set())
    slot_pool = model_slots(tree, [])                   # pool index per slot
    all_tensors = [pool[i] for i in slot_pool]
    first = {}
    uniq_idx, inverse = [], []
    for j, pi in enumerate(slot_pool):
        if pi not in first:
            first[pi] = len(uniq_idx)
            uniq_idx.append(j)
        inverse.append(first[pi])
    uniq_tensors = [all_tensors[j] for j in uniq_idx]
    nslots = len(slot_pool)
    # a container referenced twice is listed twice: its traversal positions are the same physical slots. For the non-unique interfaces
    # the caller's list is made consistent with that (the same tensor for the positions of one physical slot) -- otherwise "position i
    # holds the i-th supplied tensor" cannot hold for both positions, whatever the implementation
    pslots = physical_slots(tree, obj, [])
    assert len(pslots) == nslots
    first_phys = {}
    phys = [first_phys.setdefault(ps, j) for j, ps in enumerate(pslots)]
    nshared_slots = sum(1 for j in range(nslots) if phys[j] != j)

    packer = Packer(obj)
    got_list = {True: False, False: False}
    got_flat = {True: False, False: False}
    kept = []           # keep results alive (ids must stay unique)
    result_containers = set()
    n_ok_construct = 0
    n_mutated = 0
    n_orig_edits = 0
    layouts_used = set()
    gsup = torch.Generator().manual_seed(999)

    def expected_list(u):
        return uniq_tensors if u else all_tensors

    def fresh_like(ts, bump=0):
        out = []
        for k, t in enumerate(ts):
            if t.dtype == torch.int64:
                out.append(torch.randint(100, 1000, tuple(t.shape), generator=gsup))
            else:
                out.append((torch.rand(tuple(t.shape), generator=gsup, dtype=torch.float64) + 10 + k).to(t.dtype))
        return out

    for step, op in enumerate(ops):
        name, u = op[0], bool(op[1])
        where = "step %d %r" % (step, op)
        if name == "get_list":
            res = packer.get_param_tensor_list(unique=u)
            got_list[u] = True
            exp = expected_list(u)
            if not isinstance(res, list) or len(res) != len(exp) or any(a is not b for a, b in zip(res, exp)):
                return violation("get_list", "%s: returned tensors are not the contained tensors in traversal order "
                                 "(got %d, expected %d)" % (where, len(res), len(exp)))
        elif name == "get_flat":
            res = packer.get_param_tensor(unique=u)
            got_list[u] = True
            exp = expected_list(u)
            if len(exp) == 0:
                if res is not None:
                    return violation("get_flat", "%s: expected None for a structure without tensors" % where)
            else:
                got_flat[u] = True
                if len(exp) == 1:
                    good = isinstance(res, torch.Tensor) and res.shape == exp[0].shape and torch.equal(res, exp[0])
                else:
                    ref = torch.cat([p.reshape(-1) for p in exp])
                    good = isinstance(res, torch.Tensor) and res.shape == ref.shape and torch.equal(res, ref)
                if not good:
                    return violation("get_flat", "%s: flat tensor is not the concatenation of the contained tensors" % where)
        elif name == "cons_list":
            mode = op[2]
            exp = expected_list(u)
            sup = fresh_like(exp)
            if not u:
                sup = [sup[phys[j]] for j in range(len(sup))]
            if mode == "short":
                if len(sup) == 0:
                    mode = "long"
                else:
                    sup = sup[:-1]
            if mode == "long":
                sup = sup + [torch.zeros(2)]
            if mode == "badshape":
                if len(sup) == 0:
                    mode = "ok"
                else:
                    k = op[3] % len(sup)
                    sup[k] = torch.zeros(tuple(sup[k].shape) + (2,), dtype=sup[k].dtype)
            sup_copy = list(sup)
            must_fail = (not got_list[u]) or mode != "ok"
            try:
                new = packer.construct_from_tensor_list(sup, unique=u)
                failed = False
            except (RuntimeError, AssertionError):
                failed = True
            if must_fail and not failed:
                return violation("accepts_invalid", "%s: construct_from_tensor_list accepted %s" % (
                    where, "a call before get_param_tensor_list(%s)" % u if not got_list[u] else "a %s argument" % mode))
            if not must_fail and failed:
                return violation("rejects_valid", "%s: construct_from_tensor_list raised on a valid argument" % where)
            if len(sup) != len(sup_copy) or any(a is not b for a, b in zip(sup, sup_copy)):
                return violation("mutates_argument", "%s: the caller's tensor list was modified" % where)
            if not failed:
                slots_expected = [sup[inverse[j]] for j in range(nslots)] if u else sup
                errs = []
                cur = [0]
                compare(tree, new, obj, slots_expected, cur, True, errs)
                if errs:
                    return violation("reconstruct_list", "%s: %s" % (where, "; ".join(errs[:4])))
                cids = container_ids(new, set())
                if cids & orig_containers:
                    return violation("shares_container", "%s: rebuilt structure shares a container with the original" % where)
                if cids & result_containers:
                    return violation("shares_container", "%s: rebuilt structure shares a container with an earlier result" % where)
                result_containers |= cids
                if nslots > 0:
                    n_ok_construct += 1
                kept.append(new)
                if len(op) > 4 and op[4]:
                    n_mutated += mutate_leaves(new)
        elif name == "cons_flat":
            mode = op[2]
            exp = expected_list(u)
            sup = fresh_like(exp)
            if not u:
                sup = [sup[phys[j]] for j in range(len(sup))]
            if len(exp) == 0:
                a = torch.zeros(0)
                must_fail = not got_list[u]
                mode = "ok"
            else:
                a = sup[0] if len(sup) == 1 else torch.cat([p.reshape(-1) for p in sup])
                if mode == "short":
                    a = a.reshape(-1)[:-1] if a.numel() > 0 else torch.zeros(3, dtype=a.dtype)
                elif mode == "long":
                    a = torch.cat([a.reshape(-1), torch.zeros(2, dtype=a.dtype)])
                else:
                    mode = "ok"
                    layout = op[3] if len(op) > 3 and isinstance(op[3], str) else "contig"
                    if layout != "contig" and a.dim() == 1 and a.numel() > 0:
                        # the same values, laid out differently in memory (all are ordinary 1-D tensors for the caller)
                        n = a.numel()
                        if layout == "offset":
                            big = torch.zeros(n + 5, dtype=a.dtype)
                            big[3:3 + n] = a
                            a = big[3:3 + n]
                        elif layout == "strided":
                            big = torch.zeros(2 * n, dtype=a.dtype)
                            big[::2] = a
                            a = big[::2]
                        elif layout == "column":
                            big = torch.zeros(n, 3, dtype=a.dtype)
                            big[:, 1] = a
                            a = big[:, 1]
                        layouts_used.add(layout)
                must_fail = (not got_flat[u]) or mode != "ok"
            try:
                new = packer.construct_from_tensor(a, unique=u)
                failed = False
            except (RuntimeError, AssertionError):
                failed = True
            if must_fail and not failed:
                return violation("accepts_invalid", "%s: construct_from_tensor accepted %s" % (
                    where, "a call before get_param_tensor(%s)" % u if mode == "ok" else "a %s argument" % mode))
            if not must_fail and failed:
                return violation("rejects_valid", "%s: construct_from_tensor raised on a valid argument" % where)
            if not failed:
                slots_expected = [sup[inverse[j]] for j in range(nslots)] if u else sup
                errs = []
                cur = [0]
                compare(tree, new, obj, slots_expected, cur, False, errs)
                if errs:
                    return violation("reconstruct_flat", "%s: %s" % (where, "; ".join(errs[:4])))
                if nslots > 0:
                    # aliasing: slots of one pool tensor must be one object when unique
                    if u:
                        flat_new = extract_by_tree(tree, new, [])
                        for j in range(nslots):
                            if flat_new[j] is not flat_new[uniq_idx[inverse[j]]]:
                                return violation("alias_lost", "%s: aliased slots are no longer one tensor object" % where)
                    n_ok_construct += 1
                cids = container_ids(new, set())
                if cids & orig_containers or cids & result_containers:
                    return violation("shares_container", "%s: rebuilt structure shares a container" % where)
                result_containers |= cids
                kept.append(new)
                if len(op) > 4 and op[4]:
                    n_mutated += mutate_leaves(new)
        elif name == "edit_orig":
            # the caller goes on using (and changing) its own object; the Packer holds the structure as it was handed over
            n_orig_edits += edit_original(obj)
            snap0 = snapshot(obj, [])
        else:
            raise ValueError(op)
        # the original object must be untouched after every step
        if not snap_equal(snapshot(obj, []), snap0):
            return violation("original_modified", "%s: the object given to Packer was modified" % where)

    # the Packer's later answers are unchanged
    for u in (True, False):
        res = packer.get_param_tensor_list(unique=u)
        exp = expected_list(u)
        if len(res) != len(exp) or any(a is not b for a, b in zip(res, exp)):
            return violation("packer_modified", "after the history, get_param_tensor_list(%s) changed" % u)
    # earlier results keep holding what they were given
    nalias = nslots - len(uniq_idx)
    labels = ["slots=%s" % ("0" if nslots == 0 else "1" if nslots == 1 else "2-4" if nslots <= 4 else "5+"),
              "aliased" if nalias else "noalias", "root=" + tree["t"],
              "caller_edited_result=%s" % (n_mutated > 0), "caller_edited_original=%s" % (n_orig_edits > 0)] + ["flat_layout=" + x for x in sorted(layouts_used)]
    labels.append("shared_container=%s" % ("no" if not shared else "without_slots" if nshared_slots == 0 else
                                           "slots_follow" if any(phys[j] == j and j > min(k for k in range(nslots) if phys[k] != k) for j in range(nslots))
                                           else "last"))
    nontrivial = n_ok_construct > 0 and nslots >= 2
    return ok(labels=labels, nontrivial=nontrivial)


def extract_by_tree(tree, new, out):
    t = tree["t"]
    if t == "T":
        out.append(new)
    elif t == "ref":
        extract_by_tree(tree["sub"], new, out)
    elif t == "list":
        for i, c in enumerate(tree["c"]):
            extract_by_tree(c, new[i], out)
    elif t == "dict":
        for k, c in zip(tree["k"], tree["c"]):
            extract_by_tree(c, new[k], out)
    elif t == "obj":
        for k, c in zip(tree["k"], tree["c"]):
            extract_by_tree(c, new.__dict__[k], out)
    return out


# ------------------------------------------------------------------ generators

NPOOL = 4
_leaf = st.one_of(
    st.builds(lambda i: {"t": "T", "i": i}, st.integers(0, NPOOL - 1)),
    st.builds(lambda i: {"t": "T", "i": i}, st.integers(0, NPOOL - 1)),
    st.builds(lambda v: {"t": "leaf", "v": v}, st.one_of(st.integers(-3, 3), st.none(), st.sampled_from(["a", "xy", 1.5, True]))),
    st.builds(lambda c: {"t": "tuple", "c": c}, st.lists(st.one_of(
        st.builds(lambda v: {"t": "leaf", "v": v}, st.integers(0, 3)),
        st.builds(lambda c: {"t": "list", "c": [{"t": "leaf", "v": v} for v in c]}, st.lists(st.integers(0, 3), max_size=2)),
        st.builds(lambda k, v: {"t": "mleaf", "kind": k, "v": v}, st.sampled_from(["set", "bytearray", "ndarray"]),
                  st.lists(st.integers(0, 5), max_size=3)),
        st.builds(lambda i: {"t": "T", "i": i}, st.integers(0, NPOOL - 1))), max_size=2)),
    st.builds(lambda k, v: {"t": "mleaf", "kind": k, "v": v}, st.sampled_from(["set", "bytearray", "ndarray"]),
              st.lists(st.integers(0, 5), max_size=3)),
)
_keys = st.sampled_from(["a", "b", "c", "d", "e", "w", "x1", "_p"])
# a second reference to a container completed earlier in the build order (resolved by expand_refs)
_ref = st.builds(lambda k: {"t": "ref", "to": k}, st.integers(0, 5))


def _containers(children):
    return st.one_of(
        st.builds(lambda c: {"t": "list", "c": c}, st.lists(children, max_size=4)),
        st.builds(lambda kc: {"t": "dict", "k": [k for k, _ in kc], "c": [c for _, c in kc]},
                  st.lists(st.tuples(_keys, children), max_size=4, unique_by=lambda kc: kc[0])),
        st.builds(lambda kc: {"t": "obj", "k": [k for k, _ in kc], "c": [c for _, c in kc]},
                  st.lists(st.tuples(_keys, children), max_size=4, unique_by=lambda kc: kc[0])),
    )


def _count_slots(tree):
    return len(model_slots(tree, []))


def _depth(tree):
    if tree["t"] in ("list", "dict", "obj"):
        return 1 + max([_depth(c) for c in tree["c"]] + [0])
    return 0


def _clip(tree, budget):
    """keep at most `budget[0]` tensor slots by turning the rest into leaves (construction, not rejection)"""
    t = tree["t"]
    if t == "T":
        if budget[0] <= 0:
            return {"t": "leaf", "v": 0}
        budget[0] -= 1
        return tree
    if t in ("list", "dict", "obj"):
        new = dict(tree)
        new["c"] = [_clip(c, budget) for c in tree["c"]]
        return new
    return tree


_tensor_leaf = st.builds(lambda i: {"t": "T", "i": i}, st.integers(0, NPOOL - 1))


@st.composite
def _tree(draw, depth):
    if depth == 0:
        return draw(st.one_of(_tensor_leaf, _tensor_leaf, _tensor_leaf, _leaf, _ref))
    kind = draw(st.sampled_from(["list", "dict", "obj", "list", "dict", "obj", "T", "leaf", "ref"]))
    if kind == "T":
        return draw(_tensor_leaf)
    if kind == "ref":
        return draw(_ref)
    if kind == "leaf":
        return draw(_leaf)
    n = draw(st.sampled_from([0, 1, 2, 2, 3, 3, 4]))
    children = [draw(_tree(depth - 1)) for _ in range(n)]
    if kind == "list":
        return {"t": "list", "c": children}
    keys = draw(st.lists(_keys, min_size=n, max_size=n, unique=True))
    node = {"t": kind, "k": keys, "c": children}
    if kind == "obj" and draw(st.integers(0, 2)) == 0:
        node["callable"] = True
    return node


struct_st = st.one_of(
    st.integers(1, 4).flatmap(_tree),
    st.integers(2, 4).flatmap(_tree),
    st.integers(2, 3).flatmap(_tree),
    st.recursive(_leaf, _containers, max_leaves=14),
).map(lambda t: _clip(t, [12]))
shape_st = st.sampled_from([[], [1], [2], [3], [2, 2], [1, 3], [2, 1, 2], [0]])


@st.composite
def pool_st(draw):
    kind = draw(st.sampled_from(["f64", "f64", "mixed", "c128", "f32"]))
    out = []
    for _ in range(NPOOL):
        dt = kind if kind != "mixed" else draw(st.sampled_from(["f32", "f64", "i64"]))
        out.append([draw(shape_st), dt])
    return out


MODES_LIST = ["ok", "ok", "ok", "short", "long", "badshape"]
MODES_FLAT = ["ok", "ok", "ok", "short", "long"]
LAYOUTS = ["contig", "contig", "offset", "strided", "column"]


def machine(holder):
    class PackerHistory(RuleBasedStateMachine):
        def __init__(self):
            super().__init__()
            self.case = None

        @initialize(struct=struct_st, pool=pool_st())
        def init(self, struct, pool):
            self.case = {"struct": struct, "pool": pool, "ops": []}

        @rule(u=st.booleans())
        def get_list(self, u):
            self.case["ops"].append(["get_list", u])

        @rule(u=st.booleans())
        def get_flat(self, u):
            self.case["ops"].append(["get_flat", u])

        @rule(u=st.booleans(), mode=st.sampled_from(MODES_LIST), k=st.integers(0, 11), mut=st.booleans())
        def cons_list(self, u, mode, k, mut):
            self.case["ops"].append(["cons_list", u, mode, k, mut])

        @rule(u=st.booleans(), mode=st.sampled_from(MODES_FLAT), layout=st.sampled_from(LAYOUTS), mut=st.booleans())
        def cons_flat(self, u, mode, layout, mut):
            self.case["ops"].append(["cons_flat", u, mode, layout, mut])

        @rule()
        def edit_orig(self):
            self.case["ops"].append(["edit_orig", 0])

        def teardown(self):
            if self.case is not None:
                holder["submit"](self.case)

    return PackerHistory


@st.composite
def oneshot_st(draw):
    """single-shot round trips (no history): get then construct, for bulk structure coverage"""
    u = draw(st.booleans())
    flat = draw(st.booleans())
    last = ["cons_flat", u, "ok", draw(st.sampled_from(LAYOUTS)), True] if flat else ["cons_list", u, "ok", 0, True]
    ops = [["get_flat" if flat else "get_list", u], last]
    if draw(st.integers(0, 3)) == 0:    # the caller edits its own object between handing it over and the first rebuild
        ops.insert(draw(st.integers(0, 1)), ["edit_orig", 0])
    if draw(st.booleans()):     # rebuild, let the caller edit the result, rebuild again
        ops.append(list(last))
    return {"struct": draw(struct_st), "pool": draw(pool_st()), "ops": ops}


def tasks(tier):
    return [
        Task("history", machine=machine, run=run_case, examples={"quick": 1200, "thorough": 20000},
             steps={"quick": 8, "thorough": 14}),
        Task("roundtrip", strategy=oneshot_st(), run=run_case, examples={"quick": 1600, "thorough": 30000}),
    ]

LEVEL_TEXT = ("Model-based exploration: thousands of generated structures x aliasing patterns x call histories are run against an "
              "independent traversal/aliasing model after every step; counter-examples shrink to a minimal JSON history. "
              "Exploration (not proof) is the right level: the state space is unbounded but defects live in small structures.")
LEVEL_NOTE = "trusts Python object identity, torch.equal and the model traversal in pbt/props/c20.py; sizes bounded (depth<=4, <=12 slots, <=14 ops)"
TECHNIQUE = "Hypothesis stateful (RuleBasedStateMachine) model-based testing + round-trip oracle"
