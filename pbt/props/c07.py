"""C07 — solve_ivp integrates the ODE with the declared scheme and accuracy.

Tasks
  fixed_scheme    euler / rk4 / rk38 on a generic smooth non-autonomous right-hand side: y[0] is bitwise y0; every interval
                  is exactly one textbook step (one-step identity from the returned y[i], so nothing accumulates); the
                  user function is called exactly s times per interval at the textbook stage arguments (call log);
                  metamorphic reruns: prefix of the grid (bitwise), tuple state vs concatenated state (bitwise).
  fixed_order     closed-form families: error ratio under halving of every interval lies in [2^(p-0.7), 2^(p+0.7)].
  adaptive_steps  rk23 / rk45 on the same generic right-hand side: the sequence of attempted steps is reconstructed from
                  the call log; every attempted step equals SciPy's `rk_step` on SciPy's RK23/RK45 tableaus, every
                  accept/reject decision agrees with SciPy's error weights E (||h K^T E||_2 against atol + rtol max(|y0|,|y1|)),
                  FSAL evaluation count, every requested time is landed on and the returned value is the accepted state
                  there; y[0] bitwise; prefix / tuple reruns.
  adaptive_acc    closed-form families x (atol, rtol) x grids: global error <= 20 N (atol + rtol max|y|) + rounding floor.

History of earlier calls (fixed_scheme, adaptive_steps): solve_ivp is a function of its arguments, so what ran before in the same
process must not matter.  A case carries a `prelude`: 0-2 earlier solve_ivp calls (other dtype float32/float64, same or other method,
other direction, other state shape, tuple/tensor state, other tolerances) that run_case executes *before* the judged call, so a
replay file reproduces the history in a fresh process.  With a non-empty prelude the judged call is made once before the prelude and
once after it: the two results and call logs must be bitwise equal (`history_dependence`), and the call *after* the prelude is the one
the per-step oracle judges (a tableau converted/cached at the wrong precision by an earlier call is off by 6e-8 relative: the
per-step tolerance is ~1e-14).  float32 is a judged dtype of these two tasks as well (ts and y0 in the same dtype), with every
tolerance written in the eps of the dtype.
Cases of one worker process share that process: a violation found after other cases have run is re-run in a pristine child
process (forked before the first case) and reported only if it reproduces there - exactly what `--replay` does - so that every
replay file reproduces; otherwise it is counted as discard `violation_only_after_earlier_cases_of_this_process`.  (After the first
confirmed violation of a task its further cases - the candidates of the search for a smaller one - run in the pristine child only.)
Prelude calls have their own evaluation budget (PRELUDE_MAX_CALLS), so a solver that no longer terminates is a violation, not a hang.

Tolerances (eps = 2.2e-16 for float64, 1.2e-7 for float32, L = generator-known Lipschitz constant of f in y, s = number of stages, h = interval):
  one-step identity: 16 s eps (|y| + |h| max_j|k_j|) (1+|h|L)^(s-1)  + time-rounding term 4 eps (|t|+|h|) |h| max|Y| (1+|h|L)^(s-1)
  (different association order of the same formula perturbs each stage by a few ulp; a stage perturbation is amplified by at
  most |h| L per later stage).  Stage times: 2 ulp of (|t|+|h|).
  accept/reject: decisions inside the rounding band of the estimator (64 eps |h| sum_j|E_j||K_j| (1+|h|L)^s + 1e-9 scale) are not judged.
  accuracy: local error per accepted step <= scaled tolerance (the estimator bounds the lower-order formula, the higher one is
  propagated), amplified by at most exp(L T) <= e^2 on the generated families (L T <= 2), so 20 N (atol + rtol Ymax) with
  N = attempted steps covers it; rounding floor (1e3 + 4 tmax L) eps Ymax N (arithmetic + rounding of the step end times).
  float32 adaptive steps are compared with the float64 SciPy step from xitorch's (upcast) base state: besides the terms above the
  working-precision evaluation of f itself is off by (n + 8) eps (L |y| + |k|) per call (length-n dot products, tanh, sin), which
  enters the step as 4 s |h| (1+|h|L)^s times that; time grids in float32 keep every interval >= 4096 eps |t0| (else the offset is
  dropped) and requested tolerances >= 1e-5 (atol >= 1e-7 next to an rtol), i.e. well above the precision.
"""
from __future__ import annotations

import json
import math
import os
import struct
import traceback

import numpy as np
import torch
from hypothesis import strategies as st

from pbt import ref_c07 as R
from pbt.harness import Task, Verdict, HarnessError, XitorchRaised, ok, violation, discard, xt_call, safe_run

PID = "C07"
RULE = ("fixed_scheme/adaptive_steps: method x generic non-autonomous f(t,y)=tanh(yW^T)+sin(t)y+b (|W|_inf in {0.5,2,5}) x state "
        "(tensor of shape from a pool incl. batches, or tuple/list of 1-3 parts of different shapes incl. 0-d) x grid (2..8 points, uniform or "
        "ragged integer increments, increasing or decreasing, span 1e-6 .. 30, offset up to 100) x (atol, rtol) in 1e-4..1e-11, rtol=0, atol=1e10; "
        "plus one metamorphic rerun (prefix of the grid, tuple vs concatenated) x dtype (float64 3/4, float32 1/4 with atol, rtol in 1e-2..1e-5) x prelude "
        "(0-2 earlier solve_ivp calls in the same process: same or other method, float32/float64, both directions, tensor/tuple state, 3 shapes, "
        "3 tolerance settings; with a prelude the judged call is made before and after it and must be bitwise the same, the later one is judged). "
        "fixed_order/adaptive_acc: families linear (matrix_exp), rotation, "
        "y'=-(at+b)y, y'=-ay^2, logistic with closed forms. Non-trivial = at least 2 intervals or a non-scalar state, f actually evaluated, "
        "(adaptive_steps: at least one rejected or more than one accepted step per interval; fixed_order: error above the rounding floor). "
        "Distinct by canonical case.")
ASSUMPTIONS = [
    "float64, and float32 in fixed_scheme/adaptive_steps (ts and y0 in the same dtype); at least 2 strictly monotone time points (a single time point "
    "raises IndexError for rk23/rk45 and repeated time points make rk23/rk45 loop forever: both are outside the generated domain and reported "
    "separately); float32 grids keep every interval >= 4096 eps |t0| (else the offset is dropped) and float32 tolerances are >= 1e-5 (atol >= 1e-7 "
    "next to an rtol), i.e. above the precision of the dtype",
    "solve_ivp is a function of its arguments: the same call before and after unrelated solve_ivp calls of the same process returns the same "
    "bits and evaluates f at the same times (the prelude is part of the case, so a replay reproduces it in a fresh process)",
    "cases of one worker share a process: a violation seen after earlier cases is re-run in a pristine forked child and reported only if it "
    "reproduces there (= what --replay does); otherwise it is counted as discard violation_only_after_earlier_cases_of_this_process",
    "float32 adaptive steps: f evaluated in float32 differs from the float64 reference evaluation by <= (n+8) eps (L|y|+|k|) (stated rounding model); "
    "steps shorter than 256 ulp of the time variable are not reconstructed from the call log (discard step_at_time_resolution, float32 only)",
    "textbook Euler/RK4/3-8 formulas and SciPy's RK23/RK45 class attributes (A, B, C, E, rk_step) are the references",
    "accept/reject is judged with xitorch's documented scalar tolerances: 2-norm of SciPy's estimator h K^T E against "
    "atol + rtol*max(|y0|_2,|y1|_2); decisions inside the estimator's rounding band are not judged",
    "accuracy bound 20*N*(atol+rtol*max|y|_2)+(1e3+4*tmax*L)*eps*N*max|y| on families with L*T <= 2 (amplification exp(LT) <= 7.4), judged only "
    "when the first interval has |h0|*L <= 0.5 (rk23) / 1 (rk45) [FIRST_STEP_GUARD]: the first step is the whole first interval and an embedded "
    "estimate is not a bound outside the asymptotic regime (the Bogacki-Shampine estimate of y'=lambda*y vanishes identically at h*lambda=-1; "
    "y'=-y on ts=[0,1] with rk23 returns y0/3). Recorded as an unrepaired finding, site first_step_whole_interval",
    "rk23 tolerances limited so that the expected step count stays below ~1500 (case-count budgets, no time limits)",
]
LEVEL_TEXT = ("Exploration with model-based oracles: each fixed-step interval is compared with the textbook formula (one-step identity, call log), "
              "each attempted adaptive step and each accept/reject decision with SciPy's tableaus and error weights (reconstructed from the call log), "
              "plus closed-form accuracy/order checks and metamorphic reruns (prefix, tuple vs tensor state, time reversal, the same call before and "
              "after a generated history of other solve_ivp calls).")
LEVEL_NOTE = ("trusts SciPy's RK23/RK45 coefficients and rk_step, torch.linalg.matrix_exp, the stated rounding model; <= 8 time points, <= 12 state entries; "
              "histories of <= 2 earlier calls")
TECHNIQUE = "Hypothesis property-based testing: reference-model oracle (textbook / SciPy steps), call-log reconstruction, convergence order, metamorphic relations"
WALL = {"quick": 300, "thorough": 1800}

FIRST_STEP_GUARD = True      # judge adaptive accuracy only when the first interval is short (see run_adaptive_acc and SITES)
def _site_first_step(case):
    """adaptive_acc cases whose first interval is outside the guarded regime (|h0| L > 0.5 for rk23, > 1 for rk45)"""
    if "family" not in case or case.get("method") not in ("rk23", "rk45"):
        return False
    incr = case["grid"]["incr"]
    LT = min(2.0, case["z0"] * sum(incr) / incr[0]) if case.get("z0") else case["LT"]
    return LT * incr[0] / sum(incr) > (0.5 if case["method"] == "rk23" else 1.0)


SITES = {"first_step_whole_interval": _site_first_step}
DT = R.DT
EPS = R.EPS
EPS32 = 1.1920928955078125e-07
DTYPES = {"f64": (torch.float64, EPS), "f32": (torch.float32, EPS32)}
SPAN = {"short": 1e-6, "unit": 1.0, "long": 30.0}
PART_SHAPES = [[], [1], [2], [3], [1, 2], [2, 1], [2, 2]]
TENSOR_SHAPES = [[1], [2], [3], [4], [2, 2], [3, 2], [1, 3], [2, 1, 2], [2, 3, 2]]


def numel(shape):
    n = 1
    for d in shape:
        n *= d
    return n


# ------------------------------------------------------------------------------------------------------------------
# a problem = flat right-hand side + a state layout

class RHS(R.GenericRHS):
    """the generic right-hand side of ref_c07 with its coefficients held in the working dtype; `as64` is the same function
    (the same, already rounded, coefficients) evaluated in float64"""

    def __init__(self, seed, n, wscale, dtype=DT):
        super().__init__(seed, n, wscale)
        self.W = self.W.to(dtype)
        self.b = self.b.to(dtype)

    def as64(self):
        if self.W.dtype == DT:
            return self
        other = object.__new__(RHS)
        other.W, other.b, other.L = self.W.to(DT), self.b.to(DT), self.L
        return other


class Problem:
    """f_flat(t, v) on the flat state v (viewed as (B, n)); user-level function for a tensor or a tuple state"""

    def __init__(self, rhs, parts, form, n, dtype=DT):
        self.rhs = rhs            # callable (t, y(B,n)) -> (B,n)
        self.parts = [tuple(p) for p in parts]
        self.form = form          # "tensor" | "tuple" | "list"
        self.n = n
        self.dtype = dtype
        self.N = sum(numel(p) for p in parts)
        self.log = []             # (t float, flat y tensor)
        self.ncalls = 0
        self.bad = None

    def f_flat(self, t, v):
        return self.rhs(t, v.reshape(-1, self.n)).reshape(-1)

    def f_flat64(self, t, v):
        """the same right-hand side evaluated in float64 (reference for a float32 solve)"""
        return self.rhs.as64()(t, v.reshape(-1, self.n)).reshape(-1)

    def flatten(self, ys):
        if isinstance(ys, torch.Tensor):
            return ys.reshape(-1)
        return torch.cat([y.reshape(-1) for y in ys])

    def unflatten(self, v, lead=()):
        out, i = [], 0
        for p in self.parts:
            k = numel(p)
            out.append(v[..., i:i + k].reshape(tuple(lead) + p))
            i += k
        return out

    def user_fcn(self):
        def fcn(t, y):
            self.ncalls += 1
            if self.ncalls > R.MAX_CALLS:
                raise R.EvalBudget("more than %d evaluations of the right-hand side" % R.MAX_CALLS)
            if self.form == "tensor":
                if not isinstance(y, torch.Tensor) or tuple(y.shape) != self.parts[0]:
                    self.bad = "fcn called with y of shape %r, expected %r" % (getattr(y, "shape", type(y)), self.parts[0])
                v = y.reshape(-1)
            else:
                if not isinstance(y, (list, tuple)) or [tuple(p.shape) for p in y] != self.parts:
                    self.bad = "fcn called with parts %r, expected %r" % ([tuple(getattr(p, "shape", ())) for p in y], self.parts)
                v = torch.cat([p.reshape(-1) for p in y])
            if not isinstance(t, torch.Tensor) or t.numel() != 1:
                self.bad = "fcn called with t=%r (not a single-element tensor)" % (t,)
            if v.dtype != self.dtype:
                self.bad = "fcn called with a state of dtype %s in a %s solve" % (v.dtype, self.dtype)
            self.log.append((float(t), v.detach().clone()))
            out = self.f_flat(t, v)
            if self.form == "tensor":
                return out.reshape(self.parts[0])
            res = self.unflatten(out)
            return tuple(res) if self.form == "tuple" else list(res)
        return fcn

    def user_y0(self, v0):
        if self.form == "tensor":
            return v0.reshape(self.parts[0]).clone()
        ys = [p.clone() for p in self.unflatten(v0)]
        return tuple(ys) if self.form == "tuple" else ys

    def result_flat(self, res, nt):
        """returned trajectory as (nt, N) or a string describing the malformed result"""
        if self.form == "tensor":
            if not isinstance(res, torch.Tensor) or tuple(res.shape) != (nt,) + self.parts[0]:
                return "result has shape %r, expected %r" % (getattr(res, "shape", type(res)), (nt,) + self.parts[0])
            return res.reshape(nt, -1)
        if not isinstance(res, (list, tuple)) or len(res) != len(self.parts):
            return "result for a %d-part state is %r" % (len(self.parts), type(res))
        for r, p in zip(res, self.parts):
            if tuple(r.shape) != (nt,) + p:
                return "result part has shape %r, expected %r" % (tuple(r.shape), (nt,) + p)
        return torch.cat([r.reshape(nt, -1) for r in res], dim=1)


def make_problem(case, rhs):
    st_ = case["state"]
    if st_["form"] == "tensor":
        parts = [st_["shape"]]
    else:
        parts = st_["parts"]
    N = sum(numel(p) for p in parts)
    divs = [d for d in range(1, N + 1) if N % d == 0]
    n = divs[st_["ndiv"] % len(divs)]
    return Problem(rhs(n), parts, st_["form"], n, dtype_of(case)[0])


def dtype_of(case):
    """(torch dtype, eps) of the judged call"""
    return DTYPES[case.get("dtype", "f64")]


def grid_times(case, span):
    """python floats of the time grid, exactly representable in the dtype of the case.  float32: the offset t0 is kept only if
    every interval is >= 4096 eps |t0| (else t0 = 0), so the grid stays strictly monotone and well resolved after rounding"""
    grid = case["grid"]
    dt, eps = dtype_of(case)
    if dt != DT:
        hmin = span * min(grid["incr"]) / float(sum(grid["incr"]))
        if hmin < 4096 * eps * abs(grid["t0"]):
            grid = dict(grid, t0=0.0)
        return torch.tensor(R.grid_values(grid, span), dtype=dt).tolist()
    return R.grid_values(grid, span)


def span_of(grid):
    return SPAN[grid["span"]] * grid["sfrac"]


def solve(prob, ts, v0, method, **opts):
    from xitorch.integrate import solve_ivp
    prob.log = []
    prob.ncalls = 0
    res = xt_call(solve_ivp, prob.user_fcn(), ts, prob.user_y0(v0), method=method, _where="forward", **opts)
    return res


# ------------------------------------------------------------------------------------------------------------------
# history: earlier solve_ivp calls of the same process are part of the case

PRELUDE_MAX_CALLS = 20000


def run_prelude(e):
    """one earlier, unrelated solve_ivp call: y' = -0.7 y + sin t on [0.25, 0.25 +- 0.6], described completely by the entry"""
    from xitorch.integrate import solve_ivp
    dt = DTYPES[e["dtype"]][0]
    shape = tuple(e["shape"])
    y0 = torch.linspace(0.5, 1.5, numel(shape), dtype=DT).reshape(shape).to(dt)
    ts = (0.25 + e["dir"] * torch.linspace(0.0, 0.6, e["nt"], dtype=DT)).to(dt)
    ncalls = [0]

    def count():
        ncalls[0] += 1
        if ncalls[0] > PRELUDE_MAX_CALLS:       # (the most expensive entry, rk23 at 1e-8, needs ~500)
            raise R.EvalBudget("more than %d evaluations of the right-hand side in the prelude call %r" % (PRELUDE_MAX_CALLS, e))
    if e["form"] == "tuple":
        y0 = (y0, torch.tensor(0.8, dtype=dt))

        def fcn(t, y):
            count()
            return tuple(-0.7 * p + torch.sin(t) for p in y)
    else:
        def fcn(t, y):
            count()
            return -0.7 * y + torch.sin(t)
    opts = {}
    if e["method"] in R.ADAPTIVE and e["tol_e"] is not None:
        opts = {"atol": 10.0 ** (-e["tol_e"]), "rtol": 10.0 ** (-e["tol_e"])}
    xt_call(solve_ivp, fcn, ts, y0, method=e["method"], _where="prelude", **opts)


def prelude_label(case):
    pre = case.get("prelude") or []
    if not pre:
        return "prelude=none"
    same_m = [e for e in pre if e["method"] == case["method"]]
    if any(e["dtype"] != case.get("dtype", "f64") for e in same_m):
        return "prelude=same_method_other_dtype"
    if same_m:
        return "prelude=same_method_same_dtype"
    if any(e["dtype"] != case.get("dtype", "f64") for e in pre):
        return "prelude=other_method_other_dtype"
    return "prelude=other_method_same_dtype"


def judged_solve(case, prob, ts, v0, method, **opts):
    """the judged call.  With a non-empty prelude: the call, the prelude, the call again; returns the result of the last call
    (prob.log is its call log) and the (flat result, evaluation times) of the call made before the prelude (or None)"""
    prelude = case.get("prelude") or []
    before = None
    if prelude:
        res0 = solve(prob, ts, v0, method, **opts)
        before = (prob.result_flat(res0, ts.shape[0]), [t for t, _ in prob.log])
        for e in prelude:
            run_prelude(e)
    return solve(prob, ts, v0, method, **opts), before


def history_check(case, before, Y, log, labels):
    """solve_ivp is a function of its arguments: the same call before and after other calls gives the same bits"""
    if before is None:
        return None
    Y0, tlog0 = before
    if isinstance(Y0, str):
        return violation("result_shape", Y0, labels)
    tlog = [t for t, _ in log]
    if bitwise_equal(Y0, Y) and tlog0 == tlog:
        return None
    pre = "; ".join("%s %s %s dir=%+d %s" % (e["method"], e["dtype"], e["form"], e["dir"], e["shape"]) for e in case["prelude"])
    if Y0.shape == Y.shape and Y0.dtype == Y.dtype:
        what = "results differ by %.3e" % float((Y0 - Y).abs().max())
    else:
        what = "results have shape/dtype %r/%s and %r/%s" % (tuple(Y0.shape), Y0.dtype, tuple(Y.shape), Y.dtype)
    return violation("history_dependence", "the same %s %s call made before and after %d other solve_ivp call(s) [%s] is not bitwise the same: %s; "
                     "%d vs %d evaluations of f%s" % (case["method"], case.get("dtype", "f64"), len(case["prelude"]), pre, what, len(tlog0), len(tlog),
                                                     "" if tlog0 == tlog else " (at different times)"), labels)


@st.composite
def prelude_st(draw, method):
    """0-2 earlier calls; biased towards the judged method in the other dtype, shrinks to no prelude"""
    out = []
    for _ in range(draw(st.sampled_from([0, 1, 0, 1, 1, 2]))):
        dt = draw(st.sampled_from(["f32", "f32", "f64"]))
        out.append({"method": draw(st.sampled_from([method, method, "euler", "rk4", "rk38", "rk23", "rk45"])), "dtype": dt,
                    "dir": draw(st.sampled_from([1, -1])), "form": draw(st.sampled_from(["tensor", "tuple"])),
                    "shape": draw(st.sampled_from([[1], [3], [2, 2]])), "nt": draw(st.integers(2, 4)),
                    "tol_e": draw(st.sampled_from([None, 3, 5] if dt == "f32" else [None, 4, 8]))})
    return out


# ------------------------------------------------------------------------------------------------------------------
# isolation: a violation is reported only if it reproduces without the earlier cases of this worker process

_CHILD = False          # this process is a pristine child answering one confirmation request
_USED = False           # a case has already run in this process
_ZYGOTE = None
_RUNS = {}              # task name -> unwrapped run function
_CONFIRMED = set()      # tasks with a violation that reproduced in a pristine process


def _send(fd, obj):
    data = json.dumps(obj).encode()
    data = struct.pack("<I", len(data)) + data
    while data:
        data = data[os.write(fd, data):]


def _recv(fd):
    def read(n):
        buf = b""
        while len(buf) < n:
            b = os.read(fd, n - len(buf))
            if not b:
                return None
            buf += b
        return buf
    head = read(4)
    if head is None:
        return None
    body = read(struct.unpack("<I", head)[0])
    return None if body is None else json.loads(body.decode())


class _Zygote:
    """a child forked before the first case of this process has run (same state as a freshly started process).  It forks a
    grandchild per request, which runs one case and sends back the verdict; it ends when the worker's end of the pipe closes."""

    def __init__(self):
        rq_r, rq_w = os.pipe()
        rs_r, rs_w = os.pipe()
        pid = os.fork()
        if pid == 0:
            try:
                os.close(rq_w)
                os.close(rs_r)
                null = os.open(os.devnull, os.O_RDWR)
                os.dup2(null, 1)
                os.dup2(null, 2)
                self._serve(rq_r, rs_w)
            finally:
                os._exit(0)
        os.close(rq_r)
        os.close(rs_w)
        self.w, self.r = rq_w, rs_r

    @staticmethod
    def _serve(r, w):
        global _CHILD
        while True:
            msg = _recv(r)
            if msg is None:
                return
            pid = os.fork()
            if pid == 0:
                _CHILD = True
                try:
                    try:
                        v = safe_run(_RUNS[msg["task"]], msg["case"])
                        out = {"status": v.status, "kind": v.kind, "detail": v.detail, "labels": list(v.labels), "nontrivial": v.nontrivial}
                    except BaseException:  # noqa: BLE001 - reported to the worker as a harness error
                        out = {"harness_error": traceback.format_exc()[-3000:]}
                    _send(w, out)
                finally:
                    os._exit(0)
            _, status = os.waitpid(pid, 0)
            if status != 0:
                _send(w, {"harness_error": "the isolated child process ended with status %d" % status})

    def ask(self, task, case):
        _send(self.w, {"task": task, "case": case})
        out = _recv(self.r)
        if out is None or "harness_error" in out:
            raise HarnessError("isolated re-run of a %s case failed: %s" % (task, (out or {}).get("harness_error", "no answer")))
        return Verdict(out["status"], kind=out["kind"], detail=out["detail"], labels=tuple(out["labels"]), nontrivial=out["nontrivial"])


def isolated(name, run):
    """run cases in the worker process; a violation seen after earlier cases is confirmed in a pristine process"""
    _RUNS[name] = run

    def wrapped(case):
        global _USED, _ZYGOTE
        if _CHILD:
            return run(case)
        if _ZYGOTE is None:
            _ZYGOTE = _Zygote()
        if name in _CONFIRMED:
            # a violation of this task has been confirmed: what follows is mostly the search for a smaller failing case, whose
            # candidates fail too - run them in the pristine process only instead of twice
            return _ZYGOTE.ask(name, case)
        fresh, _USED = not _USED, True
        try:
            v = run(case)
        except XitorchRaised as e:
            v = violation(e.kind, e.detail)
        if v.status != "violation":
            return v
        if not fresh:
            v = _ZYGOTE.ask(name, case)
            if v.status != "violation":
                return discard("violation_only_after_earlier_cases_of_this_process", v.labels)
        _CONFIRMED.add(name)
        return v
    return wrapped


def bitwise_equal(a, b):
    return a.shape == b.shape and a.dtype == b.dtype and bool(torch.equal(a, b))


def state_labels(prob):
    return ["state=" + prob.form + ("%d" % len(prob.parts) if prob.form != "tensor" else "_rank%d" % len(prob.parts[0])),
            "numel=%d" % prob.N]


# ------------------------------------------------------------------------------------------------------------------
# metamorphic reruns shared by the fixed and adaptive scheme tasks

def rerun_checks(case, prob, ts, v0, Y, method, opts, labels, adaptive):
    sub = case["sub"]
    nt = ts.shape[0]
    if sub == "prefix" and nt >= 3:
        k = 2 + case["k"] % (nt - 2)          # 2 .. nt-1 points
        res = solve(prob, ts[:k].clone(), v0, method, **opts)
        Yk = prob.result_flat(res, k)
        if isinstance(Yk, str):
            return violation("result_shape", Yk, labels)
        if not bitwise_equal(Yk, Y[:k]):
            d = float((Yk - Y[:k]).abs().max())
            return violation("prefix_dependence", "values at ts[:%d] differ (max %.3e) when the later time points %s are not requested"
                             % (k, d, ts[k:].tolist()), labels)
    if sub == "concat":
        # the same dynamics with the other state form: tuple <-> one flat tensor
        other = Problem(prob.rhs, [[prob.N]] if prob.form != "tensor" else _resplit(prob.N, case["k"]),
                        "tensor" if prob.form != "tensor" else "tuple", prob.n, prob.dtype)
        res = solve(other, ts, v0, method, **opts)
        Yo = other.result_flat(res, nt)
        if isinstance(Yo, str):
            return violation("result_shape", Yo, labels)
        if adaptive:
            # same flat arithmetic; allow a few ulp (an implementation may take norms part by part)
            tol = 64 * dtype_of(case)[1] * (1.0 + float(Y.abs().max()))
            if not float((Yo - Y).abs().max()) <= tol:
                return violation("tuple_vs_concat", "tuple/list state and concatenated tensor state differ by %.3e (tol %.3e)"
                                 % (float((Yo - Y).abs().max()), tol), labels)
        elif not bitwise_equal(Yo, Y):
            return violation("tuple_vs_concat", "tuple/list state and concatenated tensor state differ by %.3e (same arithmetic, "
                             "expected bitwise equality); parts %r vs %r" % (float((Yo - Y).abs().max()), prob.parts, other.parts), labels)
    return None


def _resplit(N, k):
    """split N entries into parts of different shapes (deterministic in k)"""
    if N == 1:
        return [[]]
    a = 1 + k % (N - 1)
    parts = [[a], [N - a]]
    if N - a >= 2 and (N - a) % 2 == 0 and k % 2:
        parts[1] = [(N - a) // 2, 2]
    if a == 1 and k % 3 == 0:
        parts[0] = []
    return parts


# ------------------------------------------------------------------------------------------------------------------
# task fixed_scheme

def run_fixed_scheme(case):
    torch.manual_seed(0)
    method = case["method"]
    s = R.STAGES[method]
    dt, EPS = dtype_of(case)
    prob = make_problem(case, lambda n: RHS(case["seed"], n, case["wscale"], dt))
    L = prob.rhs.L
    g = torch.Generator().manual_seed(case["seed"] ^ 0x1234567)
    v0 = torch.randn((prob.N,), generator=g, dtype=DT).to(dt)
    tvals = grid_times(case, span_of(case["grid"]))
    ts = torch.tensor(tvals, dtype=dt)
    nt = len(tvals)
    labels = ["method=" + method] + R.grid_labels(case["grid"]) + state_labels(prob) + [
        "sub=" + case["sub"], "W=%g" % case["wscale"], "dtype=" + case.get("dtype", "f64"), prelude_label(case)]

    res, before = judged_solve(case, prob, ts, v0, method)
    log = prob.log
    Y = prob.result_flat(res, nt)
    if isinstance(Y, str):
        return violation("result_shape", Y, labels)
    if prob.bad:
        return violation("fcn_arguments", prob.bad, labels)
    if not bitwise_equal(Y[0], v0):
        return violation("y0_not_exact", "y[0] differs from y0 by %.3e" % float((Y[0].to(DT) - v0.to(DT)).abs().max()), labels)
    if not bool(torch.isfinite(Y).all()):
        return discard("overflow", labels)
    v = history_check(case, before, Y, log, labels)
    if v is not None:
        return v
    if len(log) != s * (nt - 1):
        return violation("call_count", "%d evaluations of f for %d intervals of the %d-stage method %s" % (len(log), nt - 1, s, method), labels)

    step = R.TEXTBOOK[method]
    f = prob.f_flat
    for i in range(nt - 1):
        t0 = ts[i]
        h = ts[i + 1] - ts[i]
        ah = abs(float(h))
        yref, stages = step(f, t0, Y[i], h)
        kmax = max(float(k.abs().max()) for _, _, k in stages)
        ymag = max(float(yy.abs().max()) for _, yy, _ in stages)
        amp = (1.0 + ah * L) ** (s - 1)
        M = ymag + ah * kmax
        tol = 16 * s * EPS * M * amp + 4 * EPS * (abs(float(t0)) + ah) * ah * ymag * amp
        err = float((Y[i + 1] - yref).abs().max())
        if not err <= tol:
            return violation("step_identity", "%s interval %d (t=%r, h=%r): returned y differs from the textbook step by %.3e (tol %.3e)\n got %s\n ref %s"
                             % (method, i, float(t0), float(h), err, tol, Y[i + 1].tolist()[:6], yref.tolist()[:6]), labels)
        ttol = 2 * EPS * (abs(float(t0)) + ah)
        for j, (tj, yj, _) in enumerate(stages):
            lt, ly = log[i * s + j]
            if not abs(lt - float(tj)) <= ttol:
                return violation("stage_time", "%s interval %d stage %d: f called at t=%r, textbook stage time %r (h=%r)"
                                 % (method, i, j, lt, float(tj), float(h)), labels)
            e = float((ly - yj).abs().max())
            if not e <= tol:
                return violation("stage_state", "%s interval %d stage %d: f called with y off by %.3e from the textbook stage value (tol %.3e)"
                                 % (method, i, j, e, tol), labels)

    v = rerun_checks(case, prob, ts, v0, Y, method, {}, labels, adaptive=False)
    if v is not None:
        return v
    return ok(labels, nontrivial=(nt >= 3 or prob.N >= 2))


@st.composite
def state_st(draw):
    form = draw(st.sampled_from(["tensor", "tensor", "tuple", "list"]))
    if form == "tensor":
        return {"form": form, "shape": draw(st.sampled_from(TENSOR_SHAPES)), "ndiv": draw(st.integers(0, 5))}
    parts = draw(st.lists(st.sampled_from(PART_SHAPES), min_size=1, max_size=3))
    return {"form": form, "parts": parts, "ndiv": draw(st.integers(0, 5))}


@st.composite
def fixed_scheme_st(draw):
    method = draw(st.sampled_from(["euler", "rk4", "rk38", "rk4", "rk38"]))
    return {"method": method, "dtype": draw(st.sampled_from(["f64", "f64", "f64", "f32"])),
            "state": draw(state_st()), "grid": draw(R.grid_st()),
            "wscale": draw(st.sampled_from([0.5, 2.0, 5.0])),
            "sub": draw(st.sampled_from(["none", "prefix", "concat"])), "k": draw(st.integers(0, 11)),
            "prelude": draw(prelude_st(method)), "seed": draw(st.integers(0, 2 ** 31 - 1))}


# ------------------------------------------------------------------------------------------------------------------
# task adaptive_steps: reconstruction of the attempted steps from the call log

def tol_values(case):
    atol = 1e10 if case["atol_e"] is None else 10.0 ** (-case["atol_e"])
    rtol = 0.0 if case["rtol_e"] is None else 10.0 ** (-case["rtol_e"])
    return atol, rtol


def run_adaptive_steps(case):
    torch.manual_seed(0)
    method = case["method"]
    s = R.STAGES[method]
    q = R.ADAPTIVE[method][1]
    cls = R.scipy_pair(method)
    dt, EPS = dtype_of(case)
    prob = make_problem(case, lambda n: RHS(case["seed"], n, case["wscale"], dt))
    L = prob.rhs.L
    g = torch.Generator().manual_seed(case["seed"] ^ 0x1234567)
    v0 = torch.randn((prob.N,), generator=g, dtype=DT).to(dt)
    atol, rtol = tol_values(case)
    # expected number of steps ~ L*T / tol^(1/(q+1)); the span of "long" grids is limited so that it stays <= ~600
    tol_eff = min(atol, max(rtol, 1e-300)) if rtol > 0 else atol
    tol_eff = min(tol_eff, 1.0)
    span = min(span_of(case["grid"]), 600.0 * tol_eff ** (1.0 / (q + 1)) / L)
    tvals = grid_times(case, span)
    ts = torch.tensor(tvals, dtype=dt)
    nt = len(tvals)
    d = float(case["grid"]["dir"])
    opts = {"atol": atol, "rtol": rtol}
    labels = ["method=" + method] + R.grid_labels(case["grid"]) + state_labels(prob) + [
        "sub=" + case["sub"], "atol=" + ("huge" if case["atol_e"] is None else "1e-%d" % case["atol_e"]),
        "rtol=" + ("0" if case["rtol_e"] is None else "1e-%d" % case["rtol_e"]), "dtype=" + case.get("dtype", "f64"), prelude_label(case)]

    res, before = judged_solve(case, prob, ts, v0, method, **opts)
    log = prob.log
    Y = prob.result_flat(res, nt)
    if isinstance(Y, str):
        return violation("result_shape", Y, labels)
    if prob.bad:
        return violation("fcn_arguments", prob.bad, labels)
    if not bitwise_equal(Y[0], v0):
        return violation("y0_not_exact", "y[0] differs from y0 by %.3e" % float((Y[0].to(DT) - v0.to(DT)).abs().max()), labels)
    if not bool(torch.isfinite(Y).all()):
        return discard("overflow", labels)
    v = history_check(case, before, Y, log, labels)
    if v is not None:
        return v
    # evaluations: f(ts[0], y0), optionally one probe inside the first interval (initial step-size selection), then exactly
    # s per attempted step (stages 2..s and the first-same-as-last evaluation at the end of the step)
    if (len(log) - 1) % s == 0 and len(log) >= 1 + s:
        off = 1
    elif (len(log) - 2) % s == 0 and len(log) >= 2 + s and d * (log[1][0] - tvals[0]) >= 0 and d * (tvals[1] - log[1][0]) >= 0:
        off = 2
    else:
        return violation("fsal_count", "%d evaluations: not 1 (+1 initial-step probe) + %d per attempted step (first-same-as-last reuse)" % (len(log), s), labels)
    if log[0][0] != tvals[0] or not bitwise_equal(log[0][1], v0):
        return violation("first_call", "first evaluation at t=%r y=%s, expected (ts[0], y0)" % (log[0][0], log[0][1].tolist()[:4]), labels)

    def f_np(t, y):
        return prob.f_flat64(torch.tensor(t, dtype=DT), torch.from_numpy(np.ascontiguousarray(y))).numpy()

    single = dt != DT
    natt = (len(log) - off) // s
    bt, by = tvals[0], v0.to(DT).numpy().copy()
    bf = f_np(bt, by)
    accepted_states = []          # (t_end, y_end tensor)
    nrej = 0
    Eabs = np.abs(cls.E)
    for k in range(natt):
        calls = log[off + k * s: off + (k + 1) * s]
        t_end, y_end = calls[-1]
        h = t_end - bt
        ah = abs(h)
        ynew, fnew, K, err = R.scipy_embedded_step(method, f_np, bt, by, bf, h)
        Kn = np.linalg.norm(K, axis=1)
        kmax = float(np.abs(K).max())
        ymag = max(float(np.abs(by).max()), float(np.abs(ynew).max()))
        amp = (1.0 + ah * L) ** s
        ulp_t = EPS * (abs(bt) + abs(t_end))
        if single and 0.0 < ah < 256 * ulp_t:      # (zero-length steps at a requested time exist and are trivially right)
            # (float32 only) the reconstruction reads the steps off the evaluation times; it needs steps that the time variable resolves
            return discard("step_at_time_resolution", labels)
        # float32: evaluation error of f itself against the float64 reference evaluation (see the module docstring)
        fnoise = (prob.n + 8) * EPS * (L * ymag + kmax) if single else 0.0
        tol = 32 * s * EPS * (ymag + ah * kmax) * amp + 4 * ulp_t * (kmax + ah * ymag) * amp + 4 * s * ah * fnoise * amp
        e = float(np.abs(y_end.to(DT).numpy() - ynew).max())
        if not e <= tol:
            return violation("embedded_step", "%s attempted step %d from t=%r with h=%r: state at the end of the step differs from SciPy's %s step by %.3e (tol %.3e)\n got %s\n ref %s"
                             % (method, k, bt, h, method.upper(), e, tol, y_end.tolist()[:6], ynew.tolist()[:6]), labels)
        ttol = 4 * ulp_t
        for j in range(1, s):
            tj = bt + float(cls.C[j]) * h
            if not abs(calls[j - 1][0] - tj) <= ttol:
                return violation("stage_time", "%s attempted step %d (t=%r, h=%r): stage %d evaluated at t=%r, tableau says %r"
                                 % (method, k, bt, h, j, calls[j - 1][0], tj), labels)
        # decision observed from the log: after a rejection the next attempt ends strictly before this one
        last = k == natt - 1
        if last:
            acc = True
        else:
            acc = d * (log[off + (k + 2) * s - 1][0] - t_end) >= 0.0
        est = float(np.linalg.norm(err))
        scale = atol + rtol * max(float(np.linalg.norm(by)), float(np.linalg.norm(ynew)))
        band = 64 * EPS * ah * float((Eabs * Kn).sum()) * amp + max(1e-9, 64 * EPS) * scale + (ulp_t / ah * est if ah > 0 else 0.0) \
            + ah * float(Eabs.sum()) * fnoise * math.sqrt(prob.N) * amp
        if acc and est > scale + band:
            return violation("accepted_above_tolerance", "%s step %d (t=%r, h=%r) was accepted although SciPy's error estimate %.6e exceeds atol+rtol*max|y| = %.6e"
                             % (method, k, bt, h, est, scale), labels)
        if (not acc) and est < scale - band:
            return violation("rejected_below_tolerance", "%s step %d (t=%r, h=%r) was rejected although SciPy's error estimate %.6e is below atol+rtol*max|y| = %.6e"
                             % (method, k, bt, h, est, scale), labels)
        if acc:
            bt, by = t_end, y_end.to(DT).numpy().copy()
            bf = f_np(bt, by)
            accepted_states.append((t_end, y_end))
        else:
            nrej += 1

    # landing: every requested time is the end of an accepted step and the returned value is the state there
    pos = 0
    for i in range(1, nt):
        target = tvals[i]
        ttol = 4 * EPS * (abs(target) + abs(tvals[i - 1]))
        hit = None
        while pos < len(accepted_states) and d * (accepted_states[pos][0] - target) <= ttol:
            if abs(accepted_states[pos][0] - target) <= ttol:
                hit = accepted_states[pos]
            pos += 1
        if hit is None:
            return violation("landing", "%s: no accepted step ends at the requested time ts[%d]=%r (accepted step ends: %s)"
                             % (method, i, target, [a[0] for a in accepted_states][:12]), labels)
        if not bitwise_equal(hit[1], Y[i]):
            return violation("landing_value", "%s: y[%d] is not the state of the accepted step that ends at ts[%d]=%r (differs by %.3e)"
                             % (method, i, i, target, float((hit[1] - Y[i]).abs().max())), labels)
    if pos != len(accepted_states):
        return violation("landing", "%s: accepted steps beyond the last requested time" % method, labels)

    v = rerun_checks(case, prob, ts, v0, Y, method, opts, labels, adaptive=True)
    if v is not None:
        return v
    nacc = len(accepted_states)
    labels = labels + ["rejections=" + ("0" if nrej == 0 else "1-3" if nrej <= 3 else "4+"),
                       "steps/interval=" + ("<=2" if nacc <= 2 * (nt - 1) else "3-10" if nacc <= 10 * (nt - 1) else ">10")]
    return ok(labels, nontrivial=(nrej > 0 or nacc > 2 * (nt - 1)))


@st.composite
def tol_st(draw, method, tier, dtype="f64"):
    lo = 11 if method == "rk45" else (9 if tier == "thorough" else 8)
    mode = draw(st.sampled_from(["both", "both", "atol_only", "huge", "rtol_dominant"]))
    if dtype == "f32":
        # requested tolerances stay above the precision of the dtype (eps = 1.2e-7)
        if mode == "huge":
            return {"atol_e": None, "rtol_e": draw(st.sampled_from([None, 4]))}
        if mode == "atol_only":
            return {"atol_e": draw(st.integers(2, 5)), "rtol_e": None}
        if mode == "rtol_dominant":
            return {"atol_e": draw(st.integers(6, 7)), "rtol_e": draw(st.integers(2, 5))}
        return {"atol_e": draw(st.integers(2, 5)), "rtol_e": draw(st.integers(2, 5))}
    if mode == "huge":
        return {"atol_e": None, "rtol_e": draw(st.sampled_from([None, 6]))}
    if mode == "atol_only":
        return {"atol_e": draw(st.integers(4, lo)), "rtol_e": None}
    if mode == "rtol_dominant":
        return {"atol_e": draw(st.integers(10, 14)), "rtol_e": draw(st.integers(4, lo))}
    return {"atol_e": draw(st.integers(4, lo)), "rtol_e": draw(st.integers(4, lo))}


@st.composite
def adaptive_steps_st(draw, tier="quick"):
    method = draw(st.sampled_from(["rk23", "rk45"]))
    dtype = draw(st.sampled_from(["f64", "f64", "f64", "f32"]))
    c = {"method": method, "dtype": dtype, "state": draw(state_st()), "grid": draw(R.grid_st()),
         "wscale": draw(st.sampled_from([0.5, 2.0, 5.0])),
         "sub": draw(st.sampled_from(["none", "none", "prefix", "concat"])), "k": draw(st.integers(0, 11)),
         "prelude": draw(prelude_st(method)), "seed": draw(st.integers(0, 2 ** 31 - 1))}
    c.update(draw(tol_st(method, tier, dtype)))
    return c


# ------------------------------------------------------------------------------------------------------------------
# closed-form families (tasks fixed_order, adaptive_acc)

def family_setup(case, LT, span):
    """parameters, y0, grid, exact trajectory and Lipschitz bound of a closed-form family; L*T ~ LT"""
    fam = case["family"]
    shape = list(case["shape"])
    if fam == "osc":
        shape = shape[:-1] + [2]
    n = shape[-1]
    grid = case["grid"]
    if fam == "sep" and grid["dir"] < 0:
        LT = min(LT, 0.25)            # y'=-ay^2 backwards in time: keep 1 + a y0 tau >= 0.5
    rate = LT / span
    if fam == "sep":
        rate = rate / 4.0             # Lipschitz 2 a y <= 4 a on y <= 2
    params = R.family_params(fam, n, case["seed"], rate)
    y0 = R.family_y0(fam, shape, case["seed"])
    if fam == "logistic":
        y0 = y0 * params[1]
    if fam == "tdecay":
        # |a t + b| must stay ~ rate over the whole grid although |t| may be large: centre the time dependence
        tmid = grid["t0"] + 0.5 * grid["dir"] * span
        params = [params[0] / max(1.0, span), params[1] - params[0] / max(1.0, span) * tmid]
    tvals = R.grid_values(grid, span)
    return fam, params, y0, tvals


def run_fixed_order(case):
    if case["kind"] == "exact":
        return run_fixed_exact(case)
    from xitorch.integrate import solve_ivp
    torch.manual_seed(0)
    method = case["method"]
    p = R.FIXED[method]
    incr = case["grid"]["incr"]
    hL = case["hL"]                      # h*L of the longest interval
    span = span_of(case["grid"])
    LT = hL * sum(incr) / max(incr)
    fam, params, y0, tvals = family_setup(case, LT, span)
    labels = ["method=" + method, "kind=ratio", "family=" + fam] + R.grid_labels(case["grid"]) + ["hL=%g" % hL]

    def refine(tv):
        out = [tv[0]]
        for a, b in zip(tv[:-1], tv[1:]):
            out += [0.5 * (a + b), b]
        return out

    def fcn(t, y):
        return R.family_rhs(fam, t, y, params)
    errs = []
    grids = [tvals, refine(tvals), refine(refine(tvals))]
    exact_end = R.family_exact(fam, torch.tensor([tvals[0], tvals[-1]], dtype=DT), y0, params)[-1]
    ymax = float(exact_end.abs().max()) + float(y0.abs().max())
    for tv in grids:
        ts = torch.tensor(tv, dtype=DT)
        y = xt_call(solve_ivp, fcn, ts, y0.clone(), method=method, _where="forward")
        errs.append(float((y[-1] - exact_end).abs().max()))
    # rounding floor: arithmetic (100 eps per step) + rounding of the stage times t+c*h at |t| <= tmax, which perturbs a
    # non-autonomous f by rate*eps*tmax relatively (rate = L = LT/span also bounds |df/dt|/|f| on these families)
    tmax = max(abs(tvals[0]), abs(tvals[-1]))
    floor = (100 * EPS + 16 * EPS * tmax * (LT / span)) * ymax * len(grids[-1])
    lo = 2 ** (p - 0.7)
    judged = 0
    for a, b in zip(errs[:-1], errs[1:]):
        if b <= 5 * floor:
            continue
        judged += 1
        ratio = a / b
        if not ratio >= lo:
            return violation("order", "%s on %s: errors %s under successive halving of every interval (ratio %.3f, declared order %d needs >= %.2f); max h*L=%g"
                             % (method, fam, ["%.3e" % e for e in errs], ratio, p, lo, hL), labels)
    if judged == 0:
        return discard("error_below_rounding_floor", labels)
    return ok(labels, nontrivial=True)


def chain_problem(case):
    """coefficients of a polynomial chain (R.CHAIN_KINDS) from the case seed; small integers/halves so that the
    counter-example is readable"""
    degs, tdep = R.CHAIN_KINDS[case["chain"]]
    g = torch.Generator().manual_seed(case["seed"])
    ns = [1 + int(torch.randint(0, 2, (1,), generator=g)) for _ in degs]

    def rnd(shape):
        return torch.randint(-4, 5, shape, generator=g).to(DT) / 2.0
    Qs, Cs, y0s = [], [], []
    for j, dg in enumerate(degs):
        Q = rnd((dg + 1, ns[j]))
        Q[dg] = Q[dg] + (Q[dg] == 0).to(DT)           # the top coefficient is non-zero: the tree is really exercised
        Qs.append(Q)
        y0s.append(rnd((ns[j],)))
        if j > 0:
            C0 = rnd((ns[j], ns[j - 1]))
            C0 = C0 + (C0 == 0).to(DT)
            C1 = None
            if tdep[j - 1]:
                C1 = rnd((ns[j], ns[j - 1]))
                C1 = C1 + (C1 == 0).to(DT)
            Cs.append((C0, C1))
    return ns, Qs, Cs, y0s


def run_fixed_exact(case):
    """any method satisfying the order conditions up to 4 integrates the polynomial chains exactly (Euler: constants)"""
    from xitorch.integrate import solve_ivp
    torch.manual_seed(0)
    method = case["method"]
    ns, Qs, Cs, y0s = chain_problem(case)
    span = span_of(case["grid"])
    tvals = R.grid_values(case["grid"], span)
    tc = tvals[0]
    ts = torch.tensor(tvals, dtype=DT)
    nt = len(tvals)
    # time scale: s = (t - tc) * sc keeps |s| <= 2 whatever the span
    sc = 2.0 / span
    form = case["form"]
    labels = ["method=" + method, "kind=exact", "chain=" + case["chain"], "form=" + form] + R.grid_labels(case["grid"])

    def split(v):
        out, i = [], 0
        for n in ns:
            out.append(v[..., i:i + n])
            i += n
        return out

    def fcn(t, y):
        ys = split(y) if form == "tensor" else list(y)
        out = R.chain_rhs((t - tc) * sc, ys, Qs, Cs)
        out = [o * sc for o in out]
        return torch.cat(out) if form == "tensor" else tuple(out)
    y0 = torch.cat(y0s) if form == "tensor" else tuple(y.clone() for y in y0s)
    res = xt_call(solve_ivp, fcn, ts, y0, method=method, _where="forward")
    if form == "tensor":
        got = split(res)
    else:
        got = list(res)
    svals = [(ts[i] - tc) * sc for i in range(nt)]
    sols, mag = R.chain_exact(svals, y0s, Qs, Cs)
    tol = 200 * EPS * mag * (nt - 1) * (1 + abs(tc) / span)      # stage-time rounding at offset tc is amplified by 1/span
    for j, (a, b) in enumerate(zip(got, sols)):
        if tuple(a.shape) != tuple(b.shape):
            return violation("result_shape", "level %d has shape %r, expected %r" % (j, tuple(a.shape), tuple(b.shape)), labels)
        err = float((a - b).abs().max())
        if not err <= tol:
            return violation("order_condition", "%s is not exact on the polynomial chain %s (level %d: error %.3e, tol %.3e): every method of order %d "
                             "integrates it exactly" % (method, case["chain"], j, err, tol, R.FIXED[method]), labels)
    return ok(labels, nontrivial=True)


@st.composite
def fixed_order_st(draw):
    method = draw(st.sampled_from(["euler", "rk4", "rk38"]))
    kind = draw(st.sampled_from(["exact", "ratio"]))
    seed = draw(st.integers(0, 2 ** 31 - 1))
    if kind == "exact":
        chain = "const" if method == "euler" else draw(st.sampled_from(["quad3", "chain2", "chain2t", "chain3"]))
        grid = draw(R.grid_st(min_nt=2, max_nt=5))
        return {"kind": kind, "method": method, "chain": chain, "grid": grid, "form": draw(st.sampled_from(["tensor", "tuple"])), "seed": seed}
    hL = draw(st.sampled_from([0.004, 0.01, 0.03] if method == "euler" else [0.05, 0.1]))
    grid = draw(R.grid_st(min_nt=3, max_nt=7, offsets=(0.0, -3.0, 2.5)))
    return {"kind": kind, "method": method, "family": draw(st.sampled_from(["linear", "osc", "sep", "logistic"])),
            "shape": draw(st.sampled_from([[1], [2], [3], [2, 2], [2, 3]])), "grid": grid, "hL": hL, "seed": seed}


def run_adaptive_acc(case):
    from xitorch.integrate import solve_ivp
    torch.manual_seed(0)
    method = case["method"]
    s = R.STAGES[method]
    atol, rtol = tol_values(case)
    span = span_of(case["grid"])
    # The embedded estimate is only asymptotically a bound of the error: for y'=lambda*y the Bogacki-Shampine estimate is
    # |y| |z|^3 |1+z| / 48 (z = h*lambda), which vanishes at z = -1 although the error there is 0.035|y| (Dormand-Prince: zeros at
    # |z| = 4.4).  xitorch takes the whole first interval as its first step (h0 = ts[1]-ts[0], no step-size guess), so the first step
    # is not controlled: y'=-y on ts=[0,1] with rk23 and the default tolerances returns y0/3 (error 3.5e-2).  Later steps are
    # approached from below by the controller.  With FIRST_STEP_GUARD the accuracy claim is judged only for |h0| L <= 0.5 (rk23) /
    # 1 (rk45); without it the generator additionally targets |h0 lambda| = 1 (site "first_step_whole_interval").
    incr = case["grid"]["incr"]
    LT = case["LT"]
    if case.get("z0"):
        # targeted coincidence: |h0 * lambda| = z0 on the first interval for a scalar linear problem
        LT = min(2.0, case["z0"] * sum(incr) / incr[0])
    if FIRST_STEP_GUARD and not case.get("unguarded"):
        LT = min(LT, (0.5 if method == "rk23" else 1.0) * sum(incr) / incr[0])
    fam, params, y0, tvals = family_setup(case, LT, span)
    ts = torch.tensor(tvals, dtype=DT)
    nt = len(tvals)
    ncalls = [0]

    def fcn(t, y):
        ncalls[0] += 1
        if ncalls[0] > R.MAX_CALLS:
            raise R.EvalBudget("more than %d evaluations of the right-hand side" % R.MAX_CALLS)
        return R.family_rhs(fam, t, y, params)
    labels = ["method=" + method, "family=" + fam] + R.grid_labels(case["grid"]) + [
        "atol=1e-%d" % case["atol_e"], "rtol=" + ("0" if case["rtol_e"] is None else "1e-%d" % case["rtol_e"]), "LT=%g" % case["LT"],
        "first_step=" + ("resonant" if case.get("z0") else "generic")]
    y = xt_call(solve_ivp, fcn, ts, y0.clone(), method=method, atol=atol, rtol=rtol, _where="forward")
    exact = R.family_exact(fam, ts, y0, params)
    if tuple(y.shape) != tuple(exact.shape):
        return violation("result_shape", "result shape %r, expected %r" % (tuple(y.shape), tuple(exact.shape)), labels)
    if not bitwise_equal(y[0], y0):
        return violation("y0_not_exact", "y[0] differs from y0", labels)
    natt = max(1, (ncalls[0] - 1) // s)
    ymax = max(float(torch.linalg.vector_norm(exact[i])) for i in range(nt))
    # rounding floor: arithmetic, and the rounding of the step end times t+h at |t| <= tmax (each accepted step ends at a time that is
    # off by up to an ulp of tmax, i.e. the state is off by rate*ulp(tmax)*|y|; rate = LT/span bounds |y'|/|y|)
    tmax = max(abs(tvals[0]), abs(tvals[-1]))
    bound = 20.0 * natt * (atol + rtol * ymax) + (1e3 + 4 * tmax * LT / span) * EPS * natt * ymax
    for i in range(1, nt):
        err = float(torch.linalg.vector_norm(y[i] - exact[i]))
        if not err <= bound:
            return violation("accuracy", "%s on %s at ts[%d]=%r: |y - exact|_2 = %.3e exceeds 20*N*(atol+rtol*max|y|) = %.3e (N=%d attempted steps, atol=%g rtol=%g, max|y|=%.3g)"
                             % (method, fam, i, tvals[i], err, bound, natt, atol, rtol, ymax), labels)
    labels = labels + ["steps=" + ("<=8" if natt <= 8 else "9-64" if natt <= 64 else ">64")]
    return ok(labels, nontrivial=natt > nt - 1)


@st.composite
def adaptive_acc_st(draw, tier="quick"):
    method = draw(st.sampled_from(["rk23", "rk45"]))
    lo = 11 if method == "rk45" else (9 if tier == "thorough" else 8)
    c = {"method": method, "family": draw(st.sampled_from(R.FAMILIES)), "shape": draw(st.sampled_from([[1], [2], [3], [2, 2], [2, 3]])),
         "grid": draw(R.grid_st(offsets=(0.0, -3.0, 2.5))), "LT": draw(st.sampled_from([0.3, 1.0, 2.0])),
         "atol_e": draw(st.integers(4, lo)), "rtol_e": draw(st.one_of(st.none(), st.integers(4, lo))),
         "z0": None if FIRST_STEP_GUARD else draw(st.sampled_from([None, None, None, 1.0])), "seed": draw(st.integers(0, 2 ** 31 - 1))}
    return c


@st.composite
def first_step_st(draw, tier="quick"):
    """known finding D31 (site first_step_whole_interval): scalar linear problem with |h0*lambda| = 1 on the first interval, rk23,
    judged without the first-step guard; every *other* kind of violation in these cases still fails the run"""
    c = {"method": "rk23", "family": "linear", "shape": [1], "grid": draw(R.grid_st(max_nt=3, offsets=(0.0,))), "LT": 1.0,
         "atol_e": draw(st.integers(5, 8)), "rtol_e": draw(st.integers(4, 7)), "z0": 1.0, "unguarded": True,
         "seed": draw(st.integers(0, 2 ** 31 - 1))}
    return c


def tasks(tier):
    def task(name, strategy, run, examples):
        return Task(name, strategy=strategy, run=isolated(name, run), examples=examples)
    return [
        task("fixed_scheme", fixed_scheme_st(), run_fixed_scheme, {"quick": 3000, "thorough": 30000}),
        task("fixed_order", fixed_order_st(), run_fixed_order, {"quick": 800, "thorough": 6000}),
        task("adaptive_steps", adaptive_steps_st(tier), run_adaptive_steps, {"quick": 1400, "thorough": 9000}),
        task("adaptive_acc", adaptive_acc_st(tier), run_adaptive_acc, {"quick": 1000, "thorough": 8000}),
        task("first_step", first_step_st(tier), run_adaptive_acc, {"quick": 48, "thorough": 400}),
    ]
