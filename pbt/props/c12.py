"""C12 — quad applies an exact n-point Gauss-Legendre rule on the requested interval.

Oracle: exact rational antiderivative (fractions.Fraction) for polynomials of degree <= 2n-1; the closed-form
error term of the n-point rule for x^(2n) (so a silently different n is visible); extracted abscissae vs numpy's
Gauss-Legendre nodes; an independent f64 Gauss-Legendre sum of f(tan t) sec^2 t for infinite limits; the double sum over
two such rules for a quad called inside the integrand of a quad (re-entrancy), each call of a sequence against its own rule.
Limits given as tensors of another dtype than the integrand's (float32 <-> float64, int64) are the numbers they hold.
Complex-valued integrands (complex64 / complex128 output, polynomial with complex rational coefficients, real limits): the same
relations with the exact rational reference applied to the real and to the imaginary part (the rule is linear over C: weights and
abscissae are real), linearity with complex factors (incl. multiplication by 1j), complex decaying integrands on infinite intervals.
"""
from __future__ import annotations

import math
from fractions import Fraction

import numpy as np
import torch
from hypothesis import strategies as st

from pbt.harness import Task, ok, violation, discard

PID = "C12"
RULE = ("task quad: n in 1..60 (thorough 300) x polynomial of degree <= 2n-1 with small rational coefficients "
        "(or the monomial x^(2n) for the error-term test) x interval (any orientation, |x| from 1e-3 to 1e2, down to subnormal) x limit form "
        "(int/float/0-d tensor/1-element tensor) x dtype of a tensor limit (the integrand's, or float32 with a float64 integrand, float64 "
        "with a float32 integrand, integer-valued int64) x float32 parameter tensor with a float64 integrand x dtype x output kind "
        "(scalar/tensor/tuple) x relation (exactness, linearity, swap, additivity, nodes, infinite limits, stored constant). "
        "task reentrant: quad called by the integrand of quad (iterated integral int dx int dy F(x,y), normalisation constant computed "
        "inside the integrand): outer and inner interval each finite / half-infinite / doubly infinite in both orientations, inner limits "
        "fixed or running with x, inner n equal to or different from the outer n, inner integrand float64 or float32, x handed over "
        "by closure or through params, limit forms/dtypes as above; and sequences of 2-4 calls on different intervals followed by the "
        "first call again. Non-trivial = n>=2, degree>=2 (or infinite limits / nested / sequence with non-zero reference) and xl != xu; "
        "distinct by canonical case.")
ASSUMPTIONS = [
    "rounding model: |error| <= (20(deg+2)+4n) eps sum_k|c_k| M^k |xu-xl| for Horner evaluation in the case dtype",
    "numpy.polynomial.legendre.leggauss is the reference for nodes (independent of xitorch's mapping code)",
    "infinite limits: reference is an independent float64 n-point rule on f(tan t)/cos^2 t",
    "a one-element tensor limit IS the number it holds (exactly, in its own dtype): the reference interval is [float(xl), float(xu)] "
    "brought to the dtype of the integrand's output, in which the rule is built; the tolerance uses the eps of that dtype only",
    "abscissae: 8 eps M plus 8 spacings of the subnormal range (tiny*eps) as absolute floor",
    "nested calls: reference = double sum over the two independent rules, tolerance 1e3 eps64 (sum of absolute terms), plus "
    "1e3 eps32 of the same when the inner integrand is float32 (measured: <= 6 eps on the unchanged tree)",
]
LEVEL_TEXT = ("Exploration with a complete characterisation as oracle: an n-node rule exact to degree 2n-1 is the Gauss-Legendre rule, "
              "checked against exact rational arithmetic plus the closed-form error for degree 2n and direct node extraction.")
LEVEL_NOTE = "trusts fractions.Fraction arithmetic, numpy leggauss nodes, stated rounding model; n<=300, |x|<=1e2"
TECHNIQUE = "Hypothesis property-based testing: exact-arithmetic oracle + metamorphic relations + rule extraction"

DT = {"f32": torch.float32, "f64": torch.float64}
CDT = {"f32": torch.complex64, "f64": torch.complex128}     # complex integrand of the same precision
K_CPLX = 4.0      # complex arithmetic: one complex multiply-add costs <= 4 real rounding errors relative to the moduli


def poly_eval(x, coefs, dtype=None):
    # Horner; coefs[k] multiplies x^k. Numbers (the probe call passes xl as given) are taken in the case dtype
    # (and tensor limits of another dtype - float32 / int64 one-element tensors - are brought to the integrand's dtype:
    # the integrand is a float64 [float32] function whatever it is handed)
    if not isinstance(x, torch.Tensor):
        x = torch.as_tensor(x, dtype=dtype)
    elif dtype is not None and x.dtype != dtype:
        x = x.to(dtype)
    y = torch.zeros_like(x) + coefs[-1]
    for c in reversed(coefs[:-1]):
        y = y * x + c
    return y


def exact_integral(coefs_frac, a: Fraction, b: Fraction) -> Fraction:
    s = Fraction(0)
    for k, c in enumerate(coefs_frac):
        s += c * (b ** (k + 1) - a ** (k + 1)) / (k + 1)
    return s


LDT = {"f32": torch.float32, "f64": torch.float64, "i64": torch.int64}


def mk_limit(val: float, form: str, dtype, ldt=None):
    """the limit as the caller hands it over; `ldt` = dtype of a tensor limit when it is not the integrand's
    (a float32 tensor - what torch.tensor(0.3) gives - with a float64 integrand, the reverse, an int64 tensor)"""
    if form == "int":
        return int(val)
    if form == "float":
        return float(val)
    tdt = LDT[ldt] if ldt else dtype
    if tdt == torch.int64:
        val = int(val)
    if form == "t0":
        return torch.tensor(val, dtype=tdt)
    if form == "t1":
        return torch.tensor([val], dtype=tdt)
    raise ValueError(form)


def limit_value(val, form, dtype, ldt=None) -> float:
    """the float the code will actually integrate to: the number the caller's limit IS (a python number, or the exact
    value of the one-element tensor in its own dtype), brought to the integrand's dtype"""
    if form == "int":
        val = int(val)
    if form in ("t0", "t1") and ldt:
        if LDT[ldt] == torch.int64:
            val = int(val)
        return float(torch.tensor(val, dtype=LDT[ldt]).to(dtype))
    return float(torch.as_tensor(val, dtype=dtype))


def second_coefs(case, c2_re, dtype):
    """complex coefficients of the second polynomial of a complex case (imaginary parts exactly representable in `dtype`)"""
    im = [float(torch.tensor(float(Fraction(p_, q_)), dtype=dtype)) for p_, q_ in case["coefs2_im"]]
    return [complex(r_, i_) for r_, i_ in zip(c2_re, im)]


def S_bound(coefs, M):
    return sum(abs(c) * M ** k for k, c in enumerate(coefs))


def run_case(case):
    from xitorch.integrate import quad
    torch.manual_seed(0)
    n = case["n"]
    dtype = DT[case["dtype"]]
    eps = torch.finfo(dtype).eps
    tiny = torch.finfo(dtype).tiny      # underflow floor: outside the relative rounding model
    rel = case["rel"]
    cplx = bool(case.get("cplx"))
    odt = CDT[case["dtype"]] if cplx else dtype       # dtype of the integrand's output = dtype of the result
    labels = ["rel=" + rel, "dtype=" + case["dtype"], "n=" + ("1" if n == 1 else "2-9" if n < 10 else "10-99" if n < 100 else "100+"),
              "integrand=" + ("complex" if cplx else "real")]

    if rel == "inf":
        return run_inf(case, labels)
    if rel == "nested":
        return run_nested(case, labels)
    if rel == "seq":
        return run_seq(case, labels)

    coefs_f = [Fraction(p, q) for p, q in case["coefs"]]
    coefs = [float(c) for c in coefs_f]
    # coefficients as they are seen in the case dtype (or in the dtype of the parameter tensor when that is float32 with a
    # float64 integrand: the values are then exact in both, and the integrand's output - hence quad's dtype - is float64)
    pdt = DT[case.get("pdt") or case["dtype"]]
    coefs_t = [float(torch.tensor(c, dtype=pdt)) for c in coefs]
    coefs_fr = [Fraction(c) for c in coefs_t]
    coefs_fi = None
    if cplx:
        # complex coefficients c_k = re_k + i im_k (both exactly representable in the real dtype of the complex dtype)
        im_t = [float(torch.tensor(float(Fraction(p_, q_)), dtype=dtype)) for p_, q_ in case["coefs_im"]]
        coefs_fi = [Fraction(c) for c in im_t]
        coefs_t = [complex(r_, i_) for r_, i_ in zip(coefs_t, im_t)]
    deg = len(coefs) - 1
    xldt, xudt = case.get("xldt"), case.get("xudt")
    xlv = limit_value(case["xl"], case["xlform"], dtype, xldt)
    xuv = limit_value(case["xu"], case["xuform"], dtype, xudt)
    xl = mk_limit(case["xl"], case["xlform"], dtype, xldt)
    xu = mk_limit(case["xu"], case["xuform"], dtype, xudt)
    for nm, form, ld in (("xl", case["xlform"], xldt), ("xu", case["xuform"], xudt)):
        if form in ("t0", "t1"):
            labels.append("%sdt=%s" % (nm, "same" if not ld or LDT[ld] == dtype else ld + "_in_" + case["dtype"]))
    if pdt != dtype:
        labels.append("pdt=f32_in_f64")
    a, b = Fraction(xlv), Fraction(xuv)
    M = max(abs(xlv), abs(xuv))
    width = abs(xuv - xlv)

    calls = []
    ctens = torch.tensor(coefs_t, dtype=odt if cplx else pdt)
    kc = K_CPLX if cplx else 1.0

    def f(x, c):
        # the probe call passes xl as the caller gave it (maybe a number, maybe a tensor of another dtype); a complex-valued
        # integrand evaluates the polynomial in its complex dtype (quad hands it the abscissae in that dtype)
        x = torch.as_tensor(x).to(odt) if isinstance(x, torch.Tensor) else torch.as_tensor(x, dtype=odt)
        calls.append(x.detach().clone())
        return poly_eval(x, [ck.to(odt) for ck in c], odt)

    def tol_for(cfs, d=None):
        d = len(cfs) - 1 if d is None else d
        return kc * ((20 * (d + 2) + 4 * n) * eps * S_bound(cfs, M) * width + 1e3 * tiny * (1 + S_bound(cfs, M)))

    def val(r):
        r0 = r.reshape(-1)[0]
        return complex(r0) if cplx else float(r0)

    def exact_ref(fr, fi=None):
        re_ = float(exact_integral(fr, a, b))
        return complex(re_, float(exact_integral(fi, a, b))) if cplx else re_

    def typecheck(res, what="quad"):
        if not isinstance(res, torch.Tensor):
            return violation("type", "%s returned %r" % (what, type(res)), labels)
        if res.numel() != 1:
            return violation("shape", "result of a scalar integrand has shape %s" % (tuple(res.shape),), labels)
        if res.dtype != odt:
            return violation("dtype", "result dtype %s, expected %s" % (res.dtype, odt), labels)
        return None

    nontrivial = n >= 2 and deg >= 2 and xlv != xuv
    Mall = max(M, abs(float(case.get("xm", 0.0))))
    if S_bound(coefs_t, Mall) * (1 + Mall) > 1e-4 * torch.finfo(dtype).max:
        return discard("overflow_range", labels)

    if rel == "stored":
        # a degree-0 integrand that hands back a tensor it holds (the parameter itself, a view of it, a stored level):
        # the rule must integrate it to c*(xu-xl) for every n and must leave the caller's tensor untouched
        k = 1 + (len(coefs_t) % 3)
        cst = torch.tensor((coefs_t * 3)[:k], dtype=dtype)
        before = cst.clone()
        how = case.get("stored", "param")

        def fs(x, c):
            calls.append(1)
            return {"param": c, "view": c[:], "reshape": c.reshape(-1), "index": c[0] if False else c[0:k]}[how]
        res = quad(fs, xl, xu, params=(cst,), n=n)
        if not torch.equal(cst, before):
            return violation("input_mutated", "the integrand's own tensor %r was changed to %r by quad (n=%d)" % (before.tolist(), cst.tolist(), n), labels)
        ref = before.double() * (xuv - xlv)
        err = float((res.reshape(-1).double() - ref).abs().max())
        tl = (20 + 4 * n) * eps * float(before.abs().max()) * width + 1e3 * tiny
        if tuple(res.reshape(-1).shape) != (k,) or not err <= tl:
            return violation("stored_const", "constant integrand %r on [%r,%r] with n=%d: quad=%r, expected %r" % (
                before.tolist(), xlv, xuv, n, res.reshape(-1).tolist(), ref.tolist()), labels)
        return ok(labels + ["stored=" + how], n >= 2 and xlv != xuv)

    if rel in ("exact", "nodes"):
        res = quad(f, xl, xu, params=(ctens,), n=n)
        bad = typecheck(res)
        if bad:
            return bad
        ref = exact_ref(coefs_fr, coefs_fi)
        err = abs(val(res) - ref)
        if not err <= tol_for(coefs_t):
            return violation("not_exact", "n=%d deg=%d [%r,%r]: quad=%r exact=%r err=%.3e tol=%.3e" % (
                n, deg, xlv, xuv, val(res), ref, err, tol_for(coefs_t)), labels)
        # evaluation points: n (+ one probe at xl) and they are the mapped Gauss-Legendre nodes
        # (a complex integrand is handed real abscissae in its complex dtype: imaginary part zero)
        if cplx and any(abs(float(c.reshape(-1)[0].imag)) > 0 for c in calls[1:]):
            return violation("nodes", "abscissae of a complex integrand with real limits have a non-zero imaginary part", labels)
        xs = sorted(float(c.reshape(-1)[0].real if cplx else c.reshape(-1)[0]) for c in calls[1:])
        if len(calls) != n + 1:
            return violation("neval", "integrand evaluated %d times, expected n+1=%d" % (len(calls), n + 1))
        nodes, _ = np.polynomial.legendre.leggauss(n)
        refx = sorted(0.5 * (xuv - xlv) * nodes + 0.5 * (xuv + xlv))
        lo, hi = min(xlv, xuv), max(xlv, xuv)
        # relative spacing eps*M of the affine map, plus an absolute floor of a few spacings of the subnormal range
        # (tiny*eps = the smallest subnormal: limits such as 1e-41 in float32 are legitimate numbers, the relative model
        # does not hold there - false alarm at VERIF_SEED=36 otherwise)
        ntol = 8 * eps * M + 8 * tiny * eps
        for x, rx in zip(xs, refx):
            if abs(x - rx) > ntol or x < lo - ntol or x > hi + ntol:
                return violation("nodes", "abscissa %r differs from Gauss-Legendre node %r on [%r,%r]" % (x, rx, xlv, xuv))
        return ok(labels, nontrivial)

    if rel == "errterm":
        # x^(2n): the rule must be off by exactly the Gauss-Legendre error term
        mono = [0.0] * (2 * n) + [1.0]
        res = quad(lambda x: torch.as_tensor(x, dtype=dtype) ** (2 * n), xl, xu, n=n)
        ref = exact_integral([Fraction(0)] * (2 * n) + [Fraction(1)], a, b)
        E = (b - a) ** (2 * n + 1) * Fraction(math.factorial(n) ** 4, (2 * n + 1) * math.factorial(2 * n) ** 2)
        got = float(res.reshape(-1)[0]) - float(ref)
        tol = tol_for(mono)
        if abs(float(E)) < 50 * tol:
            return discard("errterm_below_rounding", labels)
        if abs(got + float(E)) > tol + 1e-6 * abs(float(E)):
            return violation("errterm", "n=%d on [%r,%r]: quad-exact=%.6e but the n-point Gauss-Legendre error term is %.6e" % (
                n, xlv, xuv, got, -float(E)))
        return ok(labels, n >= 2 and xlv != xuv)

    if rel == "linear":
        c2_f = [Fraction(p, q) for p, q in case["coefs2"]]
        c2 = [float(torch.tensor(float(c), dtype=dtype)) for c in c2_f]
        al, be = case["alpha"], case["beta"]
        if cplx:
            c2 = second_coefs(case, c2, dtype)
            # complex factors (the rule is linear over C): alpha_c / beta_c = [re, im], e.g. [0, 1] = multiplication by 1j
            al, be = complex(*case["alpha_c"]), complex(*case["beta_c"])
            labels.append("alpha=%s" % ("1j" if al == 1j else "imag" if al.real == 0 else "real" if al.imag == 0 else "complex"))
        L = max(len(coefs_t), len(c2))
        p1 = coefs_t + [0.0] * (L - len(coefs_t))
        p2 = c2 + [0.0] * (L - len(c2))
        r1 = quad(lambda x: poly_eval(x, p1, odt), xl, xu, n=n)
        r2 = quad(lambda x: poly_eval(x, p2, odt), xl, xu, n=n)
        r12 = quad(lambda x: al * poly_eval(x, p1, odt) + be * poly_eval(x, p2, odt), xl, xu, n=n)
        for r_ in (r1, r2, r12):
            bad = typecheck(r_)
            if bad:
                return bad
        tol = (abs(al) + 1) * tol_for(p1) + (abs(be) + 1) * tol_for(p2)
        err = abs(val(r12) - (al * val(r1) + be * val(r2)))
        if not err <= 2 * tol:
            return violation("linearity", "quad(%r*f1+%r*f2)=%r but %r*quad(f1)+%r*quad(f2)=%r: err=%.3e tol=%.3e" % (
                al, be, val(r12), al, be, al * val(r1) + be * val(r2), err, 2 * tol), labels)
        return ok(labels, nontrivial)

    if rel == "swap":
        r1 = quad(f, xl, xu, params=(ctens,), n=n)
        r2 = quad(f, xu, xl, params=(ctens,), n=n)
        err = abs(val(r1) + val(r2))
        if not err <= 2 * tol_for(coefs_t):
            return violation("swap", "int_a^b + int_b^a = %.3e (tol %.3e)" % (err, 2 * tol_for(coefs_t)), labels)
        if cplx:
            # both orientations against the exact integral, real and imaginary part
            ref = exact_ref(coefs_fr, coefs_fi)
            for r_, rf, nm in ((r1, ref, "int_a^b"), (r2, -ref, "int_b^a")):
                bad = typecheck(r_)
                if bad:
                    return bad
                if not abs(val(r_) - rf) <= tol_for(coefs_t):
                    return violation("swap_exact", "%s of a complex polynomial: quad=%r exact=%r (tol %.3e)" % (nm, val(r_), rf, tol_for(coefs_t)), labels)
        return ok(labels, nontrivial)

    if rel == "additive":
        xmv = limit_value(case["xm"], "float", dtype)
        xm = mk_limit(case["xm"], case["xlform"] if case["xlform"] != "int" else "float", dtype,
                      xldt if xldt in ("f32", "f64") else None)
        if xldt in ("f32", "f64") and case["xlform"] in ("t0", "t1"):
            xmv = limit_value(case["xm"], "t0", dtype, xldt)
        M2 = max(M, abs(xmv))
        w2 = abs(xmv - xlv) + abs(xuv - xmv)
        tol = kc * ((20 * (deg + 2) + 4 * n) * eps * S_bound(coefs_t, M2) * (w2 + width) + 1e3 * tiny * (1 + S_bound(coefs_t, M2)))
        r = quad(f, xl, xu, params=(ctens,), n=n)
        r1 = quad(f, xl, xm, params=(ctens,), n=n)
        r2 = quad(f, xm, xu, params=(ctens,), n=n)
        err = abs(val(r) - val(r1) - val(r2))
        if not err <= tol:
            return violation("additivity", "err=%.3e tol=%.3e" % (err, tol), labels)
        if cplx:
            # the three pieces against their exact integrals, real and imaginary part
            am, refs = Fraction(xmv), []
            for lo_, hi_ in ((a, b), (a, am), (am, b)):
                refs.append(complex(float(exact_integral(coefs_fr, lo_, hi_)), float(exact_integral(coefs_fi, lo_, hi_))))
            for r_, rf in zip((r, r1, r2), refs):
                bad = typecheck(r_)
                if bad:
                    return bad
                if not abs(val(r_) - rf) <= tol:
                    return violation("additive_exact", "piece of a complex polynomial: quad=%r exact=%r (tol %.3e)" % (val(r_), rf, tol), labels)
        return ok(labels, nontrivial)

    if rel in ("tuple", "tensor"):
        c2_f = [Fraction(p, q) for p, q in case["coefs2"]]
        c2 = [float(torch.tensor(float(c), dtype=dtype)) for c in c2_f]
        ref1 = exact_ref(coefs_fr, coefs_fi)
        ref2 = float(exact_integral([Fraction(c) for c in c2], a, b))
        if cplx:
            c2 = second_coefs(case, c2, dtype)
            ref2 = complex(ref2, float(exact_integral([Fraction(c.imag) for c in c2], a, b)))
        if rel == "tuple":
            shp = tuple(case["shape"])

            def ft(x):
                y1 = poly_eval(x, coefs_t, odt)
                y2 = poly_eval(x, c2, odt)
                return y1.reshape(-1)[0] * torch.ones(shp, dtype=odt), y2, (y1 - y2).reshape(-1)[0] * torch.ones((2,), dtype=odt)
            res = quad(ft, xl, xu, n=n)
            if not isinstance(res, (tuple, list)) or len(res) != 3:
                return violation("tuple_out", "expected a 3-tuple, got %r" % (type(res),), labels)
            if tuple(res[0].shape) != shp or tuple(res[2].shape) != (2,):
                return violation("tuple_shape", "component shapes %s" % [tuple(r.shape) for r in res], labels)
            if cplx and any(r_.dtype != odt for r_ in res):
                return violation("dtype", "component dtypes %s of a %s tuple-valued integrand" % ([r_.dtype for r_ in res], odt), labels)
            vals = [(res[0], ref1, tol_for(coefs_t)), (res[1], ref2, tol_for(c2)),
                    (res[2], ref1 - ref2, tol_for(coefs_t) + tol_for(c2))]
        else:
            def fT(x):
                return torch.stack([poly_eval(x, coefs_t, odt).reshape(-1)[0], poly_eval(x, c2, odt).reshape(-1)[0]]).reshape(2, 1)
            res = quad(fT, xl, xu, n=n)
            if tuple(res.shape) != (2, 1):
                return violation("tensor_shape", "shape %s" % (tuple(res.shape),), labels)
            if cplx and res.dtype != odt:
                return violation("dtype", "result dtype %s of a %s tensor-valued integrand" % (res.dtype, odt), labels)
            vals = [(res[0], ref1, tol_for(coefs_t)), (res[1], ref2, tol_for(c2))]
        for r, ref, tol in vals:
            if not bool(((r.reshape(-1) - ref).abs() <= tol).all()):
                return violation("component", "component value %r, exact %r, tol %.3e" % (r.reshape(-1).tolist(), ref, tol), labels)
        return ok(labels, nontrivial)

    raise ValueError(rel)


INF = float("inf")
K_RULE = 1e3    # rule-vs-rule comparisons: K_RULE * eps * (sum of the absolute terms of the reference sum)


def _endval(v):
    return {"ninf": -INF, "pinf": INF}.get(v, v)


def _mk_end(v, form, ldt=None):
    """a (possibly infinite) limit as the caller hands it over: python float, 0-d or one-element tensor (float64, or
    float32 = what torch.tensor(v) gives; all generated finite values are exactly representable in float32)"""
    if form == "float":
        return float(v)
    dt = LDT[ldt] if ldt else torch.float64
    return torch.tensor(v, dtype=dt) if form == "t0" else torch.tensor([v], dtype=dt)


def ref_rule(n, xlv, xuv):
    """abscissae and weights (float64 tensors) of the n-point Gauss-Legendre rule on [xlv, xuv]; with an infinite limit
    the rule on [atan xl, atan xu] for f(tan t) sec^2 t, i.e. abscissae tan t_i and weights w_i / cos^2 t_i.
    Independent of xitorch: numpy's nodes, plain arithmetic."""
    nodes, w = np.polynomial.legendre.leggauss(n)
    if math.isinf(xlv) or math.isinf(xuv):
        tl, tu = math.atan(xlv), math.atan(xuv)
        t = torch.tensor(0.5 * (tu - tl) * nodes + 0.5 * (tu + tl), dtype=torch.float64)
        wt = torch.tensor(w * 0.5 * (tu - tl), dtype=torch.float64)
        return torch.tan(t), wt / torch.cos(t) ** 2
    x = torch.tensor(0.5 * (xuv - xlv) * nodes + 0.5 * (xuv + xlv), dtype=torch.float64)
    return x, torch.tensor(w * 0.5 * (xuv - xlv), dtype=torch.float64)


def fam1(fam, a, p, q=None, prec="f64"):
    """decaying integrands; with q (complex-valued variant, evaluated in the complex dtype of precision `prec`) multiplied by
    the bounded-or-polynomial complex factor 1 + i q x (gauss, exp) / 1 + i q x/(1+x^2) (lorentz): still absolutely integrable"""
    wdt = torch.float64 if q is None else CDT[prec]

    def f(x):
        x = torch.as_tensor(x).to(wdt)
        if fam == "gauss":
            y = torch.exp(-a * x * x) * (1 + p * x * x)
        elif fam == "lorentz":
            y = 1.0 / (1 + a * x * x) ** (1 + p)
        elif fam == "exp":
            ax = torch.abs(x) if q is None else torch.abs(x.real)      # x is real (zero imaginary part) in a complex dtype
            y = torch.exp(-a * ax) * (1 + p * ax)
        else:
            raise ValueError(fam)
        if q is not None:
            y = y * ((1 + 1j * q * x / (1 + x * x)) if fam == "lorentz" else (1 + 1j * q * x))
        return y
    return f


def one_call(sub):
    """one quad call on a decaying integrand (finite, half- or doubly-infinite interval): (value, reference, scale)"""
    from xitorch.integrate import quad
    q = sub.get("q")
    f = fam1(sub["fam"], sub["a"], sub["p"], q, sub.get("prec", "f64"))
    xlv, xuv = _endval(sub["xl"]), _endval(sub["xu"])
    res = quad(f, _mk_end(xlv, sub["xlform"], sub.get("ldt")), _mk_end(xuv, sub.get("xuform", sub["xlform"]), sub.get("ldt")), n=sub["n"])
    xs, wt = ref_rule(sub["n"], xlv, xuv)
    if q is not None:
        # complex-valued: the reference sum is evaluated in complex128 on the real float64 abscissae
        terms = wt * fam1(sub["fam"], sub["a"], sub["p"], q, "f64")(xs)
        return res, complex(terms.sum()), float(terms.abs().sum()) + 1e-300
    terms = wt * f(xs)
    return res, float(terms.sum()), float(terms.abs().sum()) + 1e-300


def run_inf(case, labels):
    n = case["n"]
    fam, a, p = case["fam"], case["a"], case["p"]
    inf = INF
    xlv, xuv = _endval(case["xl"]), _endval(case["xu"])
    res, ref, scale = one_call(case)
    q = case.get("q")
    if q is not None:
        return run_inf_complex(case, labels, res, ref, scale)
    if res.dtype != torch.float64:
        return violation("dtype", "result dtype %s of a float64 integrand (limits %s/%s)" % (res.dtype, case["xlform"], case.get("ldt")), labels)
    got = float(res.reshape(-1)[0])
    if not abs(got - ref) <= K_RULE * 2.2e-16 * scale:
        return violation("inf_rule", "fam=%s [%r,%r] n=%d: quad=%r, tan-substituted rule=%r" % (fam, xlv, xuv, n, got, ref))
    # closed forms where available (n >= 100, doubly infinite or half infinite from 0)
    closed = None
    if n >= 100 and a >= 0.5:
        full = (xlv == -inf and xuv == inf)
        half = (xlv == 0 and xuv == inf) or (xlv == -inf and xuv == 0)
        if fam == "gauss" and (full or half):
            closed = math.sqrt(math.pi / a) * (1 + p / (2 * a)) * (1 if full else 0.5)
        elif fam == "lorentz" and p == 0 and (full or half):
            closed = math.pi / math.sqrt(a) * (1 if full else 0.5)
    if closed is not None and abs(got - closed) > 2e-5 * abs(closed):
        return violation("inf_closed_form", "fam=%s n=%d: quad=%r closed form=%r" % (fam, n, got, closed))
    labels = labels + ["fam=" + fam, "closed" if closed is not None else "noclosed", "ldt=%s" % (case.get("ldt") or "same")]
    return ok(labels, True)


def run_inf_complex(case, labels, res, ref, scale):
    """complex-valued decaying integrand g(x)(1 + i q h(x)) on a (half-)infinite interval with real limits: the complex result
    equals the tan-substituted rule applied to real and imaginary part (reference: complex128 sum over numpy's rule), and the
    closed forms where they exist (gauss: Re = sqrt(pi/a)(1+p/2a), Im = 0 on the whole line, q(1/(2a) + p/(2a^2)) from 0)."""
    n, fam, a, p, q = case["n"], case["fam"], case["a"], case["p"], case["q"]
    prec = case.get("prec", "f64")
    odt = CDT[prec]
    eps = torch.finfo(DT[prec]).eps
    xlv, xuv = _endval(case["xl"]), _endval(case["xu"])
    labels = labels + ["fam=" + fam, "integrand=complex", "prec=" + prec, "ldt=%s" % (case.get("ldt") or "same")]
    if not isinstance(res, torch.Tensor) or res.dtype != odt or res.numel() != 1:
        return violation("dtype", "complex integrand (%s) on [%r,%r]: quad returned dtype %s shape %s" % (
            odt, xlv, xuv, getattr(res, "dtype", type(res)), tuple(getattr(res, "shape", ()))), labels)
    got = complex(res.reshape(-1)[0])
    tol = K_CPLX * K_RULE * eps * scale
    if not abs(got - ref) <= tol:
        return violation("inf_rule", "complex fam=%s q=%r [%r,%r] n=%d %s: quad=%r, tan-substituted rule=%r (tol %.2e)" % (
            fam, q, xlv, xuv, n, prec, got, ref, tol), labels)
    closed = None
    if n >= 100 and a >= 0.5 and fam == "gauss":
        full = (xlv == -INF and xuv == INF)
        half = (xlv == 0 and xuv == INF)
        if full or half:
            re_ = math.sqrt(math.pi / a) * (1 + p / (2 * a)) * (1 if full else 0.5)
            im_ = 0.0 if full else q * (1 / (2 * a) + p / (2 * a * a))
            closed = complex(re_, im_)
    if closed is not None and abs(got - closed) > 2e-5 * abs(closed) + tol:
        return violation("inf_closed_form", "complex fam=%s n=%d: quad=%r closed form=%r" % (fam, n, got, closed), labels)
    labels.append("closed" if closed is not None else "noclosed")
    return ok(labels, True)


# ------------------------------------------------------------------ re-entrancy: quad inside the integrand of quad; call sequences

def fam2(fam, a, b, r, p):
    """decaying two-variable integrands, |F| <= 1 + p*y^2*exp(..) bounded; evaluated in the dtype of y"""
    def F(x, y):
        if fam == "gauss2":
            return torch.exp(-(a * x * x - 2 * r * math.sqrt(a * b) * x * y + b * y * y)) * (1 + p * y * y)
        if fam == "lorentz2":
            return 1.0 / (1 + a * x * x + b * y * y) ** (2 + p)
        if fam == "sepexp":     # the inner integral is a normalisation constant: it does not depend on x
            return torch.exp(-b * torch.abs(y)) * (1 + p * torch.abs(y)) + 0 * x
        raise ValueError(fam)
    return F


def kind_of(xlv, xuv):
    a, b = math.isinf(xlv), math.isinf(xuv)
    return "finite" if not (a or b) else "doubly" if (a and b) else "half"


def run_nested(case, labels):
    """int dx g(x) int dy F(x, y): the inner quad is called by the integrand of the outer one (iterated integral /
    normalisation constant computed inside the integrand). Reference: the double sum over the two independent rules."""
    from xitorch.integrate import quad
    f64 = torch.float64
    o, i = case["outer"], case["inner"]
    F = fam2(case["fam"], case["a"], case["b"], case["r"], case["p"])
    idt = DT[i.get("dtype", "f64")]
    oxl, oxu = _endval(o["xl"]), _endval(o["xu"])
    ixl, ixu = _endval(i["xl"]), _endval(i["xu"])
    lim = i.get("lim", "fixed")      # fixed | from_x (lower limit = x) | to_x (upper limit = x)
    ga = case["a"] if case["fam"] == "sepexp" else 0.0
    ncalls = [0]

    def outer_f(x):
        x = torch.as_tensor(x).to(f64)
        xi = x.to(idt)

        def inner_f(y, *xp):
            ncalls[0] += 1
            xx = xp[0] if xp else xi
            return F(xx, torch.as_tensor(y).to(idt))
        il = x if lim == "from_x" else _mk_end(ixl, i["form"], i.get("ldt"))
        iu = x if lim == "to_x" else _mk_end(ixu, i["form"], i.get("ldt"))
        inner = quad(inner_f, il, iu, params=((xi,) if i.get("pass") == "params" else ()), n=i["n"])
        return torch.exp(-ga * torch.abs(x)) * inner.to(f64).reshape(x.shape)

    res = quad(outer_f, _mk_end(oxl, o["form"], o.get("ldt")), _mk_end(oxu, o["form"], o.get("ldt")), n=o["n"])
    if res.dtype != f64 or res.numel() != 1:
        return violation("nested_type", "nested quad returned dtype %s shape %s" % (res.dtype, tuple(res.shape)), labels)
    if ncalls[0] != (o["n"] + 1) * (i["n"] + 1):
        return violation("nested_neval", "inner integrand evaluated %d times, expected (n_o+1)(n_i+1)=%d" % (ncalls[0], (o["n"] + 1) * (i["n"] + 1)), labels)
    # reference
    xs, wo = ref_rule(o["n"], oxl, oxu)
    tot = 0.0
    scale = 0.0
    for x, w in zip(xs, wo):
        xq = float(x.to(idt))     # the integrand hands x to the inner integrand in the inner dtype
        ys, wi = ref_rule(i["n"], float(xq) if lim == "from_x" else ixl, float(xq) if lim == "to_x" else ixu)
        terms = wi * F(torch.tensor(xq, dtype=f64), ys) * float(w) * math.exp(-ga * abs(float(x)))
        tot += float(terms.sum())
        scale += float(terms.abs().sum())
    got = float(res.reshape(-1)[0])
    # float64 rounding of both rules; a float32 inner integral carries 1e3*eps32 of its own summed terms
    tol = K_RULE * 2.2e-16 * (scale + 1e-300) + (K_RULE * 1.2e-7 * scale if idt == torch.float32 else 0.0)
    labels = labels + ["outer=" + kind_of(oxl, oxu), "inner=" + kind_of(ixl, ixu) + ("" if lim == "fixed" else "_" + lim),
                       "inner_dtype=" + i.get("dtype", "f64"), "same_n=%s" % (o["n"] == i["n"]), "fam=" + case["fam"],
                       "pass=" + i.get("pass", "closure")]
    if not abs(got - tot) <= tol:
        return violation("nested_rule", "fam=%s outer [%r,%r] n=%d, inner [%r,%r] (%s) n=%d %s: quad=%r, double sum over the two rules=%r (tol %.2e)" % (
            case["fam"], oxl, oxu, o["n"], ixl, ixu, lim, i["n"], i.get("dtype", "f64"), got, tot, tol), labels)
    return ok(labels, scale > 0 and oxl != oxu)


def run_seq(case, labels):
    """calls on different intervals one after the other, the first one once more at the end: every call equals its own
    reference (nothing of a call survives into the next)"""
    subs = case["subs"]
    order = list(range(len(subs))) + [0]
    for k in order:
        res, ref, scale = one_call(subs[k])
        got = float(res.reshape(-1)[0])
        if not abs(got - ref) <= K_RULE * 2.2e-16 * scale:
            return violation("seq_rule", "call #%d of the sequence %r: quad=%r, rule=%r" % (k, [(s_["xl"], s_["xu"], s_["n"]) for s_ in subs], got, ref), labels)
    labels = labels + ["seq=" + "+".join(sorted(set(kind_of(_endval(s_["xl"]), _endval(s_["xu"])) for s_ in subs)))]
    return ok(labels, True)


# ------------------------------------------------------------------ strategies

_rat = st.tuples(st.integers(-9, 9), st.sampled_from([1, 1, 2, 3, 4, 7]))
_forms = st.sampled_from(["int", "float", "t0", "t1"])


def _limit(draw, form, deg):
    # magnitudes bounded by the degree so that sum |c_k| M^k stays far from overflow in float32
    if form == "int":
        m = 30 if deg <= 6 else 5 if deg <= 15 else 2
        return draw(st.integers(-m, m))
    mag = draw(st.sampled_from([1e-3, 0.1, 1.0, 1.0, 10.0, 100.0] if deg <= 6 else [1e-3, 0.1, 1.0, 1.0, 5.0] if deg <= 15 else [1e-3, 0.1, 1.0, 2.0]))
    return draw(st.floats(-1, 1, allow_nan=False, allow_subnormal=False, width=32)) * mag


_f32 = st.floats(-2, 2, allow_nan=False, allow_subnormal=False, width=32)
_tforms = st.sampled_from(["float", "t0", "t1"])


@st.composite
def _ends(draw, infinite=True):
    """limits of a decaying-integrand call: doubly / half infinite in both orientations, or (infinite=False allowed) finite"""
    opts = [("ninf", "pinf"), (0.0, "pinf"), ("ninf", 0.0), ("pinf", "ninf"), (draw(_f32), "pinf"), ("ninf", draw(_f32)),
            ("pinf", draw(_f32))]
    if not infinite:
        opts += [(draw(_f32), draw(_f32)), (draw(_f32), draw(_f32)), (-1.0, 1.0)]
    return draw(st.sampled_from(opts))


@st.composite
def _sub_st(draw, infinite=True, nmax=40):
    ends = draw(_ends(infinite))
    return {"n": draw(st.integers(2, nmax)), "fam": draw(st.sampled_from(["gauss", "lorentz", "exp"])),
            "a": draw(st.sampled_from([0.5, 1.0, 2.0, 0.3])), "p": draw(st.sampled_from([0, 0, 1, 2])),
            "xl": ends[0], "xu": ends[1], "xlform": draw(_tforms), "xuform": draw(_tforms),
            "ldt": draw(st.sampled_from([None, None, "f32"]))}


@st.composite
def reentrant_st(draw, tier="quick"):
    """quad called by the integrand of quad (inner finite / half- / doubly-infinite x outer the same; other n, dtype, limit
    forms; inner limits fixed or running with x) and sequences of calls on different intervals"""
    if draw(st.integers(0, 4)) == 0:
        subs = [draw(_sub_st(infinite=False, nmax=24)) for _ in range(draw(st.integers(2, 4)))]
        return {"rel": "seq", "n": subs[0]["n"], "dtype": "f64", "subs": subs}
    nmax = 16 if tier == "quick" else 24
    no = draw(st.integers(2, nmax))
    ni = draw(st.one_of(st.just(no), st.integers(2, nmax)))
    oe = draw(_ends(infinite=False))
    ie = draw(_ends(infinite=False))
    lim = draw(st.sampled_from(["fixed", "fixed", "fixed", "from_x", "to_x"]))
    outer = {"n": no, "xl": oe[0], "xu": oe[1], "form": draw(_tforms), "ldt": draw(st.sampled_from([None, None, "f32"]))}
    inner = {"n": ni, "xl": ie[0], "xu": ie[1], "form": draw(_tforms), "ldt": draw(st.sampled_from([None, None, "f32"])),
             "lim": lim, "dtype": draw(st.sampled_from(["f64", "f64", "f64", "f32"])), "pass": draw(st.sampled_from(["closure", "params"]))}
    return {"rel": "nested", "n": no, "dtype": "f64", "fam": draw(st.sampled_from(["gauss2", "gauss2", "lorentz2", "sepexp"])),
            "a": draw(st.sampled_from([0.5, 1.0, 2.0, 0.3])), "b": draw(st.sampled_from([0.5, 1.0, 2.0, 0.3])),
            "r": draw(st.sampled_from([0.0, 0.3, -0.5, 0.8])), "p": draw(st.sampled_from([0, 0, 1])), "outer": outer, "inner": inner}


@st.composite
def case_st(draw, tier="quick"):
    nmax = 60 if tier == "quick" else 300
    rel = draw(st.sampled_from(["exact", "exact", "exact", "nodes", "errterm", "linear", "swap", "additive", "tuple", "tensor", "inf", "stored"]))
    if rel == "inf":
        n = draw(st.one_of(st.integers(2, 40), st.sampled_from([100, 150, 200])))
        sub = draw(_sub_st(infinite=True))
        sub.update({"rel": rel, "n": n, "dtype": "f64"})
        if draw(st.integers(0, 2)) == 0:
            # complex-valued decaying integrand (complex128, or complex64 with float32 limits when they are tensors)
            sub["q"] = draw(st.sampled_from([2.0, 1.0, -0.5, 0.0]))
            sub["prec"] = draw(st.sampled_from(["f64", "f64", "f32"]))
            if sub["prec"] == "f32":
                sub["n"] = min(n, 40)
        return sub
    dtype = draw(st.sampled_from(["f64", "f64", "f32"]))
    if rel == "errterm":
        n = draw(st.integers(1, 10 if dtype == "f64" else 4))
        deg = 2 * n
    else:
        n = draw(st.one_of(st.integers(1, 8), st.integers(1, nmax)))
        degmax = min(2 * n - 1, 40)
        deg = draw(st.one_of(st.just(degmax), st.integers(0, degmax)))
    coefs = [list(draw(_rat)) for _ in range(deg + 1)]
    if coefs[-1][0] == 0:
        coefs[-1][0] = 1
    xlform, xuform = draw(_forms), draw(_forms)
    xl, xu = _limit(draw, xlform, deg), _limit(draw, xuform, deg)
    if rel == "errterm":
        # keep the interval of moderate size so that the error term is above rounding
        xl = draw(st.floats(-2, 0, width=32)); xlform = draw(st.sampled_from(["float", "t0", "t1"]))
        xu = xl + draw(st.sampled_from([0.5, 1.0, 2.0, 3.0])); xuform = draw(st.sampled_from(["float", "t0", "t1"]))
    case = {"rel": rel, "n": n, "dtype": dtype, "coefs": coefs, "xl": xl, "xu": xu, "xlform": xlform, "xuform": xuform}
    # dtype of a tensor limit / of the parameter tensor when it is not the integrand's: float32 limit tensors (what
    # torch.tensor(0.3) gives) with a float64 integrand, the reverse, integer-valued int64 tensors
    for nm, form in (("xl", xlform), ("xu", xuform)):
        if form in ("t0", "t1") and rel != "errterm":
            ldt = draw(st.sampled_from([None, None, "f32", "f64", "i64"]))
            if ldt == "i64":
                case[nm] = _limit(draw, "int", deg)
            if ldt:
                case[nm + "dt"] = ldt
    # complex-valued integrand (complex64 / complex128 output, complex rational coefficients, real limits in every form above)
    cplx = rel in ("exact", "nodes", "linear", "swap", "additive", "tuple", "tensor") and draw(st.integers(0, 3)) == 0
    if cplx:
        case["cplx"] = True
        case["coefs_im"] = [list(draw(_rat)) for _ in range(deg + 1)]
    if not cplx and rel in ("exact", "nodes", "swap", "additive") and dtype == "f64" and draw(st.integers(0, 3)) == 0:
        case["pdt"] = "f32"
    if rel == "stored":
        case["stored"] = draw(st.sampled_from(["param", "view", "reshape", "index"]))
    if rel in ("linear", "tuple", "tensor"):
        d2 = draw(st.integers(0, min(2 * n - 1, 12)))
        case["coefs2"] = [list(draw(_rat)) for _ in range(d2 + 1)]
        case["alpha"] = draw(st.sampled_from([1.0, -2.0, 0.5, 3.0]))
        case["beta"] = draw(st.sampled_from([1.0, -1.0, 0.25, 0.0]))
        case["shape"] = draw(st.sampled_from([[], [1], [2], [2, 3]]))
        if cplx:
            case["coefs2_im"] = [list(draw(_rat)) for _ in range(d2 + 1)]
            case["alpha_c"] = draw(st.sampled_from([[0.0, 1.0], [0.0, 1.0], [1.0, 0.0], [0.5, -2.0], [0.0, -0.5]]))
            case["beta_c"] = draw(st.sampled_from([[1.0, 0.0], [0.0, 0.0], [0.0, 1.0], [-1.0, 0.25]]))
    if rel == "additive":
        case["xm"] = _limit(draw, "float", deg)
    return case


def tasks(tier):
    return [Task("quad", strategy=case_st(tier), run=run_case, examples={"quick": 2400, "thorough": 40000}),
            Task("reentrant", strategy=reentrant_st(tier), run=run_case, examples={"quick": 400, "thorough": 6000})]
