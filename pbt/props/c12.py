"""C12 — quad applies an exact n-point Gauss-Legendre rule on the requested interval.

Oracle: exact rational antiderivative (fractions.Fraction) for polynomials of degree <= 2n-1; the closed-form
error term of the n-point rule for x^(2n) (so a silently different n is visible); extracted abscissae vs numpy's
Gauss-Legendre nodes; an independent f64 Gauss-Legendre sum of f(tan t) sec^2 t for infinite limits.
"""
from __future__ import annotations

import math
from fractions import Fraction

import numpy as np
import torch
from hypothesis import strategies as st

from pbt.harness import Task, ok, violation, discard

PID = "C12"
RULE = ("cases drawn from: n in 1..60 (thorough 300) x polynomial of degree <= 2n-1 with small rational coefficients "
        "(or the monomial x^(2n) for the error-term test) x interval (any orientation, |x| from 1e-3 to 1e2) x limit form "
        "(int/float/0-d tensor/1-element tensor) x dtype x output kind (scalar/tensor/tuple) x relation "
        "(exactness, linearity, swap, additivity, nodes, infinite limits). Non-trivial = n>=2, degree>=2 (or infinite limits) and xl != xu; "
        "distinct by canonical case.")
ASSUMPTIONS = [
    "rounding model: |error| <= (20(deg+2)+4n) eps sum_k|c_k| M^k |xu-xl| for Horner evaluation in the case dtype",
    "numpy.polynomial.legendre.leggauss is the reference for nodes (independent of xitorch's mapping code)",
    "infinite limits: reference is an independent float64 n-point rule on f(tan t)/cos^2 t",
]
LEVEL_TEXT = ("Exploration with a complete characterisation as oracle: an n-node rule exact to degree 2n-1 is the Gauss-Legendre rule, "
              "checked against exact rational arithmetic plus the closed-form error for degree 2n and direct node extraction.")
LEVEL_NOTE = "trusts fractions.Fraction arithmetic, numpy leggauss nodes, stated rounding model; n<=300, |x|<=1e2"
TECHNIQUE = "Hypothesis property-based testing: exact-arithmetic oracle + metamorphic relations + rule extraction"

DT = {"f32": torch.float32, "f64": torch.float64}


def poly_eval(x, coefs, dtype=None):
    # Horner; coefs[k] multiplies x^k. Numbers (the probe call passes xl as given) are taken in the case dtype
    if not isinstance(x, torch.Tensor):
        x = torch.as_tensor(x, dtype=dtype)
    y = torch.zeros_like(x) + coefs[-1]
    for c in reversed(coefs[:-1]):
        y = y * x + c
    return y


def exact_integral(coefs_frac, a: Fraction, b: Fraction) -> Fraction:
    s = Fraction(0)
    for k, c in enumerate(coefs_frac):
        s += c * (b ** (k + 1) - a ** (k + 1)) / (k + 1)
    return s


def mk_limit(val: float, form: str, dtype):
    if form == "int":
        return int(val)
    if form == "float":
        return float(val)
    if form == "t0":
        return torch.tensor(val, dtype=dtype)
    if form == "t1":
        return torch.tensor([val], dtype=dtype)
    raise ValueError(form)


def limit_value(val, form, dtype) -> float:
    """the float the code will actually integrate to (after conversion to the case dtype)"""
    if form == "int":
        val = int(val)
    return float(torch.as_tensor(val, dtype=dtype))


def S_bound(coefs, M):
    return sum(abs(c) * M ** k for k, c in enumerate(coefs))


def run_case(case):
    from xitorch.integrate import quad
    torch.manual_seed(0)
    n = case["n"]
    dtype = DT[case["dtype"]]
    eps = torch.finfo(dtype).eps
    tiny = torch.finfo(dtype).tiny      # underflow floor: outside the relative rounding model
    rel = case["rel"]
    labels = ["rel=" + rel, "dtype=" + case["dtype"], "n=" + ("1" if n == 1 else "2-9" if n < 10 else "10-99" if n < 100 else "100+")]

    if rel == "inf":
        return run_inf(case, labels)

    coefs_f = [Fraction(p, q) for p, q in case["coefs"]]
    coefs = [float(c) for c in coefs_f]
    # coefficients as they are seen in the case dtype
    coefs_t = [float(torch.tensor(c, dtype=dtype)) for c in coefs]
    coefs_fr = [Fraction(c) for c in coefs_t]
    deg = len(coefs) - 1
    xlv = limit_value(case["xl"], case["xlform"], dtype)
    xuv = limit_value(case["xu"], case["xuform"], dtype)
    xl = mk_limit(case["xl"], case["xlform"], dtype)
    xu = mk_limit(case["xu"], case["xuform"], dtype)
    a, b = Fraction(xlv), Fraction(xuv)
    M = max(abs(xlv), abs(xuv))
    width = abs(xuv - xlv)

    calls = []
    ctens = torch.tensor(coefs_t, dtype=dtype)

    def f(x, c):
        x = torch.as_tensor(x, dtype=dtype)     # the probe call passes xl as the caller gave it (maybe a number)
        calls.append(x.detach().clone())
        return poly_eval(x, list(c), dtype)

    def tol_for(cfs, d=None):
        d = len(cfs) - 1 if d is None else d
        return (20 * (d + 2) + 4 * n) * eps * S_bound(cfs, M) * width + 1e3 * tiny * (1 + S_bound(cfs, M))

    nontrivial = n >= 2 and deg >= 2 and xlv != xuv
    Mall = max(M, abs(float(case.get("xm", 0.0))))
    if S_bound(coefs_t, Mall) * (1 + Mall) > 1e-4 * torch.finfo(dtype).max:
        return discard("overflow_range", labels)

    if rel == "stored":
        # a degree-0 integrand that hands back a tensor it holds (the parameter itself, a view of it, a stored level):
        # the rule must integrate it to c*(xu-xl) for every n and must leave the caller's tensor untouched
        k = 1 + (len(coefs_t) % 3)
        cst = torch.tensor((coefs_t * 3)[:k], dtype=dtype)
        before = cst.clone()
        how = case.get("stored", "param")

        def fs(x, c):
            calls.append(1)
            return {"param": c, "view": c[:], "reshape": c.reshape(-1), "index": c[0] if False else c[0:k]}[how]
        res = quad(fs, xl, xu, params=(cst,), n=n)
        if not torch.equal(cst, before):
            return violation("input_mutated", "the integrand's own tensor %r was changed to %r by quad (n=%d)" % (before.tolist(), cst.tolist(), n), labels)
        ref = before.double() * (xuv - xlv)
        err = float((res.reshape(-1).double() - ref).abs().max())
        tl = (20 + 4 * n) * eps * float(before.abs().max()) * width + 1e3 * tiny
        if tuple(res.reshape(-1).shape) != (k,) or not err <= tl:
            return violation("stored_const", "constant integrand %r on [%r,%r] with n=%d: quad=%r, expected %r" % (
                before.tolist(), xlv, xuv, n, res.reshape(-1).tolist(), ref.tolist()), labels)
        return ok(labels + ["stored=" + how], n >= 2 and xlv != xuv)

    if rel in ("exact", "nodes"):
        res = quad(f, xl, xu, params=(ctens,), n=n)
        if not isinstance(res, torch.Tensor):
            return violation("type", "quad returned %r" % type(res))
        if res.numel() != 1:
            return violation("shape", "result of a scalar integrand has shape %s" % (tuple(res.shape),))
        if res.dtype != dtype:
            return violation("dtype", "result dtype %s, expected %s" % (res.dtype, dtype))
        ref = float(exact_integral(coefs_fr, a, b))
        err = abs(float(res.reshape(-1)[0]) - ref)
        if not err <= tol_for(coefs_t):
            return violation("not_exact", "n=%d deg=%d [%r,%r]: quad=%r exact=%r err=%.3e tol=%.3e" % (
                n, deg, xlv, xuv, float(res.reshape(-1)[0]), ref, err, tol_for(coefs_t)))
        # evaluation points: n (+ one probe at xl) and they are the mapped Gauss-Legendre nodes
        xs = sorted(float(c.reshape(-1)[0]) for c in calls[1:])
        if len(calls) != n + 1:
            return violation("neval", "integrand evaluated %d times, expected n+1=%d" % (len(calls), n + 1))
        nodes, _ = np.polynomial.legendre.leggauss(n)
        refx = sorted(0.5 * (xuv - xlv) * nodes + 0.5 * (xuv + xlv))
        lo, hi = min(xlv, xuv), max(xlv, xuv)
        for x, rx in zip(xs, refx):
            if abs(x - rx) > 8 * eps * max(M, 1e-300) or x < lo - 8 * eps * M or x > hi + 8 * eps * M:
                return violation("nodes", "abscissa %r differs from Gauss-Legendre node %r on [%r,%r]" % (x, rx, xlv, xuv))
        return ok(labels, nontrivial)

    if rel == "errterm":
        # x^(2n): the rule must be off by exactly the Gauss-Legendre error term
        mono = [0.0] * (2 * n) + [1.0]
        res = quad(lambda x: torch.as_tensor(x, dtype=dtype) ** (2 * n), xl, xu, n=n)
        ref = exact_integral([Fraction(0)] * (2 * n) + [Fraction(1)], a, b)
        E = (b - a) ** (2 * n + 1) * Fraction(math.factorial(n) ** 4, (2 * n + 1) * math.factorial(2 * n) ** 2)
        got = float(res.reshape(-1)[0]) - float(ref)
        tol = tol_for(mono)
        if abs(float(E)) < 50 * tol:
            return discard("errterm_below_rounding", labels)
        if abs(got + float(E)) > tol + 1e-6 * abs(float(E)):
            return violation("errterm", "n=%d on [%r,%r]: quad-exact=%.6e but the n-point Gauss-Legendre error term is %.6e" % (
                n, xlv, xuv, got, -float(E)))
        return ok(labels, n >= 2 and xlv != xuv)

    if rel == "linear":
        c2_f = [Fraction(p, q) for p, q in case["coefs2"]]
        c2 = [float(torch.tensor(float(c), dtype=dtype)) for c in c2_f]
        al, be = case["alpha"], case["beta"]
        L = max(len(coefs_t), len(c2))
        p1 = coefs_t + [0.0] * (L - len(coefs_t))
        p2 = c2 + [0.0] * (L - len(c2))
        r1 = quad(lambda x: poly_eval(x, p1, dtype), xl, xu, n=n)
        r2 = quad(lambda x: poly_eval(x, p2, dtype), xl, xu, n=n)
        r12 = quad(lambda x: al * poly_eval(x, p1, dtype) + be * poly_eval(x, p2, dtype), xl, xu, n=n)
        tol = (abs(al) + 1) * tol_for(p1) + (abs(be) + 1) * tol_for(p2)
        err = abs(float(r12.reshape(-1)[0]) - (al * float(r1.reshape(-1)[0]) + be * float(r2.reshape(-1)[0])))
        if not err <= 2 * tol:
            return violation("linearity", "err=%.3e tol=%.3e" % (err, 2 * tol))
        return ok(labels, nontrivial)

    if rel == "swap":
        r1 = quad(f, xl, xu, params=(ctens,), n=n)
        r2 = quad(f, xu, xl, params=(ctens,), n=n)
        err = abs(float(r1.reshape(-1)[0]) + float(r2.reshape(-1)[0]))
        if not err <= 2 * tol_for(coefs_t):
            return violation("swap", "int_a^b + int_b^a = %.3e (tol %.3e)" % (err, 2 * tol_for(coefs_t)))
        return ok(labels, nontrivial)

    if rel == "additive":
        xmv = limit_value(case["xm"], "float", dtype)
        xm = mk_limit(case["xm"], case["xlform"] if case["xlform"] != "int" else "float", dtype)
        M2 = max(M, abs(xmv))
        w2 = abs(xmv - xlv) + abs(xuv - xmv)
        tol = (20 * (deg + 2) + 4 * n) * eps * S_bound(coefs_t, M2) * (w2 + width) + 1e3 * tiny * (1 + S_bound(coefs_t, M2))
        r = quad(f, xl, xu, params=(ctens,), n=n)
        r1 = quad(f, xl, xm, params=(ctens,), n=n)
        r2 = quad(f, xm, xu, params=(ctens,), n=n)
        err = abs(float(r.reshape(-1)[0]) - float(r1.reshape(-1)[0]) - float(r2.reshape(-1)[0]))
        if not err <= tol:
            return violation("additivity", "err=%.3e tol=%.3e" % (err, tol))
        return ok(labels, nontrivial)

    if rel in ("tuple", "tensor"):
        c2_f = [Fraction(p, q) for p, q in case["coefs2"]]
        c2 = [float(torch.tensor(float(c), dtype=dtype)) for c in c2_f]
        ref1 = float(exact_integral(coefs_fr, a, b))
        ref2 = float(exact_integral([Fraction(c) for c in c2], a, b))
        if rel == "tuple":
            shp = tuple(case["shape"])

            def ft(x):
                y1 = poly_eval(x, coefs_t, dtype)
                y2 = poly_eval(x, c2, dtype)
                return y1.reshape(-1)[0] * torch.ones(shp, dtype=dtype), y2, (y1 - y2).reshape(-1)[0] * torch.ones((2,), dtype=dtype)
            res = quad(ft, xl, xu, n=n)
            if not isinstance(res, (tuple, list)) or len(res) != 3:
                return violation("tuple_out", "expected a 3-tuple, got %r" % (type(res),))
            if tuple(res[0].shape) != shp or tuple(res[2].shape) != (2,):
                return violation("tuple_shape", "component shapes %s" % [tuple(r.shape) for r in res])
            vals = [(res[0], ref1, tol_for(coefs_t)), (res[1], ref2, tol_for(c2)),
                    (res[2], ref1 - ref2, tol_for(coefs_t) + tol_for(c2))]
        else:
            def fT(x):
                return torch.stack([poly_eval(x, coefs_t, dtype).reshape(-1)[0], poly_eval(x, c2, dtype).reshape(-1)[0]]).reshape(2, 1)
            res = quad(fT, xl, xu, n=n)
            if tuple(res.shape) != (2, 1):
                return violation("tensor_shape", "shape %s" % (tuple(res.shape),))
            vals = [(res[0], ref1, tol_for(coefs_t)), (res[1], ref2, tol_for(c2))]
        for r, ref, tol in vals:
            if not bool(((r.reshape(-1) - ref).abs() <= tol).all()):
                return violation("component", "component value %r, exact %r, tol %.3e" % (r.reshape(-1).tolist(), ref, tol))
        return ok(labels, nontrivial)

    raise ValueError(rel)


def run_inf(case, labels):
    from xitorch.integrate import quad
    n = case["n"]
    dtype = torch.float64
    fam, a, p = case["fam"], case["a"], case["p"]
    inf = float("inf")
    lim = {"ninf": -inf, "pinf": inf}
    xlv = lim.get(case["xl"], case["xl"])
    xuv = lim.get(case["xu"], case["xu"])
    form = case["xlform"]

    def mk(v):
        if form == "float":
            return float(v)
        return torch.tensor(v, dtype=dtype) if form == "t0" else torch.tensor([v], dtype=dtype)

    def f(x):
        x = torch.as_tensor(x, dtype=dtype)
        if fam == "gauss":
            return torch.exp(-a * x * x) * (1 + p * x * x)
        if fam == "lorentz":
            return 1.0 / (1 + a * x * x) ** (1 + p)
        if fam == "exp":
            return torch.exp(-a * torch.abs(x)) * (1 + p * torch.abs(x))
        raise ValueError(fam)

    res = quad(f, mk(xlv), mk(xuv), n=n)
    tl, tu = math.atan(xlv), math.atan(xuv)
    nodes, w = np.polynomial.legendre.leggauss(n)
    t = torch.tensor(0.5 * (tu - tl) * nodes + 0.5 * (tu + tl), dtype=dtype)
    wt = torch.tensor(w * 0.5 * (tu - tl), dtype=dtype)
    ref = float((wt * f(torch.tan(t)) / torch.cos(t) ** 2).sum())
    scale = float((wt.abs() * (f(torch.tan(t)) / torch.cos(t) ** 2).abs()).sum()) + 1e-300
    got = float(res.reshape(-1)[0])
    if not abs(got - ref) <= 1e3 * 2.2e-16 * scale:
        return violation("inf_rule", "fam=%s [%r,%r] n=%d: quad=%r, tan-substituted rule=%r" % (fam, xlv, xuv, n, got, ref))
    # closed forms where available (n >= 100, doubly infinite or half infinite from 0)
    closed = None
    if n >= 100 and a >= 0.5:
        full = (xlv == -inf and xuv == inf)
        half = (xlv == 0 and xuv == inf) or (xlv == -inf and xuv == 0)
        if fam == "gauss" and (full or half):
            closed = math.sqrt(math.pi / a) * (1 + p / (2 * a)) * (1 if full else 0.5)
        elif fam == "lorentz" and p == 0 and (full or half):
            closed = math.pi / math.sqrt(a) * (1 if full else 0.5)
    if closed is not None and abs(got - closed) > 2e-5 * abs(closed):
        return violation("inf_closed_form", "fam=%s n=%d: quad=%r closed form=%r" % (fam, n, got, closed))
    labels = labels + ["fam=" + fam, "closed" if closed is not None else "noclosed"]
    return ok(labels, True)


# ------------------------------------------------------------------ strategies

_rat = st.tuples(st.integers(-9, 9), st.sampled_from([1, 1, 2, 3, 4, 7]))
_forms = st.sampled_from(["int", "float", "t0", "t1"])


def _limit(draw, form, deg):
    # magnitudes bounded by the degree so that sum |c_k| M^k stays far from overflow in float32
    if form == "int":
        m = 30 if deg <= 6 else 5 if deg <= 15 else 2
        return draw(st.integers(-m, m))
    mag = draw(st.sampled_from([1e-3, 0.1, 1.0, 1.0, 10.0, 100.0] if deg <= 6 else [1e-3, 0.1, 1.0, 1.0, 5.0] if deg <= 15 else [1e-3, 0.1, 1.0, 2.0]))
    return draw(st.floats(-1, 1, allow_nan=False, allow_subnormal=False, width=32)) * mag


@st.composite
def case_st(draw, tier="quick"):
    nmax = 60 if tier == "quick" else 300
    rel = draw(st.sampled_from(["exact", "exact", "exact", "nodes", "errterm", "linear", "swap", "additive", "tuple", "tensor", "inf", "stored"]))
    if rel == "inf":
        n = draw(st.one_of(st.integers(2, 40), st.sampled_from([100, 150, 200])))
        fam = draw(st.sampled_from(["gauss", "lorentz", "exp"]))
        ends = draw(st.sampled_from([("ninf", "pinf"), (0.0, "pinf"), ("ninf", 0.0), ("pinf", "ninf"),
                                     (draw(st.floats(-2, 2, width=32)), "pinf"), ("ninf", draw(st.floats(-2, 2, width=32)))]))
        return {"rel": rel, "n": n, "dtype": "f64", "fam": fam, "a": draw(st.sampled_from([0.5, 1.0, 2.0, 0.3])),
                "p": draw(st.sampled_from([0, 0, 1, 2])), "xl": ends[0], "xu": ends[1],
                "xlform": draw(st.sampled_from(["float", "t0", "t1"]))}
    dtype = draw(st.sampled_from(["f64", "f64", "f32"]))
    if rel == "errterm":
        n = draw(st.integers(1, 10 if dtype == "f64" else 4))
        deg = 2 * n
    else:
        n = draw(st.one_of(st.integers(1, 8), st.integers(1, nmax)))
        degmax = min(2 * n - 1, 40)
        deg = draw(st.one_of(st.just(degmax), st.integers(0, degmax)))
    coefs = [list(draw(_rat)) for _ in range(deg + 1)]
    if coefs[-1][0] == 0:
        coefs[-1][0] = 1
    xlform, xuform = draw(_forms), draw(_forms)
    xl, xu = _limit(draw, xlform, deg), _limit(draw, xuform, deg)
    if rel == "errterm":
        # keep the interval of moderate size so that the error term is above rounding
        xl = draw(st.floats(-2, 0, width=32)); xlform = draw(st.sampled_from(["float", "t0", "t1"]))
        xu = xl + draw(st.sampled_from([0.5, 1.0, 2.0, 3.0])); xuform = draw(st.sampled_from(["float", "t0", "t1"]))
    case = {"rel": rel, "n": n, "dtype": dtype, "coefs": coefs, "xl": xl, "xu": xu, "xlform": xlform, "xuform": xuform}
    if rel == "stored":
        case["stored"] = draw(st.sampled_from(["param", "view", "reshape", "index"]))
    if rel in ("linear", "tuple", "tensor"):
        d2 = draw(st.integers(0, min(2 * n - 1, 12)))
        case["coefs2"] = [list(draw(_rat)) for _ in range(d2 + 1)]
        case["alpha"] = draw(st.sampled_from([1.0, -2.0, 0.5, 3.0]))
        case["beta"] = draw(st.sampled_from([1.0, -1.0, 0.25, 0.0]))
        case["shape"] = draw(st.sampled_from([[], [1], [2], [2, 3]]))
    if rel == "additive":
        case["xm"] = _limit(draw, "float", deg)
    return case


def tasks(tier):
    return [Task("quad", strategy=case_st(tier), run=run_case, examples={"quick": 2400, "thorough": 40000})]
