"""C08 — solve_ivp gradients w.r.t. y0, parameters and times are the true sensitivities.

Reference: autograd (first and second order) through closed-form solutions that are plain torch expressions of the
leaves, the initial state and *every* time point including ts[0] (pbt/ref_c07.py: polynomial chains, matrix_exp,
rotation, y'=-(at+b)y, y'=-ay^2, logistic).

Tasks
  exact_chain   fixed-step forward (euler/rk4/rk38) and fixed-step backward on polynomial chains
                u' = Q0(s), v' = C u + Q1(s) [, w' = D v + Q2(s)].  Every 4th-order Runge-Kutta method integrates the
                forward system, the adjoint system and the parameter / time quadratures of these systems exactly (all
                elementary differentials of order >= 5 vanish; the adjoint of a chain is a chain), so forward values,
                first- and second-order gradients agree with the closed form to rounding: no discretisation error can
                mask or mimic a wrong term.  Euler: constant right-hand side.
  adaptive      rk45 / rk23 forward and backward (same or different backward options) on the closed-form families and on
                chains; tolerance proportional to the requested forward and backward tolerances.
  switched      rk45 on a right-hand side with Python control flow on t (a parameter and the explicit time dependence are
                active on one side of a switching time only): which tensors enter the dynamics changes along the trajectory.
  shared_options histories of 2-3 solve_ivp calls (unrelated problems of the kinds above) that are given ONE caller-held forward-options
                dict and ONE caller-held bck_options dict (or none): the caller changes method / tolerances in the forward dict
                between the calls (and, in 'edited' histories, the content of bck_options); backward passes right after each call
                or all at the end in a drawn order.  Each call is judged against its own closed form with the backward options
                documented for THAT call (its forward options overridden by what bck_options held when it was made), and the
                caller's dicts must still hold what the caller put there.
  dissipative   rk45 at 1e-10/1e-9 on contracting dynamics (y'=-ky, y'=-k(y-c), logistic) over 32..48 e-folding times with 9..13 output
                times (L*dt <= 6 per segment), ts mostly NOT requiring grad: the adjoint integrands must be evaluated on the trajectory
                stored by the forward pass at each requested time (y is expanding backwards by exp(L*T)); tolerance = adaptive tolerance
                x number of segments / 4 x exp(L*dt_max).
  fixed_conv    fixed-step methods on coupled families (linear, rotation, logistic): the discrepancy to the exact
                sensitivities must shrink by >= 2^(p-1) (euler: 1.5) when every interval is halved (fine grids, >= 16
                steps), or be at the rounding floor.

Parameters are supplied through pbt/gen.py's function kinds (explicit tensors, nn.Module, EditableModule, containers,
siblings), with unused tensors and non-tensor parameters interleaved; which of {leaves, y0, ts} require grad is drawn;
cotangents touch all / the last / one output time; increasing and decreasing, uniform and ragged grids; tensor and tuple state.
"""
from __future__ import annotations

import torch
from hypothesis import strategies as st

from pbt import gen
from pbt import ref_c07 as R
from pbt.harness import Task, ok, violation, discard, xt_call

PID = "C08"
RULE = ("exact_chain: chain kind x forward method x backward method (same / other fixed-step) x function kind (pure, nn, nested, EditableModule, "
        "containers, siblings; unused tensor; non-tensor parameter; elementwise-derived parameters) x which of leaves/y0/ts require grad x cotangent "
        "pattern x grid (2..5 points, both directions, ragged, span 1e-3..30, offsets) x tensor/tuple state x order 1/2. adaptive: families with closed "
        "forms x rk45/rk23 x backward options (same, other tolerances, other method). fixed_conv: coupled families on 16..32-step grids and their "
        "halvings. switched: piecewise right-hand side (Python control flow on t) x side x parameter placement x grid direction x which inputs require grad. shared_options: 2-3 calls x one caller-held forward-options dict "
        "(method and tolerances changed between calls) x one caller-held bck_options dict (omitted / never touched / edited between calls; content any "
        "subset of {method, atol+rtol}) x backward right after each call or deferred in a drawn order; non-trivial = forward options differ between at "
        "least two calls and some call is non-trivial. Non-trivial = at least one requested gradient has a non-zero reference and at least one of {leaf, ts} requires grad; distinct by canonical case.")
ASSUMPTIONS = [
    "float64; reference = torch autograd through closed forms (matrix_exp, polynomial algebra, explicit formulas)",
    "exact_chain tolerance: 1e4*eps*(1+|t0|/span)*nt*(magnitude of the abs-value evaluation of the solution polynomials and cotangents); "
    "exactness of order-4 methods on chains (forward, adjoint and quadratures) is a theorem for first order and verified for second order "
    "(errors are either ~1e-14 or ~1e-2, nothing in between)",
    "adaptive tolerance: 2e3*(tol_f+tol_b)*(1+Y+G) with tol = atol+rtol*(Y+G), Y = max|y|, G = max|reference gradient| (L*T <= 2 on all families)",
    "dissipative tolerance: 2e3*(tol_f+tol_b)*(1+Y+G)*exp(L*dt_max)*nseg/4 (a y-error at a requested time grows by at most exp(L*dt_max) until the next re-seeding; "
    "measured headroom on the unchanged tree > 30x); rk45 only (rk23's first whole-interval step, see C07); first order only",
    "fixed_conv judges only the convergence rate, never the size of an O(h^p) discrepancy",
    "supplied parameter tensors are independent leaves or elementwise functions of their own leaf (AVOID_DERIVED_PARAMS): a tensor computed from "
    "another supplied tensor is over-counted by the non-recording backward (defect owned by C09)",
    "method names lower-case (D15 belongs to C18); leak defects D12/D13 do not affect values",
    "shared_options: the backward options of a call are its own forward options overridden by the content of bck_options at the time of the call "
    "(docstring: 'If not specified, it will take the same options as fwd_options'); only combinations whose backward integration has a derived "
    "tolerance are generated (order-4 fixed-step or, on constants, Euler adjoint on chains; adaptive adjoint on families; rk23 adjoint only at "
    "1e-6..1e-8 tolerances); the caller edits bck_options only between a call's backward pass and the next call; fixed-step methods ignore the "
    "tolerances an earlier adaptive call left in the forward dict (**kwargs of the fixed-step solvers)",
]
LEVEL_TEXT = ("Exploration against exact sensitivities: autograd through closed-form solutions, on problem classes where the fixed-step forward and "
              "adjoint integrations are exact (polynomial chains), with tight-tolerance adaptive integrations, and with a convergence-rate requirement "
              "where an O(h^p) discretisation error is unavoidable.")
LEVEL_NOTE = "trusts torch autograd on closed forms and torch.linalg.matrix_exp; <= 5 (exact) / 8 (adaptive) / 33 (conv) time points, <= 6 state entries"
TECHNIQUE = "Hypothesis property-based testing: differentiable closed-form reference model (first and second order), exactness classes, convergence-rate oracle"
WALL = {"quick": 400, "thorough": 2400}

AVOID_DERIVED_PARAMS = True      # derived-from-another-supplied-tensor layouts are covered by C09 (the exact-chain oracle needs prescribed coefficient values, which such recipes cannot realise)
DT = R.DT
EPS = R.EPS
SPAN = {"short": 1e-3, "unit": 1.0, "long": 30.0}
KINDS_QUICK = ["pure", "pure", "nn", "nn_nested", "em", "em_cont", "em_nn", "sib1", "sib2"]


def span_of(grid):
    return SPAN[grid["span"]] * grid["sfrac"]


def zeros_if_none(gs, xs):
    return [torch.zeros_like(x) if g_ is None else g_ for g_, x in zip(gs, xs)]


def ref_grads(y, xs, create_graph):
    if not xs:
        return []
    if not isinstance(y, torch.Tensor) or not y.requires_grad:
        return [torch.zeros_like(x) for x in xs]
    gs = torch.autograd.grad(y, xs, create_graph=create_graph, allow_unused=True, retain_graph=True)
    return zeros_if_none(gs, xs)


def invert_recipe(rec, desired):
    """leaf value such that derive_one(rec, leaf) equals `desired` (sq: |desired|)"""
    if rec[0] == "id":
        return desired.clone()
    if rec[0] == "sq":
        return desired.abs().sqrt()
    if rec[0] == "lin":
        return (desired - 0.5) / 2.0
    raise ValueError(rec)


@st.composite
def spec_st(draw, neff, kinds, scales=(1.0, 0.5, 2.0, -1.5)):
    """function-kind spec with one leaf per effective tensor; recipes are elementwise functions of the tensor's own leaf"""
    spec = draw(gen.funspec_st(neff, neff, kinds=kinds, allow_alias=False))
    derive = []
    for j, rec in enumerate(spec["derive"]):
        if AVOID_DERIVED_PARAMS and (rec[0] == "mul" or rec[1] != j):
            rec = ["sq", j]
        derive.append(list(rec))
    spec["derive"] = derive
    spec["scale"] = draw(st.sampled_from(list(scales)))
    return spec


class Setup:
    """leaves, function, parameters and the list of tensors gradients are asked for"""

    def __init__(self, core, desired, spec, req):
        values = [invert_recipe(rec, d) for rec, d in zip(spec["derive"], desired)]
        self.leaves = gen.make_leaves(values, req, spec["kind"])
        self.fcn, self.params, self.info = gen.build_function(core, self.leaves, spec)
        self.scale = float(spec.get("scale", 1.0))
        self.spec = spec

    def eff(self):
        """effective tensors as plain torch functions of the leaves (reference side)"""
        return gen.derive_all(self.spec["derive"], self.leaves)


def cotangents(case, shapes, g):
    """list of cotangent tensors, one per output block of shape (nt, ...)"""
    mode = case["cot"]
    out = []
    for shp in shapes:
        W = torch.randn(shp, generator=g, dtype=DT)
        nt = shp[0]
        if mode == "last":
            W[:-1] = 0
        elif mode == "one":
            keep = case["cotk"] % nt
            mask = torch.zeros((nt,), dtype=DT)
            mask[keep] = 1
            W = W * mask.reshape((nt,) + (1,) * (len(shp) - 1))
        out.append(W)
    return out


def compare(case, labels, got_outs, ref_outs, wrt, names, scales, unused, g, tol_fn, value_tol):
    """values, first- and (case['order']==2) second-order gradients of <W, outs> against the reference expression"""
    for j, (a, b) in enumerate(zip(got_outs, ref_outs)):
        if tuple(a.shape) != tuple(b.shape):
            return violation("result_shape", "output %d has shape %r, expected %r" % (j, tuple(a.shape), tuple(b.shape)), labels), False
        if value_tol is not None:
            err = float((a.detach() - b.detach()).abs().max())
            if not err <= value_tol:
                return violation("forward_value", "forward values differ from the closed form by %.3e (tol %.3e)" % (err, value_tol), labels), False
    W = cotangents(case, [tuple(b.shape) for b in ref_outs], g)
    loss = sum((a * w).sum() for a, w in zip(got_outs, W))
    loss_ref = sum((b * w).sum() for b, w in zip(ref_outs, W))
    second = case["order"] == 2
    allwrt = wrt + ([unused] if unused is not None else [])
    if not loss.requires_grad:
        return violation("no_graph", "the trajectory does not require grad although %s do" % names, labels), False
    got = xt_call(torch.autograd.grad, loss, allwrt, create_graph=second, allow_unused=True, _where="backward")
    if unused is not None:
        gu = got[-1]
        if gu is not None and float(gu.abs().max()) != 0.0:
            return violation("unused_grad", "a tensor that does not enter the dynamics received the gradient %s" % gu.tolist(), labels), False
    got = list(got[:len(wrt)])
    ref = ref_grads(loss_ref, wrt, create_graph=second)
    G = max([float(r.detach().abs().max()) for r in ref] + [0.0])
    nonzero = G > 0
    for k, (gk, rk, x) in enumerate(zip(got, ref, wrt)):
        gk0 = torch.zeros_like(x) if gk is None else gk
        if tuple(gk0.shape) != tuple(x.shape):
            return violation("grad_shape", "gradient w.r.t. %s has shape %r, expected %r" % (names[k], tuple(gk0.shape), tuple(x.shape)), labels), False
        err = float((gk0.detach() - rk.detach()).abs().max())
        tol = tol_fn(1, G, scales[k], 1.0)
        if not err <= tol:
            return violation("grad1_" + names[k].split("[")[0], "first-order gradient w.r.t. %s: got %s ref %s (err %.3e, tol %.3e)"
                             % (names[k], gk0.detach().reshape(-1).tolist()[:5], rk.detach().reshape(-1).tolist()[:5], err, tol), labels), False
    if second:
        C = [torch.randn(x.shape, generator=g, dtype=DT) for x in wrt]
        terms = [(c * gk).sum() for c, gk in zip(C, got) if gk is not None and gk.requires_grad]
        L_ref = sum((c * rk).sum() for c, rk in zip(C, ref))
        ref2 = ref_grads(L_ref, wrt, create_graph=False)
        G2 = max([float(r.abs().max()) for r in ref2] + [0.0])
        if not terms:
            if G2 > 0:
                return violation("no_second_graph", "create_graph=True returned gradients without a graph although the second-order reference is non-zero (max %.3e)" % G2, labels), False
            return None, nonzero
        got2 = xt_call(torch.autograd.grad, sum(terms), wrt, allow_unused=True, _where="backward2")
        smax = max(scales)
        for k, (gk, rk, x) in enumerate(zip(got2, ref2, wrt)):
            gk0 = torch.zeros_like(x) if gk is None else gk
            err = float((gk0.detach() - rk.detach()).abs().max())
            tol = tol_fn(2, max(G, G2), scales[k], smax)
            if not err <= tol:
                return violation("grad2_" + names[k].split("[")[0], "second-order gradient w.r.t. %s: got %s ref %s (err %.3e, tol %.3e)"
                                 % (names[k], gk0.detach().reshape(-1).tolist()[:5], rk.detach().reshape(-1).tolist()[:5], err, tol), labels), False
        nonzero = nonzero or G2 > 0
    return None, nonzero


def common_labels(case, spec):
    return ["kind=" + spec["kind"], "order=%d" % case["order"], "cot=" + case["cot"], "tsreq=%s" % case["tsreq"], "y0req=%s" % case["y0req"],
            "nleafgrad=%d" % sum(1 for r in case["req"] if r), "unused=%s" % spec.get("unused"), "nontensor=%s" % spec.get("nontensor"),
            "scale=%g" % spec["scale"], "recipes=" + "".join(sorted({r[0] for r in spec["derive"]}))]


# ------------------------------------------------------------------------------------------------------------------
# task exact_chain

def chain_desired(case):
    degs, tdep = R.CHAIN_KINDS[case["chain"]]
    g = torch.Generator().manual_seed(case["seed"])
    ns = [1 + int(torch.randint(0, 2, (1,), generator=g)) for _ in degs]

    def rnd(shape):
        x = torch.randint(-4, 5, shape, generator=g).to(DT) / 2.0
        return x + (x == 0).to(DT) * 0.5
    Qs = [rnd((dg + 1, ns[j])) for j, dg in enumerate(degs)]
    if case["chain"] == "quadz":
        Qs[0][1:] = 0.0
    Cs = []
    for j in range(1, len(degs)):
        Cs.append(rnd((ns[j], ns[j - 1])))
        if tdep[j - 1]:
            Cs.append(rnd((ns[j], ns[j - 1])))
    y0s = [rnd((n,)) for n in ns]
    return ns, Qs, Cs, y0s, tdep, g


def chain_split(eff, nlev, tdep, scale):
    """effective tensors [Q_0..Q_{m-1}, C..] -> (Qs, Cs) of R.chain_rhs, multiplied by the overall scale"""
    Qs = [q * scale for q in eff[:nlev]]
    rest = list(eff[nlev:])
    Cs = []
    for j in range(1, nlev):
        C0 = rest.pop(0) * scale
        C1 = rest.pop(0) * scale if tdep[j - 1] else None
        Cs.append((C0, C1))
    return Qs, Cs


class Part:
    """one solve_ivp problem of a case: `forward(**kwargs)` calls xitorch.solve_ivp with the given method / options,
    `judge(res)` differentiates the result and compares it with the closed form (returns a Verdict)"""

    def __init__(self, labels, empty, forward, judge):
        self.labels, self.empty, self.forward, self.judge = labels, empty, forward, judge


def exact_chain_part(case):
    from xitorch.integrate import solve_ivp
    ns, Qs_d, Cs_d, y0s_d, tdep, g = chain_desired(case)
    nlev = len(ns)
    spec = case["spec"]
    span = span_of(case["grid"])
    tvals = R.grid_values(case["grid"], span)
    tc = tvals[0]
    sc = 2.0 / span
    nt = len(tvals)
    form = case["form"]
    method = case["method"]

    def split(v):
        out, i = [], 0
        for n in ns:
            out.append(v[..., i:i + n])
            i += n
        return out

    def core(xs, eff, scale):
        t, y = xs
        ys = split(y) if form == "tensor" else list(y)
        Qs, Cs = chain_split(eff, nlev, tdep, scale * sc)
        out = R.chain_rhs((t - tc) * sc, ys, Qs, Cs)
        return torch.cat(out) if form == "tensor" else tuple(out)
    su = Setup(core, Qs_d + Cs_d, spec, case["req"])
    ts = torch.tensor(tvals, dtype=DT, requires_grad=bool(case["tsreq"]))
    if form == "tensor":
        y0 = torch.cat(y0s_d).requires_grad_(bool(case["y0req"]))
        y0_leaves = [y0]
        y0s = split(y0)
    else:
        y0s = [y.clone().requires_grad_(bool(case["y0req"])) for y in y0s_d]
        y0 = tuple(y0s)
        y0_leaves = list(y0s)
    leaves_g = [l for l in su.leaves if l.requires_grad]
    wrt = leaves_g + (y0_leaves if case["y0req"] else []) + ([ts] if case["tsreq"] else [])
    names = ["leaf[%d]" % i for i, l in enumerate(su.leaves) if l.requires_grad] + \
            (["y0[%d]" % i for i in range(len(y0_leaves))] if case["y0req"] else []) + (["ts"] if case["tsreq"] else [])
    scales = [1.0] * len(leaves_g) + ([1.0] * len(y0_leaves) if case["y0req"] else []) + ([sc] if case["tsreq"] else [])
    bck = case["bck"]
    labels = ["task=exact_chain", "chain=" + case["chain"], "fwd=" + method, "bck=" + (bck or "same"), "form=" + form] + \
        R.grid_labels(case["grid"]) + common_labels(case, spec)

    def forward(**kwargs):
        return xt_call(solve_ivp, su.fcn, ts, y0, params=su.params, _where="forward", **kwargs)

    def judge(res):
        got_outs = split(res) if form == "tensor" else list(res)
        Qs, Cs = chain_split(su.eff(), nlev, tdep, su.scale)
        svals = [(ts[i] - tc) * sc for i in range(nt)]
        sols, mag = R.chain_exact(svals, y0s, Qs, Cs)
        base = 1e4 * EPS * (1 + abs(tc) / span) * nt * (1.0 + mag)
        Wmag = 4.0 * sum(s_.shape[1] for s_ in sols) * nt           # sum of |cotangent entries| (|N(0,1)| <~ 4)

        def tol_fn(order, G, s1, s2):
            t = base * Wmag * s1 + 1e-12 * G
            if order == 2:
                t = t * 4.0 * len(wrt) * 3 * max(s2, 1.0)
            return t
        v, nonzero = compare(case, labels, got_outs, sols, wrt, names, scales, su.info["unused"], g, tol_fn, base)
        if v is not None:
            return v
        return ok(labels, nontrivial=nonzero and (bool(leaves_g) or case["tsreq"]))
    return Part(labels, not wrt, forward, judge)


def run_exact_chain(case):
    torch.manual_seed(0)
    part = exact_chain_part(case)
    if part.empty:
        return discard("nothing_to_differentiate", part.labels)
    kwargs = {"method": case["method"]}
    if case["bck"]:
        kwargs["bck_options"] = {"method": case["bck"]}
    return part.judge(part.forward(**kwargs))


@st.composite
def exact_chain_case_st(draw, method, chain, bck, orders=(1, 1, 2)):
    """an exact_chain case for the given forward method, chain class and backward method (None: same as forward)"""
    degs, tdep = R.CHAIN_KINDS[chain]
    neff = len(degs) + sum(1 + (1 if td else 0) for td in tdep)
    spec = draw(spec_st(neff, KINDS_QUICK))
    req = [draw(st.sampled_from([True, True, False])) for _ in range(neff)]
    return {"chain": chain, "method": method, "bck": bck, "grid": draw(R.grid_st(min_nt=2, max_nt=5, offsets=(0.0, 0.0, -3.0, 2.5, 40.0))),
            "form": draw(st.sampled_from(["tensor", "tuple"])), "spec": spec, "req": req,
            "y0req": draw(st.booleans()), "tsreq": draw(st.sampled_from([True, True, False])),
            "cot": draw(st.sampled_from(["dense", "dense", "last", "one"])), "cotk": draw(st.integers(0, 7)),
            "order": draw(st.sampled_from(list(orders))), "seed": draw(st.integers(0, 2 ** 31 - 1))}


def exact_chain_st(tier):
    @st.composite
    def s(draw):
        method = draw(st.sampled_from(["rk4", "rk38", "rk4", "rk38", "euler"]))
        if method == "euler":
            # euler is exact on constants; with a 4th-order backward method the gradients w.r.t. the (zero-valued) coefficients
            # of s, s^2, s^3 are exact as well - unless bck_options is not honoured
            chain, bck = draw(st.sampled_from([("const", None), ("const", "rk4"), ("quadz", "rk4"), ("quadz", "rk38")]))
        else:
            chain = draw(st.sampled_from(["quad3", "chain2", "chain2t", "chain3"]))
            bck = draw(st.sampled_from([None, None, "rk4", "rk38"]))
            if bck == method:
                bck = None
        return draw(exact_chain_case_st(method, chain, bck))
    return s()


# ------------------------------------------------------------------------------------------------------------------
# closed-form families with parameters supplied through function kinds (tasks adaptive, fixed_conv)

def scaled_params(fam, eff, scale):
    """parameters of the family whose right-hand side is scale * f(t, y; eff)"""
    if fam == "logistic":
        return [eff[0] * scale, eff[1]]
    return [e * scale for e in eff]


def family_case(case, LT):
    """desired parameter values, y0 and grid of a family such that L*T ~ LT for the scaled dynamics"""
    fam = case["family"]
    shape = list(case["shape"])
    if fam == "osc":
        shape = shape[:-1] + [2]
    grid = case["grid"]
    span = span_of(grid)
    scale = abs(case["spec"]["scale"])
    if fam == "sep" and grid["dir"] < 0:
        LT = min(LT, 0.25)
    if "rk23" in (case.get("method"), (case.get("bck") or {}).get("method") if isinstance(case.get("bck"), dict) else None):
        # every backward segment (and the first forward interval) starts with one step over the whole interval; the
        # Bogacki-Shampine error estimate of a linear mode vanishes at h*lambda = -1 (see C07): keep |h*lambda| <= 0.8
        incr = grid["incr"]
        LT = min(LT, 0.45 * sum(incr) / max(incr))
    rate = LT / span / scale
    if fam == "sep":
        rate = rate / 4.0
    params = R.family_params(fam, shape[-1], case["seed"], rate)
    y0 = R.family_y0(fam, shape, case["seed"])
    if fam == "logistic":
        y0 = y0 * params[1]
    if fam == "tdecay":
        tmid = grid["t0"] + 0.5 * grid["dir"] * span
        params = [params[0] / max(1.0, span), params[1] - params[0] / max(1.0, span) * tmid]
    return fam, params, y0, R.grid_values(grid, span), span


def family_core(fam, form, nparts):
    def core(xs, eff, scale):
        t, y = xs
        if form == "tensor":
            return scale * R.family_rhs(fam, t, y, eff)
        yc = torch.cat(list(y), dim=-1)
        out = scale * R.family_rhs(fam, t, yc, eff)
        sizes = R.split_sizes(yc.shape[-1], nparts)
        return tuple(torch.split(out, sizes, dim=-1))
    return core


def family_run(case, LT, method, opts, bck_options, tvals_override=None, call=None):
    """run xitorch and the closed form; returns everything `compare` needs.  `call(fcn, ts, y0, params)` replaces the
    plain solve_ivp call built from (method, opts, bck_options) when given (histories with caller-held option dicts)"""
    from xitorch.integrate import solve_ivp
    fam, params_d, y0_d, tvals, span = family_case(case, LT)
    if tvals_override is not None:
        tvals = tvals_override
    spec = case["spec"]
    form = case["form"]
    n = y0_d.shape[-1]
    nparts = min(2, n) if form == "tuple" else 1
    # sq recipes make the parameter non-negative; sep/logistic/K need positive values anyway, signs of the others are free
    su = Setup(family_core(fam, form, nparts), params_d, spec, case["req"])
    ts = torch.tensor(tvals, dtype=DT, requires_grad=bool(case["tsreq"]))
    if form == "tensor":
        y0 = y0_d.clone().requires_grad_(bool(case["y0req"]))
        y0_leaves = [y0]
        y0cat = y0
    else:
        sizes = R.split_sizes(n, nparts)
        y0_leaves = [p.clone().requires_grad_(bool(case["y0req"])) for p in torch.split(y0_d, sizes, dim=-1)]
        y0 = tuple(y0_leaves)
        y0cat = torch.cat(y0_leaves, dim=-1)
    if call is not None:
        res = call(su.fcn, ts, y0, su.params)
    else:
        kwargs = dict(opts)
        kwargs["method"] = method
        if bck_options is not None:
            kwargs["bck_options"] = dict(bck_options)
        res = xt_call(solve_ivp, su.fcn, ts, y0, params=su.params, _where="forward", **kwargs)
    exact = R.family_exact(fam, ts, y0cat, scaled_params(fam, su.eff(), su.scale))
    if form == "tensor":
        got_outs, ref_outs = [res], [exact]
    else:
        got_outs = list(res)
        ref_outs = list(torch.split(exact, R.split_sizes(n, nparts), dim=-1))
    leaves_g = [l for l in su.leaves if l.requires_grad]
    wrt = leaves_g + (y0_leaves if case["y0req"] else []) + ([ts] if case["tsreq"] else [])
    names = ["leaf[%d]" % i for i, l in enumerate(su.leaves) if l.requires_grad] + \
            (["y0[%d]" % i for i in range(len(y0_leaves))] if case["y0req"] else []) + (["ts"] if case["tsreq"] else [])
    return su, ts, got_outs, ref_outs, wrt, names, leaves_g, span, exact


NEFF = {"linear": 1, "osc": 1, "tdecay": 2, "sep": 1, "logistic": 2}


def adaptive_part(case):
    """case["bck"] describes the backward options that are in force for this call (None: those of the forward integration)"""
    from xitorch.integrate import solve_ivp
    method = case["method"]
    atol, rtol = 10.0 ** (-case["atol_e"]), 10.0 ** (-case["rtol_e"])
    opts = {"atol": atol, "rtol": rtol}
    b = case["bck"]
    bck_options = None
    atol_b, rtol_b = atol, rtol
    if b is not None:
        bck_options = {}
        if b.get("method"):
            bck_options["method"] = b["method"]
        if b.get("atol_e"):
            atol_b, rtol_b = 10.0 ** (-b["atol_e"]), 10.0 ** (-b["rtol_e"])
            bck_options["atol"], bck_options["rtol"] = atol_b, rtol_b
    g = torch.Generator().manual_seed(case["seed"] ^ 0x2468ace)
    spec = case["spec"]
    labels = ["task=adaptive", "family=" + case["family"], "fwd=" + method,
              "bck=" + ("same" if b is None else ("method_" + b["method"] if b.get("method") else "") + ("tol" if b.get("atol_e") else "")),
              "form=" + case["form"]] + R.grid_labels(case["grid"]) + common_labels(case, spec)
    empty = not (any(case["req"]) or case["y0req"] or case["tsreq"])

    def forward(**kwargs):
        if kwargs:
            def call(fcn, ts, y0, params):
                return xt_call(solve_ivp, fcn, ts, y0, params=params, _where="forward", **kwargs)
        else:
            call = None
        return family_run(case, case["LT"], method, opts, bck_options, call=call)

    def judge(res):
        su, ts, got_outs, ref_outs, wrt, names, leaves_g, span, exact = res
        Y = float(exact.detach().abs().max())

        def tol_fn(order, G, s1, s2):
            Z = 1.0 + Y + G
            t = 2e3 * ((atol + rtol * Z) + (atol_b + rtol_b * Z)) * Z
            if order == 2:
                t = t * 10.0
            return t
        value_tol = 20.0 * 400 * (atol + rtol * Y) + 1e-12 * (1 + Y)
        scales = [1.0] * len(wrt)
        v, nonzero = compare(case, labels, got_outs, ref_outs, wrt, names, scales, su.info["unused"], g, tol_fn, value_tol)
        if v is not None:
            return v
        return ok(labels, nontrivial=nonzero and (bool(leaves_g) or case["tsreq"]))
    return Part(labels, empty, forward, judge)


def run_adaptive(case):
    torch.manual_seed(0)
    part = adaptive_part(case)
    res = part.forward()
    if part.empty:
        return discard("nothing_to_differentiate", part.labels)
    return part.judge(res)


@st.composite
def adaptive_case_st(draw, tier, method, tol_e, bck, order):
    """an adaptive case for the given forward method, forward tolerances 10^-tol_e and backward options in force"""
    fam = draw(st.sampled_from(R.FAMILIES))
    neff = NEFF[fam]
    spec = draw(spec_st(neff, KINDS_QUICK, scales=(1.0, 0.5, 2.0)))
    grid = draw(R.grid_st(min_nt=2, max_nt=(5 if tier == "quick" else 8), offsets=(0.0, 0.0, -3.0, 2.5)))
    return {"family": fam, "method": method, "bck": bck, "atol_e": tol_e[0], "rtol_e": tol_e[1], "grid": grid,
            "LT": draw(st.sampled_from([0.3, 1.0, 2.0] if method == "rk45" else [0.3, 1.0])),
            "shape": draw(st.sampled_from([[1], [2], [3], [2, 2]])), "form": draw(st.sampled_from(["tensor", "tensor", "tuple"])),
            "spec": spec, "req": [draw(st.sampled_from([True, True, False])) for _ in range(neff)],
            "y0req": draw(st.booleans()), "tsreq": draw(st.sampled_from([True, True, False])),
            "cot": draw(st.sampled_from(["dense", "dense", "last", "one"])), "cotk": draw(st.integers(0, 7)),
            "order": order, "seed": draw(st.integers(0, 2 ** 31 - 1))}


def adaptive_st(tier):
    @st.composite
    def s(draw):
        method = draw(st.sampled_from(["rk45", "rk45", "rk45", "rk23"]))
        order = draw(st.sampled_from([1, 1, 2]))
        if method == "rk23":
            tol_e = draw(st.sampled_from([(7, 6), (8, 6)]))
            order = 1 if tier == "quick" else order
        else:
            tol_e = draw(st.sampled_from([(10, 9), (10, 9), (9, 8), (11, 10)]))
        bmode = draw(st.sampled_from(["same", "same", "tol", "method", "both"]))
        bck = None
        if bmode != "same":
            bck = {}
            if bmode in ("method", "both"):
                bck["method"] = "rk23" if method == "rk45" else "rk45"
            bm = bck.get("method", method)
            if bmode in ("tol", "both") or bm != method:
                bck["atol_e"], bck["rtol_e"] = (7, 6) if bm == "rk23" else draw(st.sampled_from([(9, 8), (11, 10)]))
            if bm == "rk23" and tier == "quick":
                order = 1
        return draw(adaptive_case_st(tier, method, tol_e, bck, order))
    return s()


# ------------------------------------------------------------------------------------------------------------------
# task fixed_conv: rate of convergence of the gradient discrepancy

def grad_discrepancy(case, tvals, LT):
    """L2 norm of (xitorch gradient - exact gradient) over all requested tensors, and the norm of the exact gradient"""
    g = torch.Generator().manual_seed(case["seed"] ^ 0x2468ace)
    bck = {"method": case["bck"]} if case["bck"] else None
    su, ts, got_outs, ref_outs, wrt, names, leaves_g, span, exact = family_run(case, LT, case["method"], {}, bck, tvals_override=tvals)
    # the cotangent lives on the coarse grid points only (every 2^k-th point of a refined grid), so that refinements share the loss
    stride = (len(tvals) - 1) // case["ncoarse"]
    W = cotangents(case, [(case["ncoarse"] + 1,) + tuple(r.shape[1:]) for r in ref_outs], g)
    loss = sum((a[::stride] * w).sum() for a, w in zip(got_outs, W))
    loss_ref = sum((b_[::stride] * w).sum() for b_, w in zip(ref_outs, W))
    second = case["order"] == 2
    allwrt = wrt + ([su.info["unused"]] if su.info["unused"] is not None else [])
    if not loss.requires_grad:
        return None, None, "no_graph"
    got = xt_call(torch.autograd.grad, loss, allwrt, create_graph=second, allow_unused=True, _where="backward")
    if su.info["unused"] is not None and got[-1] is not None and float(got[-1].abs().max()) != 0.0:
        return None, None, "unused_grad"
    got = list(got[:len(wrt)])
    ref = ref_grads(loss_ref, wrt, create_graph=second)
    # time gradients are O(rate) larger than the others: compare them in units of the span
    unit = [span if n == "ts" else 1.0 for n in names]
    if second:
        C = [torch.randn(x.shape, generator=g, dtype=DT) * u for x, u in zip(wrt, unit)]
        terms = [(c * gk).sum() for c, gk in zip(C, got) if gk is not None and gk.requires_grad]
        if not terms:
            return None, None, "no_second_graph"
        got = xt_call(torch.autograd.grad, sum(terms), wrt, allow_unused=True, _where="backward2")
        ref = ref_grads(sum((c * rk).sum() for c, rk in zip(C, ref)), wrt, create_graph=False)
    got = zeros_if_none(got, wrt)
    d2 = sum(float(((a.detach() - b_.detach()) * u).pow(2).sum()) for a, b_, u in zip(got, ref, unit))
    r2 = sum(float((b_.detach() * u).pow(2).sum()) for b_, u in zip(ref, unit))
    return d2 ** 0.5, r2 ** 0.5, None


def run_fixed_conv(case):
    torch.manual_seed(0)
    method = case["method"]
    p = R.FIXED[method]
    grid = case["grid"]
    span = span_of(grid)
    coarse = R.grid_values(grid, span)
    case = dict(case, ncoarse=len(coarse) - 1, order=1)

    def refine(tv):
        out = [tv[0]]
        for a, b_ in zip(tv[:-1], tv[1:]):
            out += [0.5 * (a + b_), b_]
        return out
    fine = coarse
    for _ in range(case["levels"]):
        fine = refine(fine)
    LT = case["LT"]
    spec = case["spec"]
    labels = ["task=fixed_conv", "family=" + case["family"], "fwd=" + method, "bck=" + (case["bck"] or "same"), "form=" + case["form"],
              "steps=%d" % (len(fine) - 1)] + R.grid_labels(grid) + common_labels(case, spec)
    if not (any(case["req"]) or case["y0req"] or case["tsreq"]):
        return discard("nothing_to_differentiate", labels)
    need = 2.0 ** (p - 1) if p > 1 else 1.5
    ds = []
    # levels: N, 2N and - only if the first ratio is too small (sign cancellation between the h^p and h^(p+1) terms can make a
    # single discrepancy accidentally small) - 4N.  A wrong term fails at every level, a coincidence does not repeat.
    for lev in range(5):
        d, r, bad = grad_discrepancy(case, fine, LT)
        if bad:
            return violation(bad, "on the %d-step grid" % (len(fine) - 1), labels)
        if r == 0.0:
            return ok(labels, nontrivial=False)
        ds.append((d, len(fine) - 1))
        floor = 1e4 * EPS * len(fine) * (1.0 + r) * (1 + abs(grid["t0"]) / span)
        if lev == 0:
            # a correct adjoint has discrepancy C h^p << |gradient| on these grids (h L <= 1/8)
            if not d <= 0.5 * (1.0 + r):
                return violation("conv_size", "%s/%s on %s: gradient discrepancy %.3e on a %d-step grid with h*L = %.3g (|gradient| = %.3e)"
                                 % (method, case["bck"] or "same", case["family"], d, len(fine) - 1, LT / (len(fine) - 1), r), labels)
        else:
            dprev = ds[-2][0]
            if d <= floor or d * need <= dprev:
                return ok(labels + ["levels_used=%d" % (lev + 1)], nontrivial=(any(case["req"]) or case["tsreq"]))
        fine = refine(fine)
    # five levels (N .. 16N) without ever reaching the asymptotic rate.  A wrong term leaves a discrepancy that does not shrink at all
    # (ratios ~1); pre-asymptotic sign cancellation between the h^p and h^(p+1) terms can hold the ratio below the asymptotic one for
    # several levels but keeps it clearly above 1.  Only the former is reported; the latter is counted as inconclusive.
    need_low = 1.25 if p == 1 else 2.0 ** (p - 2)
    if ds[-2][0] / ds[-1][0] >= need_low:
        return discard("conv_rate_inconclusive", labels)
    return violation("conv_rate", "%s/%s on %s: gradient discrepancies %s on %s steps: successive ratios %s stay below %.2f (|gradient| = %.3e); "
                     "a discrepancy that does not vanish like h^%d is a wrong term, not discretisation error"
                     % (method, case["bck"] or "same", case["family"], ["%.3e" % d for d, _ in ds], [n for _, n in ds],
                        ["%.2f" % (ds[i][0] / ds[i + 1][0]) for i in range(len(ds) - 1)], need, r, p), labels)


def fixed_conv_st(tier):
    @st.composite
    def s(draw):
        method = draw(st.sampled_from(["rk4", "rk38", "euler"]))
        fam = draw(st.sampled_from(["linear", "osc", "logistic", "tdecay"]))
        neff = NEFF[fam]
        spec = draw(spec_st(neff, KINDS_QUICK, scales=(1.0, 0.5, 2.0)))
        bck = draw(st.sampled_from([None, None, "rk4", "rk38"])) if method != "euler" else None
        if bck == method:
            bck = None
        grid = draw(R.grid_st(min_nt=2, max_nt=5, spans=("unit", "long"), offsets=(0.0, 0.0, -3.0, 2.5)))
        nco = len(grid["incr"])
        levels = {1: 4, 2: 3, 3: 3, 4: 2}[nco] + (1 if method == "euler" else 0)      # 16, 16, 24 or 16 steps (euler: twice as many)
        return {"family": fam, "method": method, "bck": bck, "grid": grid, "levels": levels,
                "LT": draw(st.sampled_from([1.0, 2.0])), "shape": draw(st.sampled_from([[1], [2], [3], [2, 2]])),
                "form": draw(st.sampled_from(["tensor", "tensor", "tuple"])),
                "spec": spec, "req": [draw(st.sampled_from([True, True, False])) for _ in range(neff)],
                "y0req": draw(st.booleans()), "tsreq": draw(st.sampled_from([True, True, False])),
                "cot": draw(st.sampled_from(["dense", "dense", "last", "one"])), "cotk": draw(st.integers(0, 7)),
                "order": 1, "seed": draw(st.integers(0, 2 ** 31 - 1))}
    return s()


# ------------------------------------------------------------------------------------------------------------------
# task switched: right-hand sides with Python control flow on t (a term that is active on part of the time axis only)

def run_switched(case):
    """dy/dt = -(p1 + chi(t) p2 (t - tc)^2) y elementwise, chi = [t < tc] ("lt") or [t > tc] ("gt") decided by Python control
    flow inside the user function: which tensors enter the dynamics changes along the trajectory (p2 and the explicit
    t-dependence are absent on one side of tc).  Closed form y = y0 exp(-p1 (t - t0) - p2 (G(t) - G(t0))),
    G(t) = -max(tc - t, 0)^3 / 3 (lt) or max(t - tc, 0)^3 / 3 (gt), differentiable in p1, p2, y0 and every time point."""
    from xitorch.integrate import solve_ivp
    torch.manual_seed(0)
    g = gen.seeded(case["seed"])
    m = case["m"]
    side = case["side"]
    tc = float(case["tc"])
    req = case["req"]
    place = case["place"]
    mk = (lambda v, r: torch.nn.Parameter(v, requires_grad=bool(r))) if place != "explicit" else (lambda v, r: v.requires_grad_(bool(r)))
    p1 = (0.2 + torch.rand((m,), generator=g, dtype=DT))
    p2 = (0.5 + torch.rand((m,), generator=g, dtype=DT))
    p1 = p1.requires_grad_(bool(req[0])) if place in ("explicit", "mixed") else mk(p1, req[0])
    p2 = mk(p2, req[1])
    y0 = (0.5 + torch.rand((m,), generator=g, dtype=DT)).requires_grad_(bool(case["y0req"]))
    tvals = [float(t) for t in case["ts"]]
    ts = torch.tensor(tvals, dtype=DT).requires_grad_(bool(case["tsreq"]))

    def active(t):
        return bool(t < tc) if side == "lt" else bool(t > tc)

    def rhs_core(t, y, a, b):
        if active(t):
            return -(a + b * (t - tc) ** 2) * y
        return -a * y
    if place == "explicit":
        fcn, params = rhs_core, (p1, p2)
    else:
        class Mod(torch.nn.Module):
            def __init__(self):
                super().__init__()
                self.b = p2
                if place == "nn":
                    self.a = p1

            def forward(self, t, y, *ex):
                return rhs_core(t, y, ex[0] if place == "mixed" else self.a, self.b)
        fcn = Mod()
        params = (p1,) if place == "mixed" else ()
    atol, rtol = 1e-10, 1e-9
    opts = {"atol": atol, "rtol": rtol}
    method = case["method"]
    labels = ["task=switched", "fwd=" + method, "side=" + side, "place=" + place, "order=%d" % case["order"],
              "dir=" + ("inc" if tvals[-1] > tvals[0] else "dec"), "nt=%d" % len(tvals),
              "last_active=%s" % active(torch.tensor(tvals[-1]))]
    wrt = [t for t, r in ((p1, req[0]), (p2, req[1]), (y0, case["y0req"]), (ts, case["tsreq"])) if r]
    names = [n for n, r in (("p1", req[0]), ("p2", req[1]), ("y0", case["y0req"]), ("ts", case["tsreq"])) if r]
    if not wrt:
        return discard("nothing_to_differentiate", labels)
    if method in ("rk45", "rk23") and len(tvals) > 1 and min(tvals[0], tvals[1]) < tc < max(tvals[0], tvals[1]):
        # recorded finding D31 (C07, site first_step_whole_interval): the first adaptive step is the whole first interval; when that
        # step straddles the kink of the right-hand side the embedded estimate can be deceived (ts=[0,3/7,1], tc=0.37: value error 4e-6
        # at rtol 1e-9, 3e-9 with an extra point at 0.2).  Excluded here by a rule on the inputs, counted; C07 reports the finding.
        return discard("first_interval_straddles_switch_D31", labels)
    y = xt_call(solve_ivp, fcn, ts, y0, params=params, method=method, _where="forward", **opts)

    def G(t):
        if side == "lt":
            return -torch.clamp(tc - t, min=0.0) ** 3 / 3.0
        return torch.clamp(t - tc, min=0.0) ** 3 / 3.0
    tt = ts.unsqueeze(-1)
    exact = y0 * torch.exp(-p1 * (tt - tt[0]) - p2 * (G(tt) - G(tt[0])))
    W = torch.randn(exact.shape, generator=g, dtype=DT)
    if case["cot"] == "last":
        W[:-1] = 0
    Y = float(exact.detach().abs().max())
    verr = float((y.detach() - exact.detach()).abs().max())
    if not verr <= 1e-6 * (1 + Y):
        return violation("value", "trajectory differs from the closed form by %.3e" % verr, labels)
    second = case["order"] == 2
    loss, lref = (y * W).sum(), (exact * W).sum()
    if case.get("loss") == "fit":
        # least-squares misfit at a perfect fit: the cotangent entering solve_ivp's backward is exactly zero in value but carries
        # a graph; the second-order (Gauss-Newton) term J^T diag(w) J must come out of the recorded backward
        second = True
        Wp = W.abs() + 0.5
        loss, lref = 0.5 * (Wp * (y - y.detach()) ** 2).sum(), 0.5 * (Wp * (exact - exact.detach()) ** 2).sum()
        labels = labels + ["loss=fit"]
    if not loss.requires_grad:
        return violation("no_graph", "result does not require grad although %s do" % names, labels)
    got = zeros_if_none(xt_call(torch.autograd.grad, loss, wrt, create_graph=second, allow_unused=True, _where="backward"), wrt)
    ref = ref_grads(lref, wrt, create_graph=second)
    nonzero = False
    for order in ((1, 2) if second else (1,)):
        if order == 2:
            C = [torch.randn(x.shape, generator=g, dtype=DT) for x in wrt]
            terms = [(c * gk).sum() for c, gk in zip(C, got) if gk.requires_grad]
            rterms = [(c * rk).sum() for c, rk in zip(C, ref) if rk.requires_grad]
            if not terms:
                if rterms:
                    return violation("no_second_graph", "create_graph=True produced gradients without graph", labels)
                break
            got = zeros_if_none(xt_call(torch.autograd.grad, sum(terms), wrt, allow_unused=True, _where="backward2"), wrt)
            ref = ref_grads(sum(rterms), wrt, create_graph=False) if rterms else [torch.zeros_like(x) for x in wrt]
        Gm = max([float(r.detach().abs().max()) for r in ref] + [0.0])
        tol = 2e3 * 2 * (atol + rtol * (1 + Y + Gm)) * (1 + Y + Gm) * (10.0 if order == 2 else 1.0)
        for nm, a, b_ in zip(names, got, ref):
            err = float((a.detach() - b_.detach()).abs().max())
            nonzero = nonzero or float(b_.detach().abs().max()) > 0
            if not err <= tol:
                return violation("grad%d_%s" % (order, nm), "order-%d gradient w.r.t. %s differs from the closed form by %.3e (tol %.3e); got %s ref %s; ts=%s tc=%g side=%s" % (
                    order, nm, err, tol, a.detach().reshape(-1)[:3].tolist(), b_.detach().reshape(-1)[:3].tolist(), tvals, tc, side), labels)
    return ok(labels, nontrivial=nonzero)


@st.composite
def switched_st(draw, tier="quick"):
    nt = draw(st.integers(2, 5))
    incr = [draw(st.integers(1, 6)) for _ in range(nt - 1)]
    d = draw(st.sampled_from([1, 1, -1]))
    t0 = draw(st.sampled_from([0.0, -1.0, 0.5]))
    span = draw(st.sampled_from([1.0, 2.0]))
    tot = float(sum(incr))
    acc, ts = 0, [t0]
    for k in incr:
        acc += k
        ts.append(t0 + d * span * acc / tot)
    frac = draw(st.sampled_from([0.23, 0.37, 0.53, 0.71, 0.89]))          # never a grid point (increments are k/tot, k integer <= 24)
    tc = t0 + d * span * frac
    req = [draw(st.sampled_from([True, True, False])), draw(st.sampled_from([True, True, True, False]))]
    return {"m": draw(st.integers(1, 3)), "ts": ts, "tc": tc, "side": draw(st.sampled_from(["lt", "gt"])),
            "place": draw(st.sampled_from(["explicit", "nn", "mixed"])), "method": "rk45",
            "req": req, "y0req": draw(st.booleans()), "tsreq": draw(st.sampled_from([True, False])),
            "cot": draw(st.sampled_from(["dense", "last"])), "order": draw(st.sampled_from([1, 1, 2])),
            "loss": draw(st.sampled_from(["linear", "linear", "fit"])), "seed": draw(st.integers(0, 2 ** 31 - 1))}


# ------------------------------------------------------------------------------------------------------------------
# task dissipative: contracting dynamics over many e-folding times with many output times

DISS_NEFF = {"decay": 1, "relax": 2, "logistic": 2}


def diss_scaled(fam, eff, scale):
    return [eff[0] * scale] + list(eff[1:])


def diss_rhs(fam, d, y, p):
    """contracting (in the direction d = +-1 of the time grid) elementwise dynamics"""
    if fam == "decay":
        return -d * p[0] * y
    if fam == "relax":
        return -d * p[0] * (y - p[1])
    return d * p[0] * y * (1.0 - y / p[1])


def diss_exact(fam, d, ts, y0, p):
    tau = (d * (ts - ts[0])).unsqueeze(-1)          # >= 0
    if fam == "decay":
        return y0 * torch.exp(-p[0] * tau)
    if fam == "relax":
        return p[1] + (y0 - p[1]) * torch.exp(-p[0] * tau)
    return p[1] / (1.0 + (p[1] / y0 - 1.0) * torch.exp(-p[0] * tau))


def diss_grid(case):
    incr, d, span, t0 = case["incr"], case["dir"], case["span"], case["t0"]
    tot = float(sum(incr))
    acc, tv = 0, [t0]
    for k in incr:
        acc += k
        tv.append(t0 + d * span * acc / tot)
    # contraction rate x longest segment (generator-controlled): what the backward integration of y may amplify between two re-seedings
    LT = min(case["LT"], 6.0 * tot / max(incr))
    return tv, LT, LT * max(incr) / tot


def run_dissipative(case):
    """y' = -k y, y' = -k (y - c), y' = r y (1 - y/K) (all contracting with rate ~ L along the direction of the grid) over a span
    of L*T = 32..48 e-folding times with 9..13 output times, L*dt <= 6 per segment.  The sensitivities are those of the closed
    form.  The forward problem is contracting, the adjoint is contracting backwards; y itself is expanding backwards, by
    exp(L*dt) over one segment (accounted for in the tolerance) and by exp(L*T) ~ 1e7..1e13 over the whole span: the gradient
    integrands must be evaluated on the trajectory the forward pass stored at the requested times."""
    from xitorch.integrate import solve_ivp
    torch.manual_seed(0)
    fam = case["family"]
    m = case["m"]
    d = float(case["dir"])
    spec = case["spec"]
    form = case["form"]
    tvals, LT, hmax = diss_grid(case)
    g0 = gen.seeded(case["seed"])
    u = 0.6 + 0.4 * torch.rand((m,), generator=g0, dtype=DT)
    sgn = torch.where(torch.rand((m,), generator=g0, dtype=DT) < 0.5, -1.0, 1.0).to(DT)
    mag = 0.5 + torch.rand((m,), generator=g0, dtype=DT)
    rate = LT / case["span"] / abs(spec["scale"]) * u
    if fam == "decay":
        desired, y0_d = [rate], sgn * mag
    elif fam == "relax":
        c = 0.5 + torch.rand((m,), generator=g0, dtype=DT)
        desired, y0_d = [rate, c], c + sgn * mag
    else:
        K = 1.0 + torch.rand((m,), generator=g0, dtype=DT)
        desired, y0_d = [rate, K], K * (0.3 + 1.4 * torch.rand((m,), generator=g0, dtype=DT))
    nparts = min(2, m) if form == "tuple" else 1
    sizes = R.split_sizes(m, nparts)

    def core(xs, eff, scale):
        t, y = xs
        p = diss_scaled(fam, eff, scale)
        if form == "tensor":
            return diss_rhs(fam, d, y, p)
        out = diss_rhs(fam, d, torch.cat(list(y), dim=-1), p)
        return tuple(torch.split(out, sizes, dim=-1))
    su = Setup(core, desired, spec, case["req"])
    ts = torch.tensor(tvals, dtype=DT, requires_grad=bool(case["tsreq"]))
    if form == "tensor":
        y0 = y0_d.clone().requires_grad_(bool(case["y0req"]))
        y0_leaves, y0cat = [y0], y0
    else:
        y0_leaves = [p_.clone().requires_grad_(bool(case["y0req"])) for p_ in torch.split(y0_d, sizes, dim=-1)]
        y0 = tuple(y0_leaves)
        y0cat = torch.cat(y0_leaves, dim=-1)
    atol, rtol = 10.0 ** (-case["atol_e"]), 10.0 ** (-case["rtol_e"])
    atol_b, rtol_b = atol, rtol
    kwargs = {"method": case["method"], "atol": atol, "rtol": rtol}
    if case["btol_e"]:
        atol_b, rtol_b = 10.0 ** (-case["btol_e"][0]), 10.0 ** (-case["btol_e"][1])
        kwargs["bck_options"] = {"atol": atol_b, "rtol": rtol_b}
    labels = ["task=dissipative", "family=" + fam, "fwd=" + case["method"], "bck=" + ("tol" if case["btol_e"] else "same"), "form=" + form,
              "LT=%g" % LT, "nt=%d" % len(tvals), "dir=" + ("inc" if d > 0 else "dec"), "ragged=%s" % (len(set(case["incr"])) > 1),
              "span=%g" % case["span"], "t0=%g" % case["t0"]] + common_labels(case, spec)
    leaves_g = [l for l in su.leaves if l.requires_grad]
    wrt = leaves_g + (y0_leaves if case["y0req"] else []) + ([ts] if case["tsreq"] else [])
    names = ["leaf[%d]" % i for i, l in enumerate(su.leaves) if l.requires_grad] + \
            (["y0[%d]" % i for i in range(len(y0_leaves))] if case["y0req"] else []) + (["ts"] if case["tsreq"] else [])
    if not wrt:
        return discard("nothing_to_differentiate", labels)
    res = xt_call(solve_ivp, su.fcn, ts, y0, params=su.params, _where="forward", **kwargs)
    exact = diss_exact(fam, d, ts, y0cat, diss_scaled(fam, su.eff(), su.scale))
    if form == "tensor":
        got_outs, ref_outs = [res], [exact]
    else:
        got_outs, ref_outs = list(res), list(torch.split(exact, sizes, dim=-1))
    Y = float(exact.detach().abs().max())
    amp = float(torch.exp(torch.tensor(hmax, dtype=DT)))
    nseg = len(tvals) - 1

    def tol_fn(order, G, s1, s2):
        # the tolerance of task adaptive (one segment, L*T <= 2) x the number of segments x the growth of a y-error over one segment
        Z = 1.0 + Y + G
        return 2e3 * ((atol + rtol * Z) + (atol_b + rtol_b * Z)) * Z * amp * nseg / 4.0
    value_tol = 20.0 * 400 * (atol + rtol * Y) + 1e-12 * (1 + Y)
    gW = torch.Generator().manual_seed(case["seed"] ^ 0x2468ace)
    v, nonzero = compare(case, labels, got_outs, ref_outs, wrt, names, [1.0] * len(wrt), su.info["unused"], gW, tol_fn, value_tol)
    if v is not None:
        return v
    return ok(labels, nontrivial=nonzero and (bool(leaves_g) or case["tsreq"]))


@st.composite
def dissipative_st(draw, tier="quick"):
    # logistic: y integrated backwards without re-seeding escapes to infinity in finite time (a broken tree would hang, not fail): thorough tier only
    fam = draw(st.sampled_from(["relax", "relax", "decay"] + (["logistic"] if tier == "thorough" else [])))
    neff = DISS_NEFF[fam]
    spec = draw(spec_st(neff, KINDS_QUICK, scales=(1.0, 0.5, 2.0)))
    nseg = draw(st.integers(8, 12))
    ragged = draw(st.booleans())
    incr = [draw(st.integers(2, 3)) if ragged else 2 for _ in range(nseg)]
    return {"family": fam, "method": "rk45", "m": draw(st.integers(1, 3)), "form": draw(st.sampled_from(["tensor", "tensor", "tuple"])),
            "incr": incr, "dir": draw(st.sampled_from([1, 1, -1])), "span": draw(st.sampled_from([1.0, 3.0, 30.0, 0.1])),
            "t0": draw(st.sampled_from([0.0, 0.0, -3.0, 2.5])), "LT": draw(st.sampled_from([32.0, 40.0, 48.0])),
            "atol_e": 10, "rtol_e": 9, "btol_e": draw(st.sampled_from([None, None, [9, 8], [11, 10]])),
            "spec": spec, "req": [draw(st.sampled_from([True, True, True, False])) for _ in range(neff)],
            "y0req": draw(st.booleans()), "tsreq": draw(st.sampled_from([False, False, True])),
            "cot": draw(st.sampled_from(["dense", "dense", "dense", "last", "one"])), "cotk": draw(st.integers(0, 12)),
            "order": 1, "seed": draw(st.integers(0, 2 ** 31 - 1))}


# ------------------------------------------------------------------------------------------------------------------
# task shared_options: histories of solve_ivp calls that are given the SAME caller-held option dictionaries

FIXED4 = ("rk4", "rk38")
ADAPT = ("rk45", "rk23")
TOL_TIGHT = [(10, 9), (9, 8), (11, 10)]
TOL_RK23 = [(7, 6), (8, 6)]


def _tol_of(d):
    """(atol_e, rtol_e) stored in an option description, or None"""
    return tuple(d["tol_e"]) if d.get("tol_e") else None


def allowed_methods(bopt):
    """forward methods whose backward integration (backward options = the forward options of the call overridden by the content
    `bopt` of bck_options) is one this module has a derived tolerance for: an order-4 fixed-step (or, on constants, Euler)
    adjoint on a polynomial chain, or an adaptive adjoint on a closed-form family; an rk23 adjoint only at rk23-sized tolerances"""
    bm, bt = (bopt or {}).get("method"), _tol_of(bopt or {})
    if bm is None:
        return ["euler", "rk4", "rk38", "rk45", "rk45"] + (["rk23"] if bt is None or bt in TOL_RK23 else [])
    if bm in FIXED4:
        return ["euler", "rk4", "rk38"]
    return ["rk45", "rk45", "rk23"]


@st.composite
def bopt_st(draw):
    """content of the caller's bck_options dict: any subset of {method, atol+rtol}"""
    bm = draw(st.sampled_from([None, None, None, None, None, "rk45", "rk45", "rk23", "rk4", "rk38"]))
    if bm == "rk23":
        tol = (7, 6)
    else:
        tol = draw(st.sampled_from([None, None] + TOL_TIGHT + [(7, 6)]))
    return {"method": bm, "tol_e": list(tol) if tol else None}


@st.composite
def shared_options_st(draw, tier="quick"):
    ncalls = draw(st.sampled_from([2, 2, 3]))
    bmode = draw(st.sampled_from(["omitted", "kept", "kept", "kept", "edited"]))      # kept: one dict object, never touched by the caller
    defer = bmode != "edited" and draw(st.sampled_from([False, False, True]))
    bopt = draw(bopt_st()) if bmode != "omitted" else None
    calls = []
    for i in range(ncalls):
        if bmode == "edited" and i > 0:
            bopt = draw(bopt_st())
        allowed = allowed_methods(bopt)
        if calls and draw(st.sampled_from([True, True, True, False])):         # mostly: forward options that differ from the previous call's
            allowed = [m for m in allowed if m != calls[-1]["method"]] or allowed
        method = draw(st.sampled_from(allowed))
        bm = (bopt or {}).get("method") or method           # backward method in force
        bt = _tol_of(bopt or {})
        if method in ADAPT:
            if method == "rk23" or (bm == "rk23" and bt is None):
                tol_e = draw(st.sampled_from(TOL_RK23))
            else:
                tol_e = draw(st.sampled_from(TOL_TIGHT + [(6, 5)]))
            beff = None
            if bm != method or bt is not None:
                beff = {}
                if bm != method:
                    beff["method"] = bm
                if bt is not None:
                    beff["atol_e"], beff["rtol_e"] = bt
            sub = draw(adaptive_case_st(tier, method, tol_e, beff, 1))
            task = "adaptive"
        else:
            tol_e = None
            if method == "euler":
                chain = "const" if bm == "euler" else draw(st.sampled_from(["const", "quadz"]))
            else:
                chain = draw(st.sampled_from(["quad3", "chain2", "chain2t", "chain3"]))
            sub = draw(exact_chain_case_st(method, chain, bm if bm != method else None))
            task = "exact_chain"
        if not (any(sub["req"]) or sub["y0req"] or sub["tsreq"]):
            sub["y0req"] = True
        calls.append({"task": task, "method": method, "tol_e": list(tol_e) if tol_e else None,
                      "bopt": dict(bopt) if bopt is not None else None, "sub": sub})
    return {"calls": calls, "bmode": bmode, "defer": defer, "bwd_order": draw(st.permutations(list(range(ncalls)))) if defer else None}


def _apply_content(d, content):
    """the caller edits its dict object in place so that it holds exactly `content`"""
    for k in [k for k in d if k not in content]:
        del d[k]
    for k, v in content.items():
        d[k] = v


def run_shared_options(case):
    """A caller keeps ONE forward-options dict and ONE bck_options dict and passes them to 2-3 solve_ivp calls on unrelated
    problems, editing the forward dict (method, tolerances) - and in 'edited' histories the backward dict - between the calls;
    the backward passes run right after each call or, 'defer', after all forward calls in a drawn order.  Every call is judged
    with the closed form of its own problem at the tolerance of the options documented for THAT call: backward options = the
    forward options of the call overridden by what bck_options held when the call was made.  The caller's dicts must still
    hold what the caller put there."""
    import copy
    torch.manual_seed(0)
    calls = case["calls"]
    omitted = case["bmode"] == "omitted"
    fwd, bck = {}, {}
    parts, results, verdicts = [], [], [None] * len(calls)
    dict_bad = None
    labels = ["task=shared_options", "ncalls=%d" % len(calls), "bmode=" + case["bmode"], "defer=%s" % bool(case["defer"]),
              "seq=" + ">".join(c["method"] for c in calls),
              "bck0=" + ("omitted" if omitted else "+".join(k for k in ("method", "tol_e") if calls[0]["bopt"].get(k)) or "empty")]

    def dicts_intact(when):
        if fwd != want_f or (not omitted and bck != want_b):
            return ("%s: the caller's option dictionaries changed: fwd %r (was %r), bck_options %r (was %r)" % (when, fwd, want_f, bck, want_b))
        return None
    for i, c in enumerate(calls):
        content = {"method": c["method"]}
        if c["tol_e"]:
            content["atol"], content["rtol"] = 10.0 ** (-c["tol_e"][0]), 10.0 ** (-c["tol_e"][1])
        fwd.update(content)                 # a fixed-step call leaves the tolerances of an earlier adaptive call in the dict (ignored by the method)
        if not omitted and (i == 0 or case["bmode"] == "edited"):          # 'kept': the caller never touches its dict after creating it
            bo = c["bopt"]
            bcontent = {}
            if bo.get("method"):
                bcontent["method"] = bo["method"]
            if bo.get("tol_e"):
                bcontent["atol"], bcontent["rtol"] = 10.0 ** (-bo["tol_e"][0]), 10.0 ** (-bo["tol_e"][1])
            _apply_content(bck, bcontent)
        if i == 0 or case["bmode"] == "edited":
            want_b = copy.deepcopy(bck)
        want_f = copy.deepcopy(fwd)
        part = exact_chain_part(c["sub"]) if c["task"] == "exact_chain" else adaptive_part(c["sub"])
        res = part.forward(**fwd) if omitted else part.forward(bck_options=bck, **fwd)
        parts.append(part)
        results.append(res)
        dict_bad = dict_bad or dicts_intact("after the forward pass of call %d" % (i + 1))
        if not case["defer"]:
            verdicts[i] = part.judge(res)
            dict_bad = dict_bad or dicts_intact("after the backward pass of call %d" % (i + 1))
    if case["defer"]:
        for i in case["bwd_order"]:
            verdicts[i] = parts[i].judge(results[i])
            dict_bad = dict_bad or dicts_intact("after the (deferred) backward pass of call %d" % (i + 1))
    for i, v in enumerate(verdicts):
        if v.status == "violation":
            return violation("shared:" + v.kind, "call %d of the history %s (bck_options %s, %s): %s" % (
                i + 1, " > ".join("%s%s" % (c["method"], tuple(c["tol_e"]) if c["tol_e"] else "") for c in calls),
                "omitted" if omitted else [c["bopt"] for c in calls] if case["bmode"] == "edited" else calls[0]["bopt"],
                "backward passes deferred in order %s" % case["bwd_order"] if case["defer"] else "backward right after each call", v.detail), labels)
    if dict_bad:
        return violation("caller_options_changed", dict_bad, labels)
    differ = len({(c["method"], tuple(c["tol_e"] or ())) for c in calls}) > 1
    labels.append("fwd_options_differ=%s" % differ)
    return ok(labels, nontrivial=differ and all(v.status == "ok" for v in verdicts) and any(v.nontrivial for v in verdicts))


def tasks(tier):
    return [
        Task("exact_chain", strategy=exact_chain_st(tier), run=run_exact_chain, examples={"quick": 1400, "thorough": 14000}),
        Task("adaptive", strategy=adaptive_st(tier), run=run_adaptive, examples={"quick": 240, "thorough": 2000}),
        Task("fixed_conv", strategy=fixed_conv_st(tier), run=run_fixed_conv, examples={"quick": 180, "thorough": 1500}),
        Task("switched", strategy=switched_st(tier), run=run_switched, examples={"quick": 200, "thorough": 2000}),
        Task("shared_options", strategy=shared_options_st(tier), run=run_shared_options, examples={"quick": 160, "thorough": 1600}),
        Task("dissipative", strategy=dissipative_st(tier), run=run_dissipative, examples={"quick": 120, "thorough": 1000}),
    ]
