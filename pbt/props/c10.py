"""C10 — functionals never leave the caller's objects modified, even on failure (level: fault_enumeration).

Task `faults`: a *scenario* is drawn by Hypothesis (functional x method x function kind / operator kind x phase in
{forward, backward, double backward} x prior debug flag x enable_debug/disable_debug context).  A dry run on freshly built
objects measures N = number of evaluations of the user's function (or of the user's LinearOperator products) up to the end
of the chosen phase.  Then EVERY crash index k = 1..N is enumerated: fresh objects, the k-th evaluation raises
`InjectedFault`.  After the dry run and after each crashed run the oracle checks

  (a) the exception that reaches the caller is the injected one (type InjectedFault, not wrapped, not swallowed);
  (b) a snapshot of everything the caller handed in (module / EditableModule / LinearOperator and every tensor reachable
      from them, the explicit tensors): identity, value, type (Parameter vs Tensor), requires_grad of every tensor, the
      ordered registration lists of every nn.Module (_parameters, named_parameters(), buffers, sub-modules), container shapes;
  (c) xitorch.is_debug_enabled() has the value it had before the call;
  (d) a caller-held PureFunction (make_sibling) has an empty restore stack and state changes enabled;
  (e) behaviourally: the object evaluates to the same values as before, and the same functional call repeated on the same
      objects without fault runs and returns bit-identical results (and again leaves (b)-(d) intact).

Round 3: objects holding tensors of other dtypes next to float64 (kind em_mixed), arbitrary name -> tensor maps for EditableModules
(em_map), user LinearOperators (map) and composed operators (comp); a fault-free call that xitorch itself fails must leave the state
intact as well (kind `...:failed_call`) before it is discarded.

Task `nesting`: a Hypothesis RuleBasedStateMachine over useobjparams / uselinopparams / enable_debug / disable_debug
(push with identical, fresh, aliased tensors; pop; evaluate; raise inside and unwind d levels), executed with real nested
`with` blocks; the model is a Python stack.
"""
from __future__ import annotations

import contextlib
import io

import torch
from hypothesis import strategies as st
from hypothesis.stateful import RuleBasedStateMachine, rule, initialize

from pbt import gen
from pbt import ref_c10 as R
from pbt.gen import InjectedFault
from pbt.harness import Task, ok, violation, discard

PID = "C10"
LEVEL = "fault_enumeration"
EXHAUSTIVE = True
NMAX = 600
RULE = ("faults: scenario = functional {rootfinder, equilibrium, minimize, solve_ivp, quad, mcquad, jac, hess, solve(jac), solve, symeig} x method x "
        "function kind {pure, nn.Module flat/nested/tied, EditableModule attrs/containers/held nn.Module (complete or partial+reordered listing), "
        "one/two siblings, em_mixed = EditableModule holding 1..3 tensors of other dtypes (bfloat16, float16, float32, float64, complex64/128, "
        "int32/64, uint8, bool, float8) declared or undeclared, as attribute / list item / dict item / Parameter of a held nn.Module, at drawn "
        "places of the attribute order and of the name list, em_map = EditableModule whose 1..7 declared names (attributes, list and dict "
        "items) map onto 1..4 distinct tensors by an arbitrary drawn surjection, both also through a caller-held sibling wrapper} or user LinearOperator kind {attributes, aliased attributes, "
        "containers, held nn.Module, map = 1..7 names onto 1..4 distinct tensors (arbitrary surjection), comp = composite (matmul / + / "
        "scalar * / .H with drawn association) of 1..7 user leaf operators sharing 1..4 distinct tensors (debug mode off for comp)} x 4 "
        "product-method subsets x "
        "phase {forward, backward, double backward} x prior debug flag x {no context, enable_debug, disable_debug}; N = evaluations of the user "
        "function / operator products measured by a dry run; EVERY crash index k=1..N is executed (scenarios with N > %d are discarded and "
        "counted, none occurs at the generated sizes), so each counted scenario is enumerated exhaustively; after every k: exception, snapshot, "
        "debug flag, restore stack, evaluation probe; the repeated call after every k if N <= 16, else after the indices of followup_indices(). "
        "A fault-free call that xitorch itself fails is discarded and counted, after the same state checks (kind ...:failed_call). "
        "nesting: state machine of <= 14 "
        "(thorough 24) push/pop/evaluate/raise-and-unwind steps over useobjparams, uselinopparams, enable_debug, disable_debug, followed by one "
        "identical substitution of both kinds; targets: EditableModule (plain, aliased, containers, held nn.Module, sibling, em_map = arbitrary "
        "surjection of 1..7 names onto 1..4 tensors), nn.Module (plain, tied) and a user LinearOperator (plain, aliased, map, comp as above). "
        "faults_dbgflag / faults_dtypes: the same scenario strategy and enumeration restricted to two thin corners (operator functional with the "
        "debug flag on as the caller's global setting and no context manager; em_mixed objects with the debug-mode parameter check active). "
        "reassign: history forward call -> the caller puts a new tensor under one of its object's names -> backward (first / second order) for "
        "rootfinder, equilibrium, minimize, mcquad, quad (tensor limits differentiated) and solve_ivp (five methods, both grid directions, time "
        "points and initial state differentiated): the object keeps the caller's new tensor and all gradients equal those of the undisturbed run. "
        "reassign_linop: the same history for solve / symeig on the caller's operator object (wrapped dense matrix: attribute mat; own operator "
        "class), all methods, Hermitian or not, first / second order. "
        "sharedmem: the object holds two DISTINCT tensor objects viewing one storage (detach / .data / view_as / full slice handle, or two "
        "Parameters made from one storage), names listed in a drawn order: identity, flags, registration and values after forward, backward and "
        "second backward, and results equal to those of a twin whose second tensor has its own storage. "
        "Non-trivial = scenario with N >= 1 whose objects hold at least one tensor that xitorch substitutes (object kind != pure), resp. history "
        "with >= 2 nested substitutions; distinct by canonical scenario / history." % NMAX)
ASSUMPTIONS = [
    "faults are Python exceptions raised by the user's callable / operator product at an evaluation boundary (no asynchronous interrupts)",
    "float64, <= 4 unknowns, <= 5 solver iterations (quick): state handling does not depend on sizes",
    "xitorch's own bookkeeping attributes on EditableModule objects (_paramnames_, _unique_params_*, _number_of_params) are not part of the "
    "caller's state; attribute order of plain Python objects is not compared (only nn.Module registration order is)",
    "results of the repeated call are compared bit-for-bit with the dry run (same inputs, same seeds, single thread)",
    "in debug mode LinearOperator.check() reports an exception of the operator's products as a RuntimeError carrying the original traceback "
    "(documented): accepted as propagation of the fault; everywhere else the caller must receive the InjectedFault object's own type",
    "useobjparams / uselinopparams are given plain tensors (what the functionals pass) or the current objects themselves",
    "an object may hold tensors of any dtype; a name declared in getparamnames refers to a tensor of any dtype outside debug mode, while in "
    "debug mode assertparams documents that it refuses declared tensors other than float16/32/64 (GetSetParamsError): such scenarios are "
    "kept at a quarter of their natural rate, checked for intact state after the refusal, and counted as discards; undeclared tensors of "
    "other dtypes never require gradients (constants of the method)",
    "declared names may refer to the same tensor in any pattern (the functionals substitute each distinct tensor once); leaf operators of a "
    "composite are diagonal (commuting, symmetric), so every product node may truthfully be flagged Hermitian; a leaf used through .H is "
    "declared with is_hermitian=False (the flag only enables short-cuts)",
    "nesting: the operator product is compared with the same sum of products in plain tensor algebra, tolerance 1e-12 x (1 + the expression "
    "evaluated at absolute values), i.e. ~4500 eps for <= 20 roundings",
]
LEVEL_TEXT = ("Fault enumeration: for every generated scenario the crash index ranges over ALL evaluations of the user's code measured by a dry "
              "run (exhaustive per scenario), with a structural + behavioural snapshot oracle after each run; nesting of the substitution "
              "contexts is explored with a model-based state machine. The scenario space itself is sampled (exploration).")
LEVEL_NOTE = ("exhaustive over crash indices per scenario, sampled over scenarios; injects Python exceptions at evaluation boundaries only; "
              "trusts Python object identity and torch.equal")
TECHNIQUE = ("Hypothesis-generated scenarios + exhaustive fault injection at every user-code evaluation (dry-run measured), snapshot/behavioural "
             "oracle; RuleBasedStateMachine with a stack model for nested substitutions")
WALL = {"quick": 300, "thorough": 1500}


# =============================================================================================== faults

def _dbg_ctx(name):
    import xitorch
    if name == "enable":
        return xitorch.enable_debug()
    if name == "disable":
        return xitorch.disable_debug()
    return contextlib.nullcontext()


def _execute(pb, case):
    """one call of the scenario (forward .. chosen phase) under the scenario's debug set-up"""
    torch.manual_seed(case.get("seed", 0) & 0xFFFF)
    with contextlib.redirect_stdout(io.StringIO()):     # assertparams prints in debug mode
        with _dbg_ctx(case.get("dbg_ctx")):
            return R.run_phases(pb, case["phase"])


def _state_checks(pb, before, prior, where):
    """(b), (c), (d): returns (kind, detail) or None"""
    import xitorch
    d = R.diff_snapshots(before, R.snapshot(pb.roots))
    if d is not None:
        return ("left_modified:%s:%s" % (d[0], where), d[1])
    if bool(xitorch.is_debug_enabled()) != bool(prior):
        return ("debug_flag:" + where, "is_debug_enabled() is %r, was %r before the call" % (xitorch.is_debug_enabled(), prior))
    for pf in pb.pfuncs:
        if len(pf._restore_stack) != 0:
            return ("restore_stack_nonempty:" + where, "caller-held PureFunction has %d entries on its restore stack" % len(pf._restore_stack))
        if not pf._state_change_allowed:
            return ("state_change_locked:" + where, "caller-held PureFunction is left with state changes disabled")
    return None


def _documented_wrapper(e):
    """LinearOperator.check() (run by solve/symeig/svd in debug mode) documents: 'RuntimeError: raised if there is an error when
    evaluating the .mv, .mm, .rmv, or .rmm methods' - it reports the user's exception (with its traceback) as a RuntimeError.
    Accepted only in that form: RuntimeError raised while handling the injected fault, carrying its traceback text."""
    return (type(e) is RuntimeError and isinstance(e.__context__, InjectedFault)
            and "An error is raised from ." in str(e) and "InjectedFault" in str(e))


def _scenario_labels(case):
    f = case["functional"]
    out = ["functional=" + f, "method=%s/%s" % (f, case["method"]), "phase=%d" % case["phase"],
           "debug=%s/%s" % (case.get("dbg_prior"), case.get("dbg_ctx"))]
    if "spec" in case:
        out.append("kind=" + case["spec"]["kind"] + ("/sibling" if case["spec"].get("sib") else ""))
    if "lkind" in case:
        out.append("linop=%s/%s" % (case["lkind"], case.get("impl")))
    for ex in case.get("spec", {}).get("extras", []):
        lab = "other_dtype=%s/%s/%s" % (ex["dt"], "declared" if ex.get("decl") else "undeclared", ex["where"])
        if lab not in out:
            out.append(lab)
    amap = case.get("amap") or case.get("spec", {}).get("amap")
    if amap is not None:
        out.append("names->tensors=%d->%d" % (len(amap), max(amap) + 1))
        out.append("alias_pattern=" + alias_class(amap))
    return out


def alias_class(amap):
    """none: all names distinct; early: every repeated tensor is first seen before any repetition; late: some tensor is first seen
    after a repetition of another one and is itself repeated later (e.g. [p, p, q, r, q])"""
    if len(set(amap)) == len(amap):
        return "none"
    seen, repeated = set(), False
    for k, u in enumerate(amap):
        if u in seen:
            repeated = True
        else:
            if repeated and u in amap[k + 1:]:
                return "late"
            seen.add(u)
    return "early"


def run_faults(case):
    import xitorch
    torch.manual_seed(0)
    labels = _scenario_labels(case)
    prior = bool(case.get("dbg_prior"))
    try:
        return _run_faults(case, labels, prior)
    finally:
        xitorch.set_debug_mode(False)


def followup_indices(N, marks):
    """crash indices after which the same call is REPEATED on the same objects (check (e), second half).  Checks (a)-(d) and the
    evaluation probe are made after every k; the repeated call costs a full run, so for N > 16 it is made after k = 1, 2, 3, the
    two indices around every stage boundary, N-1, N and every ceil(N/8)-th index."""
    if N <= 16:
        return set(range(1, N + 1))
    step = -(-N // 8)
    out = {1, 2, 3, N - 1, N} | set(range(step, N + 1, step))
    for m in marks:
        out |= {m, m + 1}
    return {k for k in out if 1 <= k <= N}


def _after_run(pb, case, before, prior, probe0, res0, where, labels, k, repeat=True):
    chk = _state_checks(pb, before, prior, where)
    if chk is not None:
        return violation(chk[0], "%s [crash index %s of the user code]" % (chk[1], k), labels)
    # (e) behaviour: same evaluation, same result of a repeated call
    pb.counter.fail_at = None
    try:
        probe1 = pb.probe()
    except Exception as e:  # noqa: BLE001 - the caller's own object fails to evaluate after the call
        return violation("behaviour_raises:" + where, "evaluating the caller's object after the call raised %s: %s [crash index %s]" % (
            type(e).__name__, e, k), labels)
    msg = R.same_results(probe0, probe1)
    if msg is not None:
        return violation("behaviour_changed:" + where, "the caller's object evaluates differently after the call: %s [crash index %s]" % (msg, k), labels)
    if not repeat:
        return None
    try:
        res1 = _execute(pb, case)
    except Exception as e:  # noqa: BLE001 - a repeated call on the same objects must work as the first one did
        return violation("followup_raises:%s:%s" % (type(e).__name__, where),
                         "the same call repeated on the same objects raised %s: %s [after crash index %s]" % (type(e).__name__, e, k), labels)
    msg = R.same_results(res0, res1)
    if msg is not None:
        return violation("followup_differs:" + where, "the same call repeated on the same objects: %s [after crash index %s]" % (msg, k), labels)
    chk = _state_checks(pb, before, prior, "followup")
    if chk is not None:
        return violation(chk[0], "%s [repeated call after crash index %s]" % (chk[1], k), labels)
    return None


def _run_faults(case, labels, prior):
    import xitorch
    # ------------------------------------------------------------------ dry run
    xitorch.set_debug_mode(prior)
    pb = R.build_problem(case, gen.Counter())
    before = R.snapshot(pb.roots)
    probe0 = pb.probe()
    try:
        res0 = _execute(pb, case)
    except Exception as e:  # noqa: BLE001 - a fault-free call failing is another property's business (C01..C09, C13, C16, C17) ...
        # ... but not what it leaves behind: a call that xitorch rejects / fails (e.g. the debug-mode check refusing a declared
        # tensor of a non-floating dtype) must leave the caller's objects and the debug flag as they were, too
        chk = _state_checks(pb, before, prior, "failed_call")
        if chk is not None:
            return violation(chk[0], "%s [the fault-free call raised %s: %s]" % (chk[1], type(e).__name__, str(e)[:200]), labels)
        if type(e).__name__ == "GetSetParamsError" and "non-floating point tensor" in str(e) and any(
                ex.get("decl") and ex["dt"] not in R.DECLARABLE_DTYPES for ex in case.get("spec", {}).get("extras", [])):
            return discard("debug_check_refuses_declared_dtype(documented)", labels)
        return discard("dry_run_raised:%s" % type(e).__name__, labels)
    N = pb.counter.n
    marks = list(pb.marks)
    labels.append("N=%s" % ("0" if N == 0 else "1-4" if N <= 4 else "5-16" if N <= 16 else "17-64" if N <= 64 else "65+"))
    if N > NMAX:
        return discard("N_exceeds_bound", labels)
    v = _after_run(pb, case, before, prior, probe0, res0, "completed", labels, "-")
    if v is not None:
        return v
    # ------------------------------------------------------------------ every crash index
    stages = set()
    fu = followup_indices(N, marks)
    for k in range(1, N + 1):
        xitorch.set_debug_mode(prior)
        pb = R.build_problem(case, gen.Counter(fail_at=k))
        before = R.snapshot(pb.roots)
        stage = "forward" if k <= marks[0] else "backward" if len(marks) < 2 or k <= marks[1] else "backward2"
        stages.add(stage)
        where = "crashed_in_" + stage
        try:
            _execute(pb, case)
        except InjectedFault as e:
            if type(e) is not InjectedFault:
                return violation("fault_type_changed", "%r reached the caller instead of InjectedFault [crash index %d]" % (type(e), k), labels)
        except Exception as e:  # noqa: BLE001
            if _documented_wrapper(e):
                if "fault_reported_by=LinearOperator.check" not in labels:
                    labels.append("fault_reported_by=LinearOperator.check")
            else:
                return violation("fault_replaced:%s:%s" % (type(e).__name__, where),
                                 "the user's exception was replaced by %s: %s [crash index %d of %d]" % (type(e).__name__, str(e)[:300], k, N), labels)
        else:
            return violation("fault_swallowed:" + where, "the user's code raised at evaluation %d of %d but the call returned normally" % (k, N), labels)
        v = _after_run(pb, case, before, prior, probe0, res0, where, labels, k, repeat=(k in fu))
        if v is not None:
            return v
    labels += ["fault_in=" + s for s in sorted(stages)]
    labels.append("exhaustive=yes")
    substituted = case.get("spec", {}).get("kind", "op") != "pure"
    return ok(labels, nontrivial=(N >= 1 and substituted))


# ------------------------------------------------------------------------------------------ scenario strategy

FAULT_KINDS = gen.OBJ_KINDS * 2 + R.EXTRA_KINDS * 3 + ["pure"] + ["em_mixed"] * 5 + ["em_map"] * 3
FAULT_LINOP_KINDS = R.LINOP_KINDS + ["map", "comp", "comp"]
# other-dtype tensors an object may hold; every class (low-precision float, float8, complex, integer, bool) next to float64
EXTRA_DTYPES = ["bfloat16"] * 3 + ["float16"] * 3 + ["float32"] * 2 + ["float64", "complex128", "complex64", "int64", "int32", "uint8", "bool",
                                                                        "float8_e5m2", "float8_e4m3fn"]


@st.composite
def amap_st(draw, min_names=1, max_names=7, max_tensors=4):
    """name -> tensor map: an arbitrary surjection of 1..7 names onto 1..4 distinct tensors, numbered by first occurrence"""
    K = draw(st.sampled_from([k for k in (1, 2, 3, 4, 5, 5, 6, 6, 7, 7) if min_names <= k <= max_names]))
    raw = draw(st.lists(st.integers(0, max_tensors - 1), min_size=K, max_size=K))
    return R.canon_map(raw)


@st.composite
def tree_st(draw, K):
    return {"cuts": draw(st.lists(st.integers(0, 1), min_size=K - 1, max_size=K - 1)),
            "adj": draw(st.lists(st.sampled_from([0, 0, 0, 1]), min_size=K, max_size=K)),
            "scl": draw(st.lists(st.sampled_from([0, 0, 1, 2]), min_size=K, max_size=K)),
            "assoc": draw(st.integers(0, 255)), "dense": draw(st.booleans())}


@st.composite
def scenario_st(draw, tier="quick", focus=None):
    """focus=None: the general scenario distribution. Two thin corners of it get their own small task (same scenario space, same
    oracle, other weights), because a run of the general task holds only a handful of them:
    focus="dbgflag": an operator functional with the debug flag ON as the caller's own global setting (no context manager that
                     would put it back), faults in every phase -- 'the global debug flag has its previous value';
    focus="dtypes":  an object holding tensors of other dtypes (em_mixed) with the debug-mode parameter check active."""
    if focus == "dbgflag":
        functional = draw(st.sampled_from(R.OP_FUNCTIONALS))
    elif focus == "dtypes":
        functional = draw(st.sampled_from(R.FCN_FUNCTIONALS))
    else:
        functional = draw(st.sampled_from(R.FCN_FUNCTIONALS + R.FCN_FUNCTIONALS + R.OP_FUNCTIONALS * 3))
    method = draw(st.sampled_from(R.METHODS[functional]))
    case = {"functional": functional, "method": method, "phase": draw(st.sampled_from([0, 1, 1, 2, 2])),
            "seed": draw(st.integers(0, 2 ** 31 - 1)),
            "dbg_prior": draw(st.sampled_from([False, False, False, True])),
            "dbg_ctx": draw(st.sampled_from([None, None, "enable", "enable", "disable"]))}
    if focus == "dbgflag":
        case["dbg_prior"], case["dbg_ctx"] = True, None
        case["phase"] = draw(st.sampled_from([1, 1, 2]))
    elif focus == "dtypes":
        case["dbg_prior"], case["dbg_ctx"] = draw(st.sampled_from([(True, None), (False, "enable"), (True, "enable")]))
    big = tier != "quick"
    if functional in R.FCN_FUNCTIONALS:
        spec = draw(gen.funspec_st(2, 2, kinds=(["em_mixed"] if focus == "dtypes" else FAULT_KINDS),
                                   allow_unused=(functional != "mcquad")))
        if spec["kind"] == "em_nn_part":
            spec["reverse"] = draw(st.booleans())
        if spec["kind"] in R.EXTRA_KINDS_R3:
            spec["sib"] = draw(st.sampled_from([False, False, False, True]))    # called through a caller-held make_sibling wrapper
        if spec["kind"] == "em_mixed":
            # 1..3 tensors of other dtypes: declared in getparamnames (at a drawn place of the list) or not, held as attribute / list
            # item / dict item / Parameter of a held nn.Module, inserted at a drawn place of the attribute order
            spec["extras"] = [{"dt": draw(st.sampled_from(EXTRA_DTYPES)), "decl": draw(st.sampled_from([False, False, True])),
                               "where": draw(st.sampled_from(["attr", "attr", "attr", "list", "dict", "mod"])),
                               "pos": draw(st.integers(0, 5)), "declpos": draw(st.integers(0, 5)), "req": draw(st.booleans())}
                              for _ in range(draw(st.integers(1, 3)))]
            for ex in spec["extras"]:
                # a parameter of a method is a tensor one can compute with and differentiate through: float8 tensors (no arithmetic)
                # are held undeclared only, complex ones are declared only where no backward pass of the real-valued problem follows
                if ex["dt"].startswith("float8") or (ex["dt"].startswith("complex") and case["phase"] > 0):
                    ex["decl"] = False
            if case["dbg_ctx"] == "enable" or (case["dbg_prior"] and case["dbg_ctx"] != "disable"):
                # the debug-mode check documents that it refuses a declared tensor of a dtype other than float16/32/64
                # (GetSetParamsError): only a quarter of such scenarios keep the declaration (the refusal must leave the object intact)
                for ex in spec["extras"]:
                    if ex["decl"] and ex["dt"] not in R.DECLARABLE_DTYPES and not draw(st.sampled_from([True, False, False, False])):
                        ex["decl"] = False
        if spec["kind"] == "em_map":
            spec["amap"] = draw(amap_st())
            spec["nwhere"] = [draw(st.sampled_from([0, 0, 0, 1, 2])) for _ in spec["amap"]]
            nheld = max(spec["amap"]) + 1
            for j in range(len(spec["explicit"])):      # no more object-held tensors of the function than distinct tensors
                if not spec["explicit"][j]:
                    if nheld == 0:
                        spec["explicit"][j] = True
                    else:
                        nheld -= 1
        case["spec"] = spec
        case["m"] = draw(st.integers(1, 3))
        r0 = draw(st.booleans())
        case["req"] = [r0, (not r0) or draw(st.booleans())]
        case["maxiter"] = draw(st.integers(1, 8 if big else 4))
        if functional == "solve_ivp":
            case["nt"] = draw(st.integers(2, 4 if big else 3))
            case["tsdir"] = draw(st.sampled_from([1, 1, -1]))
        if functional == "quad":
            case["n"] = draw(st.integers(2, 6 if big else 4))
            case["limgrad"] = draw(st.booleans())
        if functional == "mcquad":
            case["role"] = draw(st.sampled_from(["f", "p"]))
            case["ns"] = draw(st.integers(2, 8 if big else 4))
    else:
        case["lkind"] = draw(st.sampled_from([k for k in FAULT_LINOP_KINDS if k != "comp"] if focus == "dbgflag" else FAULT_LINOP_KINDS))
        case["impl"] = draw(st.sampled_from(R.LINOP_IMPLS))
        if case["lkind"] in R.LINOP_KINDS_R3:
            case["amap"] = draw(amap_st())
            if case["lkind"] == "comp":
                case["tree"] = draw(tree_st(len(case["amap"])))
                # the debug-mode operator check makes ~200 products per leaf: N would exceed the enumeration bound; aliasing
                # under debug mode is covered by the one-operator kinds (alias, map)
                case["dbg_prior"] = False
                case["dbg_ctx"] = None if case["dbg_ctx"] == "enable" else case["dbg_ctx"]
        case["n"] = draw(st.integers(2, 4 if big else 3))
        r0 = draw(st.booleans())
        case["req"] = [r0, (not r0) or draw(st.booleans())]
        case["maxiter"] = draw(st.integers(1, 6 if big else 3))
        case["useM"] = draw(st.booleans())
        if functional == "solve":
            case["useE"] = draw(st.booleans())
            case["ncols"] = draw(st.integers(1, 2))
            case["breq"] = draw(st.booleans())
            case["hermitian"] = draw(st.booleans())
        else:
            case["neig"] = draw(st.integers(1, 2))
            case["mode"] = draw(st.sampled_from(["lowest", "uppest"]))
    return case


# =============================================================================================== nesting (state machine)

NEST_KINDS = ["em", "em_alias", "nn", "nn_tied", "em_nn", "sib_em", "em_map", "em_map"]
NEST_LINOPS = ["plain", "alias", "map", "comp"]


NEST_EPILOGUE = [["push_lin", "identical", 0], ["push_obj", "identical", 0], ["eval"], ["pop"], ["pop"]]


class _Unwind(InjectedFault):
    def __init__(self, levels):
        super().__init__("unwind %d" % levels)
        self.levels = levels


def _build_nest_target(kind, g, amap=None):
    """returns (pf, slots, evaluate, roots): slots = ordered list of (name, getter) - one per *name* the pure function
    substitutes (tied/aliased names share an object); evaluate(x) = sum_j w_j(x) * tensor_j over the names in order."""
    import xitorch
    from xitorch._core.pure_function import get_pure_function
    from xitorch._utils.attr import get_attr

    def T(shape=(2,)):
        return torch.randn(shape, generator=g, dtype=R.DT)

    def weights(x, j):
        return torch.cos(x * (j + 1.0))

    if kind == "em_map":
        # K declared names (attributes, list items, dict items) over U distinct tensors: amap is an arbitrary surjection
        K = len(amap)
        Ts = [T().requires_grad_(u % 2 == 0) for u in range(max(amap) + 1)]
        names = [("a%d" % k) if k % 4 in (0, 2) else ("lst[%d]" % (k // 4)) if k % 4 == 1 else ("dct['k%d']" % k) for k in range(K)]

        class EMM(xitorch.EditableModule):
            def __init__(self):
                self.lst = [Ts[amap[k]] for k in range(K) if k % 4 == 1]
                for k in range(K):
                    if k % 4 in (0, 2):
                        setattr(self, "a%d" % k, Ts[amap[k]])
                self.dct = {"k%d" % k: Ts[amap[k]] for k in range(K) if k % 4 == 3}

            def f(self, x):
                return sum((weights(x, j) * get_attr(self, nm)).sum() for j, nm in enumerate(names))

            def getparamnames(self, methodname, prefix=""):
                return [prefix + nm for nm in names]
        obj = EMM()
        slots = [(nm, (lambda nm=nm: get_attr(obj, nm))) for nm in names]
        return get_pure_function(obj.f), slots, obj.f, [("obj", obj)]
    if kind in ("em", "em_alias", "sib_em"):
        class EM(xitorch.EditableModule):
            def __init__(self):
                self.a = T().requires_grad_()
                self.c = T() * 2.0
                self.c2 = self.c if kind == "em_alias" else T()
                self.lst = [T(), T()]
                self.dct = {"k": self.lst[1] if kind == "em_alias" else T()}

            def f(self, x):
                ts = [self.a, self.c, self.c2, self.lst[0], self.dct["k"]]
                return sum((weights(x, j) * t).sum() for j, t in enumerate(ts))

            def getparamnames(self, methodname, prefix=""):
                return [prefix + n for n in ["a", "c", "c2", "lst[0]", "dct['k']"]]
        obj = EM()
        slots = [("a", lambda: obj.a), ("c", lambda: obj.c), ("c2", lambda: obj.c2), ("lst[0]", lambda: obj.lst[0]),
                 ("dct['k']", lambda: obj.dct["k"])]
        roots = [("obj", obj)]
        if kind == "sib_em":
            @xitorch.make_sibling(obj.f)
            def sib(x):
                return obj.f(x)
            return sib, slots, sib, roots
        return get_pure_function(obj.f), slots, obj.f, roots
    if kind in ("nn", "nn_tied"):
        class Sub(torch.nn.Module):
            def __init__(self):
                super().__init__()
                self.w = torch.nn.Parameter(T())

        class NN(torch.nn.Module):
            def __init__(self):
                super().__init__()
                self.p0 = torch.nn.Parameter(T())
                self.p1 = torch.nn.Parameter(T(), requires_grad=False)
                if kind == "nn_tied":
                    self.p2 = self.p0
                self.sub = Sub()
                self.register_buffer("buf", torch.ones((2,), dtype=R.DT))

            def forward(self, x):
                ts = [self.p0, self.p1] + ([self.p2] if kind == "nn_tied" else []) + [self.sub.w]
                return sum((weights(x, j) * t).sum() for j, t in enumerate(ts)) * self.buf[0]
        obj = NN()
        slots = [("p0", lambda: obj.p0), ("p1", lambda: obj.p1)] + ([("p2", lambda: obj.p2)] if kind == "nn_tied" else []) + \
                [("sub.w", lambda: obj.sub.w)]
        return get_pure_function(obj), slots, obj, [("obj", obj)]
    if kind == "em_nn":
        class Holder(torch.nn.Module):
            def __init__(self):
                super().__init__()
                self.z0 = torch.nn.Parameter(T())
                self.p0 = torch.nn.Parameter(T())
                self.z1 = torch.nn.Parameter(T())
                self.p1 = torch.nn.Parameter(T())

        class EMNN(xitorch.EditableModule):
            def __init__(self):
                self.mod = Holder()
                self.t = T()

            def f(self, x):
                ts = [self.mod.p1, self.t, self.mod.p0]
                return sum((weights(x, j) * t).sum() for j, t in enumerate(ts))

            def getparamnames(self, methodname, prefix=""):
                return [prefix + n for n in ["mod.p1", "t", "mod.p0"]]
        obj = EMNN()
        slots = [("mod.p1", lambda: obj.mod.p1), ("t", lambda: obj.t), ("mod.p0", lambda: obj.mod.p0)]
        return get_pure_function(obj.f), slots, obj.f, [("obj", obj), ("mod", obj.mod)]
    raise ValueError(kind)


def _build_nest_linop(alias, g, lkind=None, lmap=None, ltree=None):
    """returns (operator, slots, expect): slots = (name, getter) per parameter name of the operator in the order of its name list,
    expect(tensors, x) = the product the operator must give when the names hold `tensors` (plain tensor algebra)"""
    import xitorch
    if lkind in ("map", "comp"):
        K = len(lmap)
        Ts = [torch.randn((2,), generator=g, dtype=R.DT).requires_grad_(u % 2 == 1) for u in range(max(lmap) + 1)]
    if lkind == "map":
        # one operator, K names q0..q{K-1} over U distinct tensors
        class MapOp(xitorch.LinearOperator):
            def __init__(self):
                super().__init__(shape=(2, 2), is_hermitian=True, dtype=R.DT)
                for k in range(K):
                    setattr(self, "q%d" % k, Ts[lmap[k]])

            def _mv(self, x):
                return sum((k + 1.0) * getattr(self, "q%d" % k) for k in range(K)) * x

            def _getparamnames(self, prefix=""):
                return [prefix + "q%d" % k for k in range(K)]
        mop = MapOp()
        return (mop, [("q%d" % k, (lambda k=k: getattr(mop, "q%d" % k))) for k in range(K)],
                lambda ts, x: sum((k + 1.0) * t for k, t in enumerate(ts)) * x)
    if lkind == "comp":
        # a composite (matmul / + / scalar * / .H) of K diagonal leaf operators sharing U distinct tensors
        class Leaf(xitorch.LinearOperator):
            def __init__(self, d, herm):
                super().__init__(shape=(2, 2), is_hermitian=herm, dtype=R.DT)
                self.d = d

            def _mv(self, x):
                return self.d * x

            def _getparamnames(self, prefix=""):
                return [prefix + "d"]
        leaves = {}

        def mkleaf(k, use_adj):
            leaves[k] = Leaf(Ts[lmap[k]], not use_adj)
            return leaves[k].H if use_adj else leaves[k]
        cop = R.compose(K, ltree, mkleaf, False)
        terms, _, _, factors = R.comp_structure(K, ltree)

        def expect(ts, x):
            out = 0.0
            for term, f in zip(terms, factors):
                prod = x
                for k in term:
                    prod = ts[k] * prod
                out = out + f * prod
            return out
        return cop, [("leaf%d.d" % k, (lambda k=k: leaves[k].d)) for k in range(K)], expect

    class Op(xitorch.LinearOperator):
        def __init__(self):
            super().__init__(shape=(2, 2), dtype=R.DT)
            self.P = torch.randn((2, 2), generator=g, dtype=R.DT)
            self.d = torch.randn((2,), generator=g, dtype=R.DT).requires_grad_()
            self.d2 = self.d if alias else torch.randn((2,), generator=g, dtype=R.DT)

        def _mv(self, x):
            return torch.matmul(self.P, x.unsqueeze(-1)).squeeze(-1) + (self.d + 2.0 * self.d2) * x

        def _getparamnames(self, prefix=""):
            return [prefix + "P", prefix + "d", prefix + "d2"]
    op = Op()
    slots = [("P", lambda: op.P), ("d", lambda: op.d), ("d2", lambda: op.d2)]
    return op, slots, (lambda ts, x: torch.matmul(ts[0], x.unsqueeze(-1)).squeeze(-1) + (ts[1] + 2.0 * ts[2]) * x)


def _unique_pattern(objs):
    """model of the name -> unique-slot mapping: first occurrences by identity, in order"""
    first, pattern = [], []
    for o in objs:
        for u, f in enumerate(first):
            if f is o:
                pattern.append(u)
                break
        else:
            pattern.append(len(first))
            first.append(o)
    return pattern, first


def run_nesting(case):
    import xitorch
    torch.manual_seed(0)
    g = gen.seeded(case["seed"])
    kind = case["kind"]
    labels = ["nest_kind=" + kind, "linop_alias=%s" % case["lalias"]]
    if case.get("lkind"):
        labels.append("nest_linop=" + case["lkind"])
    for key in ("amap", "lmap"):
        if case.get(key) is not None:
            labels.append("%s:alias_pattern=%s" % (key, alias_class(case[key])))
    xitorch.set_debug_mode(False)
    try:
        return _run_nesting(case, g, kind, labels)
    finally:
        xitorch.set_debug_mode(False)


def _run_nesting(case, g, kind, labels):
    import xitorch
    pf, slots, evaluate, roots = _build_nest_target(kind, g, case.get("amap"))
    op, lslots, lexpect = _build_nest_linop(case["lalias"], g, case.get("lkind"), case.get("lmap"), case.get("ltree"))
    roots = roots + [("op", op)]
    before = R.snapshot(roots)
    orig = [get() for _, get in slots]
    pattern, uniq0 = _unique_pattern(orig)
    lorig = [get() for _, get in lslots]
    lpattern, luniq0 = _unique_pattern(lorig)
    x = torch.tensor([0.3, -0.7], dtype=R.DT)

    # the model: stacks of the *unique* lists in force, and of the debug flag
    model = {"obj": [list(uniq0)], "lin": [list(luniq0)], "dbg": [False]}
    stats = {"maxdepth": 0, "pushes": 0, "raises": 0, "evals": 0, "pending": None}

    class Bad(Exception):
        def __init__(self, kind_, detail):
            self.kind_, self.detail = kind_, detail

    def check(where):
        top = model["obj"][-1]
        for (name, get), u in zip(slots, pattern):
            if get() is not top[u]:
                raise Bad("nesting_wrong_tensor:" + where, "after %s, name %r holds a tensor other than the one in force at this depth "
                          "(depth obj=%d lin=%d dbg=%d)" % (where, name, len(model["obj"]) - 1, len(model["lin"]) - 1, len(model["dbg"]) - 1))
        ltop = model["lin"][-1]
        for (name, get), u in zip(lslots, lpattern):
            if get() is not ltop[u]:
                raise Bad("nesting_wrong_linop_tensor:" + where, "after %s, operator attribute %r holds a tensor other than the one in force" % (where, name))
        if bool(xitorch.is_debug_enabled()) != model["dbg"][-1]:
            raise Bad("nesting_debug_flag:" + where, "after %s, is_debug_enabled()=%r, model says %r" % (where, xitorch.is_debug_enabled(), model["dbg"][-1]))
        if len(model["obj"]) == 1 and len(model["lin"]) == 1:
            d = R.diff_snapshots(before, R.snapshot(roots))
            if d is not None:
                raise Bad("nesting_left_modified:%s:%s" % (d[0], where), d[1])

    def do_eval():
        stats["evals"] += 1
        top = model["obj"][-1]
        exp = sum((torch.cos(x * (j + 1.0)) * top[u]).sum() for j, u in enumerate(pattern))
        if kind in ("nn", "nn_tied"):
            exp = exp * 1.0
        got = evaluate(x)
        if not abs(float(got) - float(exp)) <= 1e-12 * (1.0 + abs(float(exp))):
            raise Bad("nesting_eval", "object evaluates to %.17g, the tensors in force give %.17g" % (float(got), float(exp)))
        ltop = model["lin"][-1]
        lexp = lexpect([ltop[u] for u in lpattern], x)
        lgot = op.mv(x)
        # the operator is a sum of products of <= 7 of its tensors applied to x: evaluated at the absolute values the same expression
        # bounds the magnitude of every partial sum; 1e-12 ~ 4500 eps covers the <= 20 roundings of either evaluation order
        lmag = lexpect([t.detach().abs() for t in (ltop[u] for u in lpattern)], x.abs())
        if not float((lgot - lexp).abs().max()) <= 1e-12 * (1.0 + float(lmag.max())):
            raise Bad("nesting_eval_linop", "operator product differs from the tensors in force by %.3e" % float((lgot - lexp).abs().max()))

    def new_list(cur, base, mode, choice):
        n = len(cur)
        if mode == "identical":
            return list(cur)
        if mode == "original":
            return list(base)
        fresh = [torch.randn(t.shape, generator=g, dtype=R.DT) for t in cur]
        if mode == "fresh":
            return fresh
        if mode == "alias" and n >= 2:
            i, j = choice % n, (choice // n) % n
            if fresh[i].shape == fresh[j].shape:
                fresh[j] = fresh[i]
            return fresh
        if mode == "mixed":
            return [c if (choice >> i) & 1 else f for i, (c, f) in enumerate(zip(cur, fresh))]
        return fresh

    # every history ends with one more identical substitution of both kinds, evaluated inside and unwound (so that each
    # history passes through useobjparams and uselinopparams at least once, whatever rules the state machine selected)
    ops = list(case["ops"]) + NEST_EPILOGUE

    def interp(i, depth):
        while i < len(ops):
            op_ = ops[i]
            name = op_[0]
            if name == "pop":
                if depth == 0:
                    i += 1
                    continue
                return i + 1
            if name == "eval":
                do_eval()
                i += 1
                continue
            if name == "raise":
                d = min(int(op_[1]), depth)
                if d == 0:
                    i += 1
                    continue
                stats["raises"] += 1
                stats["pending"] = i + 1
                raise _Unwind(d)
            # pushes
            if name == "push_obj":
                new = new_list(model["obj"][-1], uniq0, op_[1], int(op_[2]))
                cm, key = pf.useobjparams(new), "obj"
            elif name == "push_lin":
                new = new_list(model["lin"][-1], luniq0, op_[1], int(op_[2]))
                cm, key = op.uselinopparams(*new), "lin"
            elif name == "push_dbg":
                new = bool(op_[1])
                cm, key = (xitorch.enable_debug() if new else xitorch.disable_debug()), "dbg"
            else:
                raise ValueError(name)
            stats["pushes"] += 1
            if i < len(case["ops"]):         # the non-triviality rule counts the drawn part of the history only
                stats["maxdepth"] = max(stats["maxdepth"], depth + 1)
            unwound = None
            try:
                with cm:
                    model[key].append(new)
                    check("push")
                    i = interp(i + 1, depth + 1)
            except _Unwind as e:
                unwound = e
            model[key].pop()
            check("unwind" if unwound is not None else "pop")
            if unwound is not None:
                unwound.levels -= 1
                if unwound.levels > 0:
                    raise unwound
                i = stats["pending"]
        return i

    try:
        check("start")
        try:
            interp(0, 0)
        except _Unwind:
            return violation("nesting_unwind_escaped", "internal: unwind exception escaped depth 0", labels)
        except Bad:
            raise
        except InjectedFault:
            raise
        check("end")
        do_eval()
        if hasattr(pf, "_restore_stack") and len(pf._restore_stack) != 0:
            raise Bad("nesting_restore_stack", "restore stack holds %d entries after full unwinding" % len(pf._restore_stack))
    except Bad as b:
        return violation(b.kind_, b.detail, labels)
    labels += ["maxdepth=%d" % min(stats["maxdepth"], 6), "raises=%d" % min(stats["raises"], 3)]
    return ok(labels, nontrivial=stats["maxdepth"] >= 2, key=case)


def machine(holder):
    modes = st.sampled_from(["fresh", "fresh", "identical", "alias", "mixed", "original"])

    class Nesting(RuleBasedStateMachine):
        def __init__(self):
            super().__init__()
            self.case = None

        @initialize(kind=st.sampled_from(NEST_KINDS), lkind=st.sampled_from(NEST_LINOPS), seed=st.integers(0, 2 ** 31 - 1), data=st.data())
        def init(self, kind, lkind, seed, data):
            case = {"kind": kind, "lalias": lkind == "alias", "seed": seed, "ops": []}
            if kind == "em_map":
                case["amap"] = data.draw(amap_st())
            if lkind in ("map", "comp"):
                case["lkind"] = lkind
                case["lmap"] = data.draw(amap_st())
                if lkind == "comp":
                    case["ltree"] = data.draw(tree_st(len(case["lmap"])))
            self.case = case        # only a completely drawn case is submitted (a draw may end the example early)

        @rule(mode=modes, choice=st.integers(0, 63))
        def push_obj(self, mode, choice):
            self.case["ops"].append(["push_obj", mode, choice])

        @rule(mode=modes, choice=st.integers(0, 63))
        def push_lin(self, mode, choice):
            self.case["ops"].append(["push_lin", mode, choice])

        @rule(flag=st.booleans())
        def push_dbg(self, flag):
            self.case["ops"].append(["push_dbg", flag])

        @rule()
        def pop(self):
            self.case["ops"].append(["pop"])

        @rule()
        def evaluate(self):
            self.case["ops"].append(["eval"])

        @rule(levels=st.integers(1, 4))
        def raise_inside(self, levels):
            self.case["ops"].append(["raise", levels])

        def teardown(self):
            if self.case is not None:
                holder["submit"](self.case)
    return Nesting


# ------------------------------------------------------------------ task reassign: the caller changes its object between forward and backward

def run_reassign(case):
    """History: functional call on a method of the caller's object; the caller then puts a *new* tensor object under one of the
    object's names (an ordinary thing to do with one's own object); then the backward pass through the earlier result runs.
    Afterwards the object must hold exactly what the caller put there (identity, Parameter type, registration order), and the
    gradient w.r.t. the tensor used in the forward call must be the same as without the reassignment (the backward works on the
    tensors saved by the forward call)."""
    import xitorch
    from xitorch.optimize import rootfinder, equilibrium, minimize
    from xitorch.integrate import quad, solve_ivp, mcquad
    from pbt.harness import xt_call
    torch.manual_seed(0)
    DT = torch.float64
    kind, fn = case["kind"], case["functional"]

    def _std_normal_logp(x):
        return -0.5 * (x * x).sum()
    n = 3

    def build():
        g = gen.seeded(case["seed"])
        A = 0.3 * torch.randn((n, n), generator=g, dtype=DT)
        b = torch.randn((n,), generator=g, dtype=DT)
        if kind == "nn":
            class Mod(torch.nn.Module):
                def __init__(self):
                    super().__init__()
                    self.A = torch.nn.Parameter(A.clone())
                    self.b = torch.nn.Parameter(b.clone())

                def forward(self, *a):
                    return self.evaluate(*a)
        else:
            class Mod(xitorch.EditableModule):
                def __init__(self):
                    self.A = A.clone().requires_grad_()
                    self.b = b.clone().requires_grad_()

                def getparamnames(self, methodname, prefix=""):
                    return [prefix + "A", prefix + "b"]

        def evaluate(self, *a):
            if fn == "rootfinder":
                return a[0] + 0.5 * torch.tanh(self.A @ a[0]) - self.b
            if fn == "equilibrium":
                return 0.5 * torch.tanh(self.A @ a[0]) + self.b
            if fn == "quad":
                return torch.sin(self.A.reshape(-1)[:n] * a[0] + self.b)
            if fn == "minimize":
                return 0.5 * (a[0] * a[0]).sum() + 0.5 * torch.log(torch.cosh(self.A @ a[0])).sum() - (self.b * a[0]).sum()
            if fn == "mcquad":
                return torch.sin(self.A.reshape(-1)[:n] * a[0].sum() + self.b)
            return -(1.0 + self.A.diagonal() ** 2) * a[1] + self.b * torch.cos(a[0])      # solve_ivp: f(t, y)
        Mod.evaluate = evaluate
        return Mod(), g
    m, g = build()
    fcn = m.evaluate if kind == "em" else m.forward

    # round 4: the caller's explicit differentiable inputs (time points and initial state of solve_ivp, tensor limits of quad) take part
    # in the comparison too: their gradients are evaluated by calling the caller's method again during the backward pass, and that
    # evaluation must see the tensors of the forward call as well (case["ext"]; solve_ivp method and grid direction are drawn)
    ext = bool(case.get("ext", False))
    ext_inputs = []

    def call(obj_fcn):
        y0 = torch.zeros((n,), dtype=DT)
        del ext_inputs[:]
        if fn == "rootfinder":
            return rootfinder(obj_fcn, y0, method="broyden1", f_tol=1e-12)
        if fn == "equilibrium":
            return equilibrium(obj_fcn, y0, method="broyden1", f_tol=1e-12)
        if fn == "minimize":
            return minimize(obj_fcn, y0, method="broyden1", f_tol=1e-12)
        if fn == "mcquad":
            torch.manual_seed(case["seed"])         # `mh` draws from the global generator: both runs see the same samples
            return mcquad(obj_fcn, _std_normal_logp, torch.zeros((1,), dtype=DT), method="mh", nsamples=12, nburnout=3)
        if fn == "quad":
            if ext:
                xl, xu = torch.tensor(0.0, dtype=DT, requires_grad=True), torch.tensor(1.0, dtype=DT, requires_grad=True)
                ext_inputs.extend([xl, xu])
                return quad(obj_fcn, xl, xu, n=6)
            return quad(obj_fcn, 0.0, 1.0, n=6)
        ts = torch.linspace(0, 1, 4, dtype=DT)
        if case.get("tsdir", 1) < 0:
            ts = ts.flip(0).contiguous()
        y00 = torch.ones((n,), dtype=DT)
        if ext:
            ts.requires_grad_()
            y00.requires_grad_()
            ext_inputs.extend([ts, y00])
        return solve_ivp(obj_fcn, ts, y00, method=case.get("ivp_method", "rk4"))
    which = case["which"]
    labels = ["task=reassign", "functional=" + fn, "kind=" + kind, "which=" + which, "order=%d" % case["order"], "ext=%s" % ext]
    if fn == "solve_ivp":
        labels.append("ivp=%s/%s" % (case.get("ivp_method", "rk4"), "dec" if case.get("tsdir", 1) < 0 else "inc"))
    second = case["order"] == 2
    W = None

    def grads(y, olds):
        nonlocal W
        if W is None:
            W = torch.randn(y.shape, generator=g, dtype=DT)
        gs = torch.autograd.grad((y * W).sum(), olds, create_graph=second, allow_unused=True)
        if second:
            terms = [gi.sum() for gi in gs if gi is not None and gi.requires_grad]
            if terms:
                gs = list(gs) + list(torch.autograd.grad(sum(terms), olds, allow_unused=True))
        return [None if gi is None else gi.detach().clone() for gi in gs]
    # reference run: no reassignment
    y = xt_call(call, fcn, _where="forward")
    ref = xt_call(grads, y, [m.A, m.b] + list(ext_inputs), _where="backward")
    # the history under test
    m2, g = build()
    W = None
    fcn2 = m2.evaluate if kind == "em" else m2.forward
    y2 = xt_call(call, fcn2, _where="forward")
    olds = [m2.A, m2.b]
    newt = (getattr(m2, which).detach() * 1.5 + 0.25)
    newt = torch.nn.Parameter(newt) if kind == "nn" else newt.requires_grad_()
    setattr(m2, which, newt)
    other = "b" if which == "A" else "A"
    names_before = [nm for nm, _ in m2.named_parameters()] if kind == "nn" else None
    got = xt_call(grads, y2, olds + list(ext_inputs), _where="backward")
    if getattr(m2, which) is not newt:
        back = "the tensor of the forward call" if getattr(m2, which) is olds[0 if which == "A" else 1] else "another tensor"
        return violation("reassigned_tensor_reverted", "after the backward pass the caller's object holds %s under %r instead of the tensor the caller "
                         "had put there before the backward pass" % (back, which), labels)
    if getattr(m2, other) is not olds[1 if which == "A" else 0]:
        return violation("left_modified:identity", "the untouched tensor %r was replaced" % other, labels)
    if kind == "nn":
        if [nm for nm, _ in m2.named_parameters()] != names_before or not isinstance(m2.A, torch.nn.Parameter) or not isinstance(m2.b, torch.nn.Parameter):
            return violation("left_modified:registration", "parameter registration changed: %r -> %r" % (names_before, [nm for nm, _ in m2.named_parameters()]), labels)
    for k, (a, r_) in enumerate(zip(got, ref)):
        if (a is None) != (r_ is None) or (a is not None and float((a - r_).abs().max()) > 1e-9 * (1 + float(r_.abs().max()))):
            return violation("gradient_uses_reassigned_tensor", "gradient #%d w.r.t. the tensors of the forward call changed when the caller re-assigned %r "
                             "between forward and backward: %s vs %s" % (k, which, None if a is None else a.reshape(-1)[:3].tolist(),
                                                                          None if r_ is None else r_.reshape(-1)[:3].tolist()), labels)
    return ok(labels, nontrivial=True)


@st.composite
def reassign_st(draw, tier="quick"):
    case = {"functional": draw(st.sampled_from(["rootfinder", "equilibrium", "minimize", "mcquad", "quad", "quad", "solve_ivp", "solve_ivp"])), "kind": draw(st.sampled_from(["em", "nn"])),
            "which": draw(st.sampled_from(["A", "b"])), "order": draw(st.sampled_from([1, 1, 2])), "seed": draw(st.integers(0, 2 ** 31 - 1))}
    if case["functional"] in ("quad", "solve_ivp"):
        case["ext"] = draw(st.sampled_from([False, True, True]))
    if case["functional"] == "solve_ivp":
        case["ivp_method"] = draw(st.sampled_from(["rk4", "rk4", "euler", "rk38", "rk45", "rk23"]))
        case["tsdir"] = draw(st.sampled_from([1, 1, -1]))
    return case


# =============================================================================================== shared storage (round 4)

SHARED_HANDLES_EM = ["detach", "data", "view_as", "slice"]
SHARED_HANDLES_NN = ["param_frozen", "param_trainable"]


def run_sharedmem(case):
    """The caller's object holds two DISTINCT tensor objects that view the same memory: a tensor and a detached / `.data` /
    `view_as` / full-slice handle of it, or two Parameters made from one storage (`Parameter(w.detach())`) -- a frozen reference next
    to the trainable tensor, an ordinary thing to write. They are two objects of the caller: after the functional call, after the
    backward pass and after a graph-recording backward + second backward the object must hold exactly those two objects under their
    names (identity, requires_grad, leaf-ness, Parameter type, registration order, bitwise values), and values and gradients must be
    those of a twin object whose second tensor has its own storage (same values, same autograd relation to the first)."""
    import xitorch
    from xitorch.optimize import rootfinder, equilibrium, minimize
    from xitorch.integrate import quad, solve_ivp
    from pbt.harness import xt_call
    torch.manual_seed(0)
    DT = torch.float64
    kind, fn, handle = case["kind"], case["functional"], case["handle"]
    second = case["order"] == 2
    n = 3
    labels = ["task=sharedmem", "functional=" + fn, "kind=" + kind, "handle=" + handle, "order=%d" % case["order"]]

    def build(shared):
        g = gen.seeded(case["seed"])
        A = 0.3 * torch.randn((n, n), generator=g, dtype=DT)
        b = torch.randn((n,), generator=g, dtype=DT)
        if kind == "nn":
            class Mod(torch.nn.Module):
                def __init__(self):
                    super().__init__()
                    self.A = torch.nn.Parameter(A.clone())
                    src = self.A.detach() if shared else self.A.detach().clone()
                    self.A0 = torch.nn.Parameter(src, requires_grad=(handle == "param_trainable"))
                    self.b = torch.nn.Parameter(b.clone())

                def forward(self, *a):
                    return self.evaluate(*a)
        else:
            class Mod(xitorch.EditableModule):
                def __init__(self):
                    self.A = A.clone().requires_grad_()
                    if handle == "detach":
                        self.A0 = self.A.detach() if shared else self.A.detach().clone()
                    elif handle == "data":
                        self.A0 = self.A.data if shared else self.A.data.clone()
                    elif handle == "view_as":
                        self.A0 = self.A.view_as(self.A) if shared else self.A.clone()
                    else:
                        self.A0 = self.A[:] if shared else self.A.clone()
                    self.b = b.clone().requires_grad_()

                def getparamnames(self, methodname, prefix=""):
                    return [prefix + nm for nm in case["order_names"]]

        def evaluate(self, *a):
            c = 0.1 * (self.A0 * self.A0).sum()
            if fn == "rootfinder":
                return a[0] + 0.5 * torch.tanh(self.A @ a[0]) + c * a[0] - self.b
            if fn == "equilibrium":
                return 0.5 * torch.tanh(self.A @ a[0]) * (1 - c) + self.b
            if fn == "minimize":
                return 0.5 * (1 + c) * (a[0] * a[0]).sum() + 0.5 * torch.log(torch.cosh(self.A @ a[0])).sum() - (self.b * a[0]).sum()
            if fn == "quad":
                return torch.sin(self.A.reshape(-1)[:n] * a[0] + self.b) * (1 + c)
            return -(1.0 + c + self.A.diagonal() ** 2) * a[1] + self.b * torch.cos(a[0])      # solve_ivp: f(t, y)
        Mod.evaluate = evaluate
        return Mod(), g

    def call(obj_fcn):
        y0 = torch.zeros((n,), dtype=DT)
        if fn == "rootfinder":
            return rootfinder(obj_fcn, y0, method="broyden1", f_tol=1e-12)
        if fn == "equilibrium":
            return equilibrium(obj_fcn, y0, method="broyden1", f_tol=1e-12)
        if fn == "minimize":
            return minimize(obj_fcn, y0, method="broyden1", f_tol=1e-12)
        if fn == "quad":
            return quad(obj_fcn, 0.0, 1.0, n=6)
        return solve_ivp(obj_fcn, torch.linspace(0, 1, 4, dtype=DT), torch.ones((n,), dtype=DT), method="rk4")

    def snapshot(m):
        snap = []
        for nm in ("A", "A0", "b"):
            t = getattr(m, nm)
            snap.append((nm, id(t), t.requires_grad, t.is_leaf, isinstance(t, torch.nn.Parameter), t.detach().clone()))
        names = [k for k, _ in m.named_parameters()] if kind == "nn" else None
        return snap, names, m.A0.data_ptr() == m.A.data_ptr()

    def compare(m, before, where):
        snap, names, shares = snapshot(m)
        for (nm, i0, r0, l0, p0, v0), (_, i1, r1, l1, p1, v1) in zip(before[0], snap):
            if i0 != i1:
                other = [k for k in ("A", "A0", "b") if k != nm and id(getattr(m, k)) == i1]
                return violation("shared_storage:identity:" + where, "%s: the object holds another tensor object under %r than before%s"
                                 % (where, nm, " (now the object it holds under %r)" % other[0] if other else ""), labels)
            if (r0, l0, p0) != (r1, l1, p1):
                return violation("shared_storage:flags:" + where, "%s: requires_grad/is_leaf/Parameter of %r changed %r -> %r"
                                 % (where, nm, (r0, l0, p0), (r1, l1, p1)), labels)
            if not torch.equal(v0, v1):
                return violation("shared_storage:value:" + where, "%s: the values of %r changed" % (where, nm), labels)
        if names != before[1]:
            return violation("shared_storage:registration:" + where, "%s: parameter registration %r -> %r" % (where, before[1], names), labels)
        return None

    def diff_inputs(m):
        xs = [m.A, m.b]
        if m.A0.is_leaf and m.A0.requires_grad:
            xs.append(m.A0)
        return xs

    res = {}
    for shared in (False, True):
        m, g = build(shared)
        fcn = m.evaluate if kind == "em" else m.forward
        before = snapshot(m)
        if shared and not before[2]:
            raise RuntimeError("harness: the handle does not share the storage")
        y = xt_call(call, fcn, _where="forward")
        v = compare(m, before, "after_forward") if shared else None
        if v is not None:
            return v
        W = torch.randn(y.shape, generator=g, dtype=DT)
        xs = diff_inputs(m)
        gs = xt_call(torch.autograd.grad, (y * W).sum(), xs, create_graph=second, allow_unused=True, _where="backward")
        v = compare(m, before, "after_backward") if shared else None
        if v is not None:
            return v
        out = [y.detach()] + [None if gi is None else gi.detach().clone() for gi in gs]
        if second:
            terms = [(gi * gi).sum() for gi in gs if gi is not None and gi.requires_grad]
            if terms:
                g2 = xt_call(torch.autograd.grad, sum(terms), xs, allow_unused=True, _where="backward2")
                out += [None if gi is None else gi.detach().clone() for gi in g2]
                v = compare(m, before, "after_second_backward") if shared else None
                if v is not None:
                    return v
        res[shared] = out
    for k, (a, r_) in enumerate(zip(res[True], res[False])):
        if (a is None) != (r_ is None) or (a is not None and float((a - r_).abs().max()) > 1e-9 * (1 + float(r_.abs().max()))):
            return violation("shared_storage:result", "output/gradient #%d differs from the twin object whose second tensor has its own storage: %s vs %s"
                             % (k, None if a is None else a.reshape(-1)[:3].tolist(), None if r_ is None else r_.reshape(-1)[:3].tolist()), labels)
    return ok(labels, nontrivial=True)


@st.composite
def sharedmem_st(draw, tier="quick"):
    kind = draw(st.sampled_from(["em", "em", "nn"]))
    case = {"functional": draw(st.sampled_from(["rootfinder", "equilibrium", "minimize", "quad", "solve_ivp"])), "kind": kind,
            "handle": draw(st.sampled_from(SHARED_HANDLES_EM if kind == "em" else SHARED_HANDLES_NN)),
            "order": draw(st.sampled_from([1, 1, 2])), "seed": draw(st.integers(0, 2 ** 31 - 1)),
            "order_names": draw(st.permutations(["A", "A0", "b"]))}
    return case


def run_reassign_linop(case):
    """The reassign history for the functionals that take the caller's LinearOperator: solve / symeig on an operator object; the caller then
    puts a new tensor under the operator's attribute (`A.mat = ...` of a wrapped dense matrix, `A.A = ...` of its own operator class);
    then the backward pass through the earlier result runs. The operator must keep the caller's new tensor, and the gradients w.r.t. the
    tensor of the forward call and the right-hand side must be those of the undisturbed run."""
    import warnings
    from xitorch import LinearOperator
    from xitorch.linalg import solve, symeig
    from pbt.harness import xt_call
    DT = torch.float64
    fn, opkind, herm = case["functional"], case["opkind"], bool(case["herm"]) or case["functional"] == "symeig"
    second = case["order"] == 2
    n = 3
    labels = ["task=reassign_linop", "functional=" + fn, "opkind=" + opkind, "herm=%s" % herm, "method=" + case["method"], "order=%d" % case["order"]]

    def build():
        g = gen.seeded(case["seed"])
        A0 = 0.4 * torch.randn((n, n), generator=g, dtype=DT)
        A0 = (A0 + A0.T) * 0.5 if herm else A0
        A0 = A0 + 2.0 * torch.eye(n, dtype=DT)
        leaf = A0.clone().requires_grad_()
        B = torch.randn((n, 2), generator=g, dtype=DT).requires_grad_()
        if opkind == "dense":
            op, attr = LinearOperator.m(leaf, is_hermitian=herm), "mat"
        else:
            class Op(LinearOperator):
                def __init__(self, A):
                    super().__init__(shape=A.shape, is_hermitian=herm, dtype=A.dtype, device=A.device)
                    self.A = A

                def _mv(self, x):
                    return torch.matmul(self.A, x.unsqueeze(-1)).squeeze(-1)

                def _getparamnames(self, prefix=""):
                    return [prefix + "A"]
            op, attr = Op(leaf), "A"
        return op, attr, leaf, B, g

    def call(op, B):
        torch.manual_seed(case["seed"])
        with warnings.catch_warnings():
            warnings.simplefilter("ignore")
            if fn == "solve":
                return solve(op, B, method=case["method"])
            evals, evecs = symeig(op, neig=2, method=case["method"])
            return torch.cat([evals.reshape(-1), (evecs * evecs).reshape(-1)])

    def grads(y, xs, g):
        W = torch.randn(y.shape, generator=g, dtype=DT)
        torch.manual_seed(case["seed"])
        with warnings.catch_warnings():
            warnings.simplefilter("ignore")
            gs = torch.autograd.grad((y * W).sum(), xs, create_graph=second, allow_unused=True)
            if second:
                terms = [(gi * gi).sum() for gi in gs if gi is not None and gi.requires_grad]
                if terms:
                    gs = list(gs) + list(torch.autograd.grad(sum(terms), xs, allow_unused=True))
        return [None if gi is None else gi.detach().clone() for gi in gs]

    res = []
    for reassign in (False, True):
        op, attr, leaf, B, g = build()
        xs = [leaf, B] if fn == "solve" else [leaf]
        y = xt_call(call, op, B, _where="forward")
        newt = None
        if reassign:
            newt = (leaf.detach() * 1.5 + 0.25 * torch.eye(n, dtype=DT)).requires_grad_()
            setattr(op, attr, newt)
        got = xt_call(grads, y, xs, g, _where="backward")
        if reassign and getattr(op, attr) is not newt:
            back = "the tensor of the forward call" if getattr(op, attr) is leaf else "another tensor"
            return violation("reassigned_tensor_reverted", "after the backward pass the caller's operator holds %s under %r instead of the "
                             "tensor the caller had put there before the backward pass" % (back, attr), labels)
        res.append(got)
    for k, (a, r_) in enumerate(zip(res[1], res[0])):
        if (a is None) != (r_ is None) or (a is not None and float((a - r_).abs().max()) > 1e-9 * (1 + float(r_.abs().max()))):
            return violation("gradient_uses_reassigned_tensor", "gradient #%d w.r.t. the tensors of the forward call changed when the caller re-assigned "
                             "the operator's %r between forward and backward: %s vs %s" % (k, attr, None if a is None else a.reshape(-1)[:3].tolist(),
                                                                                            None if r_ is None else r_.reshape(-1)[:3].tolist()), labels)
    return ok(labels, nontrivial=True)


@st.composite
def reassign_linop_st(draw, tier="quick"):
    fn = draw(st.sampled_from(["solve", "solve", "solve", "symeig"]))
    return {"functional": fn, "opkind": draw(st.sampled_from(["dense", "user"])), "herm": draw(st.booleans()),
            "method": draw(st.sampled_from(["custom_exactsolve", "cg", "bicgstab", "gmres", "exactsolve"] if fn == "solve"
                                           else ["custom_exacteig", "davidson", "exacteig"])),
            "order": draw(st.sampled_from([1, 1, 2])), "seed": draw(st.integers(0, 2 ** 31 - 1))}


def tasks(tier):
    return [
        # round 3: the new kinds (8 of 29 function kinds, 3 of 7 operator kinds, 2 of 8 nesting targets) come on top of the former
        # numbers of examples of the other kinds (520 / 2000)
        Task("nesting", machine=machine, run=run_nesting, examples={"quick": 2200, "thorough": 16000},
             steps={"quick": 14, "thorough": 24}),
        Task("sharedmem", strategy=sharedmem_st(tier), run=run_sharedmem, examples={"quick": 120, "thorough": 1200}),
        Task("reassign_linop", strategy=reassign_linop_st(tier), run=run_reassign_linop, examples={"quick": 100, "thorough": 1000}),
        Task("reassign", strategy=reassign_st(tier), run=run_reassign, examples={"quick": 160, "thorough": 1500}),
        # the expensive task last: under a wall budget cut short (loaded machine) the cheap tasks have run
        # round 4: two thin corners of the scenario space as small tasks of their own (see scenario_st), taken out of the budget of `faults`
        Task("faults_dbgflag", strategy=scenario_st(tier, focus="dbgflag"), run=run_faults, examples={"quick": 40, "thorough": 600}),
        Task("faults_dtypes", strategy=scenario_st(tier, focus="dtypes"), run=run_faults, examples={"quick": 40, "thorough": 600}),
        Task("faults", strategy=scenario_st(tier), run=run_faults, examples={"quick": 460, "thorough": 9000}),
    ]
