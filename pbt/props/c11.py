"""C11 — LinearOperator products are mutually consistent for every operator expression.

Task "expr": generated expression trees over user-defined / dense / Hermitian / Jacobian leaves, compared with the same
expression on dense matrices (mv, mm, rmv, rmm, fullmatrix, .H, shapes).
Task "dag": the same for expressions in which an operand OBJECT occurs more than once (sub-expressions re-used by reference).
Task "reject": shape / Hermiticity / type violations must raise the documented error.
Scalar factors (expr, dag): python ints and floats at full double precision -- small ints, dyadic floats, decimal fractions and random
doubles that are not representable in single precision, large ints, and magnitudes from 1e-260 to 1e250 for float64/complex128
operators (1e-15 .. 1e9 for float32); tolerances are relative to |f| * |matrix|, non-finite results fail.
Task "classes": stateful histories of class definitions and first instantiations (fresh classes per example via type()):
capability flags and routing must follow the methods the class's own MRO defines, whatever was instantiated before.
"""
from __future__ import annotations

import torch
from hypothesis import strategies as st
from hypothesis.stateful import RuleBasedStateMachine, rule, initialize, precondition

from pbt import gen
from pbt.harness import Task, ok, violation, discard, xt_call

PID = "C11"
RULE = ("expr: expression trees of depth<=3 (thorough 4) over leaves {mv-only, mv+rmv, mv+mm, all products, dense-wrapped, "
        "Hermitian-flagged, Jacobian operator} combined with .H, matmul, +, -, scalar*; scalar factors are python ints / floats: ordinary ones "
        "with |f| in [1/16,16] or 0 (small ints, dyadic floats, decimal fractions such as 0.1, -1/3, 1.7 and Hypothesis-drawn doubles with a full "
        "mantissa, i.e. not representable in float32) and, in one tree out of four, ONE extreme factor (f64/c128: 1e-260..1e250 incl. 1e-60, 1e60, "
        "-3e-45, 1e39, float32-max neighbours, ints 2**40+1, 2**53-1, 10**17+3; f32: 1e-15..1e9) placed on a scaling node or around the whole "
        "expression, so that the dense reference stays finite and normal by construction; operator batch shapes broadcastable by "
        "construction, operand batch shapes likewise; f32/f64/c128; rectangular shapes. dag: straight-line programs of 1..3 (thorough 5) "
        "steps whose operands are drawn among the nodes built so far BY REFERENCE, their own .H views, a scalar multiple of the other "
        "operand, or new leaves (A+A.H, A-A.H, A.H-A, A@A, A.H@A, cA-A, X op f(X), ...); the dense reference is the same program on the "
        "matrices; the shared operands are re-checked after the expression was built and used; scaling nodes draw the same ordinary / extreme "
        "factors, every node carries the interval of log10(product of factor magnitudes) and operands that would leave the budget "
        "(f64/c128 [-260,250], f32 [-15,12]) are not offered. Excluded by construction (reported defect, counted by the label 'excluded='): "
        "all-dense sub-expressions scaled by 0<|f|<0.5 (LinearOperator.m auto-detects Hermiticity with an absolute tolerance). reject: one deliberately invalid call per case. "
        "classes: RuleBasedStateMachine over define-class / instantiate / probe steps. Non-trivial = tree with >=1 composition and a "
        "non-trivial batch or rectangular shape (expr), a program in which a node reachable from the result fills >=2 operand slots (dag), "
        "or a history in which a subclass is instantiated after its parent (classes).")
ASSUMPTIONS = [
    "tolerance 200*eps*(|expr|(|leaves|) |x|) elementwise (abs-value evaluation of the same tree bounds the rounding; eps of the OPERATOR's "
    "dtype); scalar factors enter the bound as |f|, so the tolerance is relative to the scaled magnitude (1e-60*A is checked to 200 eps of "
    "1e-60*|A|); a nan / inf entry of a result is a violation",
    "f * A accepts every python int / float f (type check in __mul__); the matrix of f*A is f*matrix(A) evaluated in the operator's dtype "
    "(torch tensor * python scalar), so float64/complex128 operators keep the full double precision and range of f",
    "the dense reference is finite and outside the subnormal range by construction: entries and operands are N(0,1), sizes <= 4, at most one "
    "extreme factor per tree / a magnitude budget per dag node; a non-finite abs-reference would be discarded (count stays 0)",
    "wrapped dense matrices are auto-checked for Hermiticity with torch.allclose(atol=1e-8): all-dense sub-expressions keep the product of their "
    "factors >= 1e-2 (|f| >= 0.5 per scaling) so that N(0,1) matrices are never Hermitian within that tolerance by scale alone",
    "user leaf classes implement their products with torch.matmul on the reference matrix (so they are correct by construction)",
    "dense leaves are random (never accidentally Hermitian within allclose tolerance) unless built Hermitian on purpose",
]
LEVEL_TEXT = ("Differential exploration against dense matrices over generated operator expressions, plus model-based histories of class "
              "definition/instantiation order (the per-class capability cache makes behaviour history-dependent).")
LEVEL_NOTE = "trusts torch.matmul/broadcasting as the dense reference; depth<=4, sizes<=4, batch rank<=2"
TECHNIQUE = "Hypothesis property-based testing: differential oracle (dense reference) + stateful class-history machine"

DT = {"f32": torch.float32, "f64": torch.float64, "c128": torch.complex128}
METHODSETS = {"mv": ["_mv"], "mv_rmv": ["_mv", "_rmv"], "mv_mm": ["_mv", "_mm"],
              "all": ["_mv", "_rmv", "_mm", "_rmm", "_fullmatrix"]}


def _impls(counter=None):
    def tick(name):
        if counter is not None:
            counter[name] = counter.get(name, 0) + 1

    def _mv(self, x):
        tick("_mv")
        return torch.matmul(self.M, x.unsqueeze(-1)).squeeze(-1)

    def _rmv(self, x):
        tick("_rmv")
        return torch.matmul(self.M.transpose(-2, -1).conj(), x.unsqueeze(-1)).squeeze(-1)

    def _mm(self, x):
        tick("_mm")
        return torch.matmul(self.M, x)

    def _rmm(self, x):
        tick("_rmm")
        return torch.matmul(self.M.transpose(-2, -1).conj(), x)

    def _fullmatrix(self):
        tick("_fullmatrix")
        return self.M

    def _getparamnames(self, prefix=""):
        return [prefix + "M"]
    return {"_mv": _mv, "_rmv": _rmv, "_mm": _mm, "_rmm": _rmm, "_fullmatrix": _fullmatrix,
            "_getparamnames": _getparamnames}


def make_user_class(name, methods, base=None, counter=None, with_init=True):
    import xitorch
    base = base or xitorch.LinearOperator
    impl = _impls(counter)
    body = {m: impl[m] for m in methods}
    if with_init:
        def __init__(self, M, is_hermitian=False):
            xitorch.LinearOperator.__init__(self, shape=M.shape, is_hermitian=is_hermitian, dtype=M.dtype, device=M.device)
            self.M = M
        body["__init__"] = __init__
    return type(name, (base,), body)


def leaf_matrix(g, batch, p, q, dtype, hermitian):
    M = gen.randn(g, (*batch, p, q), dtype)
    if hermitian:
        M = M + M.transpose(-2, -1).conj()
    return M


def build(tree, g, dtype, counters):
    """returns (operator, dense reference, abs-reference)"""
    import xitorch
    op = tree["op"]
    if op == "leaf":
        return build_leaf(tree, g, dtype, counters)
    if op == "H":
        A, R, Ra = build(tree["a"], g, dtype, counters)
        return A.H, R.transpose(-2, -1).conj(), Ra.transpose(-2, -1)
    if op == "mul":
        A, R, Ra = build(tree["a"], g, dtype, counters)
        f = tree["f"]
        return (A * f if tree["side"] == "r" else f * A), R * f, Ra * abs(f)
    A, R, Ra = build(tree["a"], g, dtype, counters)
    B, S, Sa = build(tree["b"], g, dtype, counters)
    return combine(op, A, R, Ra, B, S, Sa)


def combine(op, A, R, Ra, B, S, Sa):
    if op == "matmul":
        return A.matmul(B), torch.matmul(R, S), torch.matmul(Ra, Sa)
    if op == "add":
        return A + B, R + S, Ra + Sa
    if op == "sub":
        return A - B, R - S, Ra + Sa
    raise ValueError(op)


def build_leaf(tree, g, dtype, counters):
    import xitorch
    kind = tree["kind"]
    p, q = tree["p"], tree["q"]
    herm = kind in ("herm_user", "herm_dense")
    M = leaf_matrix(g, tree["batch"], p, q, dtype, herm)
    if kind in METHODSETS:
        cls = make_user_class("U_" + kind, METHODSETS[kind] + ["_getparamnames"], counter=counters)
        A = cls(M)
    elif kind == "dense":
        A = xitorch.LinearOperator.m(M)
    elif kind == "herm_dense":
        A = xitorch.LinearOperator.m(M, is_hermitian=tree.get("flag"))
    elif kind == "herm_user":
        cls = make_user_class("U_herm", ["_mv", "_getparamnames"], counter=counters)
        A = cls(M, is_hermitian=True)
    elif kind == "jac":
        x0 = torch.zeros((q,), dtype=dtype, requires_grad=True)
        Mj = M

        def f(x):
            return torch.matmul(Mj, x) + torch.ones((p,), dtype=dtype)
        from xitorch.grad import jac as _jac
        A = _jac(f, params=(x0,), idxs=0)
    else:
        raise ValueError(kind)
    return A, M, M.abs()


def depth(tree):
    if tree["op"] == "leaf":
        return 0
    return 1 + max(depth(tree[k]) for k in ("a", "b") if k in tree)


def leaves_of(tree, out):
    if tree["op"] == "leaf":
        out.append(tree)
    else:
        for k in ("a", "b"):
            if k in tree:
                leaves_of(tree[k], out)
    return out


def close(got, ref, bound, eps, what):
    if tuple(got.shape) != tuple(ref.shape):
        return "%s: shape %s, expected %s" % (what, tuple(got.shape), tuple(ref.shape))
    tol = 200 * eps * bound + 1e-300
    # "not within" rather than "outside": a nan / inf entry of the result fails (the reference is finite by construction)
    bad = ~((got - ref).abs() <= tol)
    if bool(bad.any()):
        i = int(torch.nonzero(bad.reshape(-1))[0])
        return "%s: entry %d is %s, dense reference %s (tol %.2e)" % (
            what, i, got.reshape(-1)[i].item(), ref.reshape(-1)[i].item(), float(tol.reshape(-1)[i]) if tol.numel() > 1 else float(tol))
    return None


def run_expr(case):
    torch.manual_seed(0)
    g = gen.seeded(case["seed"])
    dtype = DT[case["dtype"]]
    eps = torch.finfo(dtype).eps
    tree = case["tree"]
    counters = {}
    A, R, Ra = xt_call(build, tree, g, dtype, counters, _where="construct")
    d = depth(tree)
    lv = leaves_of(tree, [])
    labels = ["depth=%d" % d, "dtype=" + case["dtype"]] + sorted({"leaf=" + l["kind"] for l in lv}) + \
             ["batchrank=%d" % len(R.shape[:-2])] + sorted({"factor=" + factor_class(m["f"]) for m in mul_nodes(tree, [])}) + \
             (["excluded=" + case["excluded"]] if case.get("excluded") else [])
    p, q = R.shape[-2:]
    if not bool(torch.isfinite(Ra).all()):
        return discard("dense reference not finite", labels)
    v = check_products(A, R, Ra, case, g, dtype, labels)
    if v is not None:
        return v
    nontrivial = d >= 1 and (len(R.shape) > 2 or p != q)
    return ok(labels, nontrivial)


def check_products(A, R, Ra, case, g, dtype, labels):
    """all products of the operator A against the dense matrix R (Ra: the same expression of the absolute values, which
    bounds the rounding); returns a violation or None"""
    eps = torch.finfo(dtype).eps
    p, q = R.shape[-2:]
    if tuple(A.shape) != tuple(R.shape):
        return violation("shape_attr", "operator.shape=%s, dense expression has shape %s" % (tuple(A.shape), tuple(R.shape)), labels)
    RH = R.transpose(-2, -1).conj()
    RaH = Ra.transpose(-2, -1)
    xb = case["xbatch"]
    r = case["r"]
    x = gen.randn(g, (*xb, q), dtype)
    X = gen.randn(g, (*xb, q, r), dtype)
    y = gen.randn(g, (*xb, p), dtype)
    Y = gen.randn(g, (*xb, p, r), dtype)
    checks = [
        ("mv", lambda: A.mv(x), torch.matmul(R, x.unsqueeze(-1)).squeeze(-1), torch.matmul(Ra, x.abs().unsqueeze(-1)).squeeze(-1)),
        ("mm", lambda: A.mm(X), torch.matmul(R, X), torch.matmul(Ra, X.abs())),
        ("rmv", lambda: A.rmv(y), torch.matmul(RH, y.unsqueeze(-1)).squeeze(-1), torch.matmul(RaH, y.abs().unsqueeze(-1)).squeeze(-1)),
        ("rmm", lambda: A.rmm(Y), torch.matmul(RH, Y), torch.matmul(RaH, Y.abs())),
        ("fullmatrix", lambda: A.fullmatrix(), R, Ra),
        ("H.fullmatrix", lambda: A.H.fullmatrix(), RH, RaH),
        ("H.mv", lambda: A.H.mv(y), torch.matmul(RH, y.unsqueeze(-1)).squeeze(-1), torch.matmul(RaH, y.abs().unsqueeze(-1)).squeeze(-1)),
        ("H.rmv", lambda: A.H.rmv(x), torch.matmul(R, x.unsqueeze(-1)).squeeze(-1), torch.matmul(Ra, x.abs().unsqueeze(-1)).squeeze(-1)),
        ("H.mm", lambda: A.H.mm(Y), torch.matmul(RH, Y), torch.matmul(RaH, Y.abs())),
    ]
    sel = case.get("which")
    for name, fn, ref, bound in checks:
        if sel and name not in sel:
            continue
        got = xt_call(fn, _where=name)
        msg = close(got, ref, bound, eps, name)
        if msg:
            return violation("product:" + name, msg, labels)
    # mm equals mv column by column (operator-internal consistency, same tolerance)
    got_mm = A.mm(X)
    for c in range(r):
        col = A.mv(X[..., c])
        msg = close(got_mm[..., c], col.expand(got_mm[..., c].shape), 2 * torch.matmul(Ra, X.abs())[..., c], eps, "mm-vs-mv column %d" % c)
        if msg:
            return violation("mm_vs_mv", msg, labels)
    return None


# ------------------------------------------------------------------ expressions with shared operands (DAGs)

def build_prog(prog, g, dtype, counters):
    """straight-line program: every instruction builds one node from leaves / EARLIER NODES BY REFERENCE (the same operator
    object may be used several times); the dense reference is the same program on the matrices.  Returns the list of
    (operator, dense, abs-dense) of all nodes."""
    vals = []
    for ins in prog:
        op = ins["op"]
        if op == "leaf":
            vals.append(build_leaf(ins, g, dtype, counters))
        elif op == "H":
            A, R, Ra = vals[ins["a"]]
            vals.append((A.H, R.transpose(-2, -1).conj(), Ra.transpose(-2, -1)))
        elif op == "mul":
            A, R, Ra = vals[ins["a"]]
            f = ins["f"]
            vals.append(((A * f if ins["side"] == "r" else f * A), R * f, Ra * abs(f)))
        else:
            vals.append(combine(op, *vals[ins["a"]], *vals[ins["b"]]))
    return vals


def prog_stats(prog):
    """(number of operand slots per node reachable from the output, patterns present)"""
    uses = [0] * len(prog)
    reach = [False] * len(prog)
    reach[-1] = True
    for i in range(len(prog) - 1, -1, -1):
        if reach[i]:
            for k in ("a", "b"):
                if k in prog[i] and prog[i]["op"] != "leaf":
                    uses[prog[i][k]] += 1
                    reach[prog[i][k]] = True

    def is_h_of(i, j):
        return prog[i]["op"] == "H" and prog[i]["a"] == j
    pats = set()
    for i, ins in enumerate(prog):
        if not reach[i] or ins["op"] not in ("add", "sub", "matmul"):
            continue
        a, b = ins["a"], ins["b"]
        sym = {"add": "+", "sub": "-", "matmul": "@"}[ins["op"]]
        if a == b:
            pats.add("pattern=A%sA" % sym)
        elif is_h_of(b, a):
            pats.add("pattern=A%sA.H" % sym)
        elif is_h_of(a, b):
            pats.add("pattern=A.H%sA" % sym)
        elif prog[a]["op"] == "mul" and prog[a]["a"] == b or prog[b]["op"] == "mul" and prog[b]["a"] == a:
            pats.add("pattern=cA%sA" % sym)
    return uses, reach, pats


def run_dag(case):
    torch.manual_seed(0)
    g = gen.seeded(case["seed"])
    dtype = DT[case["dtype"]]
    prog = case["prog"]
    counters = {}
    vals = xt_call(build_prog, prog, g, dtype, counters, _where="construct")
    A, R, Ra = vals[-1]
    uses, reach, pats = prog_stats(prog)
    shared = [i for i in range(len(prog)) if reach[i] and uses[i] >= 2]
    implicit_shared = any(prog[i]["op"] != "leaf" or prog[i]["kind"] not in ("dense", "herm_dense") for i in shared)
    labels = ["dag-nodes=%d" % sum(reach), "dtype=" + case["dtype"], "shared=%d" % min(len(shared), 3)] + sorted(pats) + \
        sorted({"leaf=" + ins["kind"] for i, ins in enumerate(prog) if reach[i] and ins["op"] == "leaf"}) + \
        ["batchrank=%d" % len(R.shape[:-2])] + (["shared-implicit"] if implicit_shared else []) + \
        sorted({"factor=" + factor_class(ins["f"]) for i, ins in enumerate(prog) if reach[i] and ins["op"] == "mul"})
    if not all(bool(torch.isfinite(v[2]).all()) for v in vals):
        return discard("dense reference not finite", labels)
    v = check_products(A, R, Ra, case, g, dtype, labels)
    if v is not None:
        return v
    # the shared operands themselves must not have been affected by being used in several places
    sel = case.get("which")
    for i in shared[:2]:
        Ai, Ri, Rai = vals[i]
        v = check_products(Ai, Ri, Rai, dict(case, which=sel or ["mv", "rmv", "fullmatrix"]), g, dtype, labels + ["operand-recheck"])
        if v is not None:
            return violation("shared_operand:" + v.kind, "node %d (used %d times) after building the expression: %s" % (i, uses[i], v.detail), labels)
    return ok(labels, bool(shared))


# ------------------------------------------------------------------ rejections

def run_reject(case):
    import xitorch
    torch.manual_seed(0)
    g = gen.seeded(case["seed"])
    dtype = DT[case["dtype"]]
    what = case["what"]
    p, q = case["p"], case["q"]
    kind = case["kind"]
    labels = ["reject=" + what, "kind=" + kind]

    def mk(pp, qq, batch=()):
        M = gen.randn(g, (*batch, pp, qq), dtype)
        if kind == "dense":
            return xitorch.LinearOperator.m(M)
        if kind == "lenient":
            # a user operator whose own products silently tolerate over-long inputs: only the public
            # methods' shape checks stand between a wrong-sized operand and a wrong answer
            def _mv(self, x):
                return torch.matmul(self.M, x[..., :qq].unsqueeze(-1)).squeeze(-1)

            def _rmv(self, x):
                return torch.matmul(self.M.transpose(-2, -1).conj(), x[..., :pp].unsqueeze(-1)).squeeze(-1)

            def _mm(self, x):
                return torch.matmul(self.M, x[..., :qq, :])

            def _rmm(self, x):
                return torch.matmul(self.M.transpose(-2, -1).conj(), x[..., :pp, :])

            def __init__(self, M):
                xitorch.LinearOperator.__init__(self, shape=M.shape, dtype=M.dtype, device=M.device)
                self.M = M
            return type("R_lenient", (xitorch.LinearOperator,), {"_mv": _mv, "_rmv": _rmv, "_mm": _mm, "_rmm": _rmm, "__init__": __init__})(M)
        cls = make_user_class("R_" + kind, METHODSETS[kind] + ["_getparamnames"])
        return cls(M)

    def expect(exc, fn, descr):
        try:
            fn()
        except exc:
            return None
        except Exception as e:  # noqa: BLE001
            return violation("wrong_error", "%s raised %s instead of %s: %s" % (descr, type(e).__name__, exc.__name__, e), labels)
        return violation("not_rejected", "%s was accepted" % descr, labels)

    A = mk(p, q, tuple(case["batch"]))
    bad = case["bad"]      # a size different from the required one
    if what == "mv":
        v = expect(RuntimeError, lambda: A.mv(gen.randn(g, (q + bad,), dtype)), "mv with inner size %d on (%d,%d)" % (q + bad, p, q))
    elif what == "mm":
        v = expect(RuntimeError, lambda: A.mm(gen.randn(g, (q + bad, 2), dtype)), "mm with inner size %d" % (q + bad))
    elif what == "rmv":
        v = expect(RuntimeError, lambda: A.rmv(gen.randn(g, (p + bad,), dtype)), "rmv with inner size %d" % (p + bad))
    elif what == "rmm":
        v = expect(RuntimeError, lambda: A.rmm(gen.randn(g, (p + bad, 2), dtype)), "rmm with inner size %d" % (p + bad))
    elif what == "matmul":
        B = mk(q + bad, p)
        v = expect(RuntimeError, lambda: A.matmul(B), "matmul (%d,%d)x(%d,%d)" % (p, q, q + bad, p))
    elif what == "add":
        B = mk(p, q + bad)
        v = expect(RuntimeError, lambda: (A + B) if case["seed"] % 2 else (A - B), "add/sub of (%d,%d) and (%d,%d)" % (p, q, p, q + bad))
    elif what == "add_rows":
        # equal column counts, different row counts (a 1-row operand would even broadcast silently)
        B = mk(p + bad if case["seed"] % 3 else 1 if p != 1 else 2, q)
        v = expect(RuntimeError, lambda: (A + B) if case["seed"] % 2 else (A - B), "add/sub of (%d,%d) and (%d,%d)" % (p, q, B.shape[-2], q))
        if v is None:
            v = expect(RuntimeError, lambda: (B + A) if case["seed"] % 2 else (B - A), "add/sub of (%d,%d) and (%d,%d)" % (B.shape[-2], q, p, q))
    elif what == "herm_nonsquare":
        cls = make_user_class("R_h", ["_mv"])
        M = gen.randn(g, (p, p + bad), dtype)
        v = expect(RuntimeError, lambda: cls(M, is_hermitian=True), "Hermitian flag on a %dx%d operator" % (p, p + bad))
    elif what == "herm_notherm":
        M = gen.randn(g, (p, p), dtype) + 3 * torch.triu(torch.ones(p, p, dtype=dtype), 1)
        if p < 2:
            return discard("needs p>=2", labels)
        v = expect(RuntimeError, lambda: xitorch.LinearOperator.m(M, is_hermitian=True), "is_hermitian=True on a non-Hermitian matrix")
    elif what == "no_mv":
        cls = type("R_nomv", (xitorch.LinearOperator,), {"_rmv": _impls()["_rmv"]})
        v = expect(RuntimeError, lambda: cls(shape=(p, q)), "class without _mv")
    elif what == "scalar_type":
        f = case["scalar"]
        val = {"str": "2", "tensor": torch.tensor(2.0), "complex": 2j, "none": None, "list": [2]}[f]
        v = expect(TypeError, lambda: (A * val) if case["seed"] % 2 else (val * A), "multiplication by %s" % f)
    else:
        raise ValueError(what)
    return v or ok(labels, True)


# ------------------------------------------------------------------ class histories

def run_classes(case):
    """ops: ["def", parent_index_or_-1, [methods]]  ["new", class_index]  ["probe", instance_index]"""
    import xitorch
    torch.manual_seed(0)
    g = gen.seeded(case["seed"])
    dtype = torch.float64
    classes = []        # (cls, own+inherited methods, counter)
    instances = []      # (obj, class_index, M)
    sub_after_parent = False
    instantiated = set()
    for step, op in enumerate(case["ops"]):
        where = "step %d %r" % (step, op)
        if op[0] == "def":
            parent = op[1]
            methods = list(op[2])
            counter = {}
            if parent < 0 or parent >= len(classes):
                base, inherited = None, set()
                with_init = True
            else:
                base, inherited = classes[parent][0], set(classes[parent][1])
                with_init = False
            cls = make_user_class("H%d" % len(classes), methods, base=base, counter=counter, with_init=with_init)
            classes.append((cls, inherited | set(methods), counter, parent if base is not None else -1))
        elif op[0] == "new":
            if not classes:
                continue
            ci = op[1] % len(classes)
            cls, meths, counter, parent = classes[ci]
            M = gen.randn(g, (2, 3), dtype)
            if "_mv" not in meths:
                try:
                    cls(M)
                except RuntimeError:
                    instantiated.add(ci)
                    continue
                return violation("no_mv_accepted", "%s: a class without _mv was instantiated" % where)
            try:
                obj = cls(M)
            except Exception as e:  # noqa: BLE001
                return violation("instantiate", "%s: instantiating a class defining %s raised %s: %s" % (where, sorted(meths), type(e).__name__, e))
            if parent >= 0 and parent in instantiated:
                sub_after_parent = True
            instantiated.add(ci)
            instances.append((obj, ci, M))
        elif op[0] == "probe":
            if not instances:
                continue
            obj, ci, M = instances[op[1] % len(instances)]
            cls, meths, counter, parent = classes[ci]
            flags = {"_rmv": obj.is_rmv_implemented, "_mm": obj.is_mm_implemented, "_rmm": obj.is_rmm_implemented,
                     "_fullmatrix": obj.is_fullmatrix_implemented, "_getparamnames": obj.is_getparamnames_implemented}
            for m, f in flags.items():
                if bool(f) != (m in meths):
                    return violation("capability_flag", "%s: instance of class defining %s reports %s implemented=%s" % (
                        where, sorted(meths), m, f))
            x = gen.randn(g, (3,), dtype)
            y = gen.randn(g, (2,), dtype)
            X = gen.randn(g, (3, 2), dtype)
            Y = gen.randn(g, (2, 2), dtype)
            calls = [("mv", lambda: obj.mv(x), M @ x, "_mv"), ("rmv", lambda: obj.rmv(y), M.T @ y, "_rmv"),
                     ("mm", lambda: obj.mm(X), M @ X, "_mm"), ("rmm", lambda: obj.rmm(Y), M.T @ Y, "_rmm"),
                     ("fullmatrix", lambda: obj.fullmatrix(), M, "_fullmatrix")]
            for name, fn, ref, meth in calls:
                # counters live on the class that defines the method: sum over the MRO
                def count():
                    tot = 0
                    for (c2, _, cnt, _) in classes:
                        if issubclass(cls, c2):
                            tot += cnt.get(meth, 0)
                    return tot
                before = count()
                got = xt_call(fn, _where=name)
                if not torch.allclose(got, ref, atol=1e-12, rtol=1e-12):
                    return violation("history_value", "%s: %s of instance (class defines %s) is wrong" % (where, name, sorted(meths)))
                if meth in meths and meth != "_mv" and count() == before:
                    return violation("routing", "%s: %s did not use the class's own %s" % (where, name, meth))
            if "_getparamnames" in meths:
                names = obj.getparamnames("mm")
                if names != ["M"]:
                    return violation("paramnames", "%s: getparamnames -> %r" % (where, names))
    labels = ["classes=%d" % len(classes), "sub_after_parent" if sub_after_parent else "flat"]
    return ok(labels, sub_after_parent and any(o[0] == "probe" for o in case["ops"]))


def machine(holder):
    class ClassHistory(RuleBasedStateMachine):
        def __init__(self):
            super().__init__()
            self.case = {"seed": 0, "ops": []}
            self.ncls = 0
            self.ninst = 0

        @initialize(seed=st.integers(0, 2 ** 31 - 1))
        def init(self, seed):
            self.case["seed"] = seed

        @rule(parent=st.integers(-1, 3), methods=st.lists(st.sampled_from(["_rmv", "_mm", "_rmm", "_fullmatrix", "_getparamnames"]),
                                                          unique=True, max_size=4), has_mv=st.sampled_from([True, True, True, False]))
        def define(self, parent, methods, has_mv):
            parent = parent if parent < self.ncls else -1
            ms = list(methods)
            if parent < 0 and has_mv:
                ms = ["_mv"] + ms
            self.case["ops"].append(["def", parent, ms])
            self.ncls += 1

        @precondition(lambda self: self.ncls > 0)
        @rule(i=st.integers(0, 7))
        def new(self, i):
            self.case["ops"].append(["new", i])
            self.ninst += 1

        @precondition(lambda self: self.ninst > 0)
        @rule(i=st.integers(0, 7))
        def probe(self, i):
            self.case["ops"].append(["probe", i])

        def teardown(self):
            holder["submit"](self.case)
    return ClassHistory


# ------------------------------------------------------------------ strategies

LEAF_KINDS = ["mv", "mv_rmv", "mv_mm", "all", "dense", "herm_user", "herm_dense", "jac"]

# ---- scalar factors.  `f * A` accepts every python int / float; the matrix of the product is f * matrix(A) in the OPERATOR's
# dtype, so a float64 / complex128 operator keeps all 53 bits of f and accepts every magnitude whose product is representable.
# "ordinary" factors: |f| in [1/16, 16] (or 0): small ints, dyadic floats, decimal fractions that are not representable in single
# precision, random doubles with a full mantissa.  "extreme" factors: magnitudes far outside [1/16, 16] (for float64/complex128
# far outside the float32 range as well) and large ints.  The magnitude of the dense reference is kept inside the normal range
# of the operator's dtype BY CONSTRUCTION: a tree carries at most one extreme factor, a dag keeps a per-node interval of
# log10(product of factor magnitudes) inside MAGBUDGET (candidates that would leave it are not offered).
FACTORS_PLAIN = [2, -1, 0.5, -3.25, 1, 3, -7, 16, 0.0625]
FACTORS_DOUBLE = [0.1, -1.0 / 3.0, 1.7, -0.7, 3.141592653589793, -2.718281828459045, 0.3, 1.1, -12.6, 1.0000000000000002, 0.9999999999999999]
EXTREME = {
    # (fixed values, decimal exponent ranges for random mantissa * 10**e)
    "f64": ([1e-60, 1e60, -3e-45, 1e39, 7e-46, 1e-38, -1e-260, 1e250, 3.4028235677973366e38, 2 ** 40 + 1, -(2 ** 53 - 1), 10 ** 17 + 3, 123456789],
            [(-260, -39), (-38, -3), (3, 38), (39, 249)]),
    "f32": ([1e-15, 1e9, -3e-12, 123456789, 16777217, -2.5e8, 1e-7, 33554433], [(-15, -3), (3, 8)]),
}
EXTREME["c128"] = EXTREME["f64"]
# log10 interval in which the product of all factor magnitudes of a dag node is kept (matrix entries and operands are O(1))
MAGBUDGET = {"f64": (-260.0, 250.0), "c128": (-260.0, 250.0), "f32": (-15.0, 12.0)}


def factor_st(zero=False):
    """ordinary factor: python int or float, |f| in [1/16, 16] (0 on request)"""
    rnd = st.tuples(st.booleans(), st.floats(min_value=0.0625, max_value=16.0, allow_nan=False, allow_infinity=False)).map(
        lambda t: -t[1] if t[0] else t[1])
    return st.one_of(st.sampled_from(FACTORS_PLAIN), st.sampled_from(FACTORS_DOUBLE), rnd, *([st.sampled_from([0, 0.0, 1, -1])] if zero else []))


@st.composite
def extreme_factor_st(draw, dtype):
    fixed, ranges = EXTREME[dtype]
    if draw(st.booleans()):
        return draw(st.sampled_from(fixed))
    lo, hi = draw(st.sampled_from(ranges))
    e = draw(st.integers(lo, hi))
    m = draw(st.floats(min_value=1.0, max_value=9.999, allow_nan=False))
    f = float("%re%d" % (m, e))      # correctly rounded decimal -> double
    return -f if draw(st.booleans()) else f


def log10abs(f):
    import math
    return math.log10(abs(f)) if f != 0 else 0.0


def factor_class(f):
    """label only: which kind of number the factor is"""
    if f == 0:
        return "zero"
    mag = "" if 0.0625 <= abs(f) <= 16 else "-extreme"
    if isinstance(f, int):
        return ("int" if abs(f) < 2 ** 24 else "bigint") + mag
    single = torch.tensor(f, dtype=torch.float64).to(torch.float32).to(torch.float64).item() == f
    return ("float-single-exact" if single else "float-double-only") + mag


def all_dense(tree):
    """every leaf of the subtree is a wrapped dense matrix: xitorch then evaluates the subtree eagerly into ONE wrapped matrix
    (LinearOperator.m(...) with the Hermiticity auto-detection at every .H / + / - / scalar* node)"""
    return all(l["kind"] in ("dense", "herm_dense") for l in leaves_of(tree, []))


# Formerly excluded region (defect D54, repaired in /repo 8bcc6d5; regress/C11/small_wrapped_matrix_autoflagged_hermitian.json): LinearOperator.m(mat) with
# is_hermitian=None decides Hermiticity with torch.allclose's ABSOLUTE tolerance 1e-8, so every square wrapped matrix whose
# entries are below ~1e-8 is flagged Hermitian and its rmv/rmm/.H silently apply the matrix instead of its adjoint.  Scalings
# of all-dense sub-expressions therefore use |f| >= DENSE_MINFACTOR (or 0), which keeps the product of the factors of such a
# sub-expression >= 0.5**6 at the depths generated.
DENSE_MINFACTOR = 0.0      # D54 repaired in /repo (8bcc6d5): the exclusion is off (kept as a switch)


def big_factor_st(zero=False):
    """ordinary factor with |f| in [0.5, 16] (0 on request)"""
    rnd = st.tuples(st.booleans(), st.floats(min_value=0.5, max_value=16.0, allow_nan=False, allow_infinity=False)).map(
        lambda t: -t[1] if t[0] else t[1])
    return st.one_of(st.sampled_from([f for f in FACTORS_PLAIN if abs(f) >= DENSE_MINFACTOR]),
                     st.sampled_from([f for f in FACTORS_DOUBLE if abs(f) >= DENSE_MINFACTOR]), rnd,
                     *([st.sampled_from([0, 0.0, 1, -1])] if zero else []))


def mul_nodes(tree, out):
    if tree["op"] == "mul":
        out.append(tree)
    for k in ("a", "b"):
        if tree["op"] != "leaf" and k in tree:
            mul_nodes(tree[k], out)
    return out


def _sub_batch(draw, batch):
    """a batch shape broadcastable to `batch`: drop leading dims, replace dims by 1"""
    k = draw(st.integers(0, len(batch)))
    b = list(batch[k:])
    return [1 if draw(st.booleans()) and draw(st.booleans()) else d for d in b]


@st.composite
def tree_st(draw, p, q, depth, batch, dtype):
    if depth == 0 or draw(st.integers(0, 3)) == 0:
        kinds = list(LEAF_KINDS)
        if p != q:
            kinds = [k for k in kinds if not k.startswith("herm")]
        kind = draw(st.sampled_from(kinds))
        b = _sub_batch(draw, batch)
        if kind == "jac":
            if dtype == "c128":
                kind = "mv"
            else:
                b = []
        leaf = {"op": "leaf", "kind": kind, "p": p, "q": q, "batch": b}
        if kind == "herm_dense":
            leaf["flag"] = draw(st.sampled_from([None, True]))
        return leaf
    if p == q and draw(st.integers(0, 4)) == 0:
        # compositions of Hermitian-flagged operands: the result's own Hermitian flag (which short-cuts rmv/rmm/.H) must only be
        # set when the composition really is Hermitian (a product of non-commuting Hermitian factors is not)
        def hleaf():
            kind = draw(st.sampled_from(["herm_user", "herm_user", "herm_dense"]))
            leaf = {"op": "leaf", "kind": kind, "p": p, "q": p, "batch": _sub_batch(draw, batch)}
            if kind == "herm_dense":
                leaf["flag"] = True
            return leaf
        op = draw(st.sampled_from(["matmul", "matmul", "add", "sub", "mul"]))
        if op == "mul":
            a = hleaf()
            return {"op": "mul", "f": draw(big_factor_st() if all_dense(a) else factor_st()), "side": draw(st.sampled_from(["l", "r"])), "a": a}
        return {"op": op, "a": hleaf(), "b": hleaf()}
    op = draw(st.sampled_from(["H", "matmul", "add", "sub", "mul"]))
    if op == "H":
        return {"op": "H", "a": draw(tree_st(q, p, depth - 1, batch, dtype))}
    if op == "mul":
        a = draw(tree_st(p, q, depth - 1, batch, dtype))
        return {"op": "mul", "f": draw(big_factor_st(zero=True) if all_dense(a) else factor_st(zero=True)),
                "side": draw(st.sampled_from(["l", "r"])), "a": a}
    if op == "matmul":
        k = draw(st.integers(1, 4))
        return {"op": "matmul", "a": draw(tree_st(p, k, depth - 1, batch, dtype)), "b": draw(tree_st(k, q, depth - 1, batch, dtype))}
    return {"op": op, "a": draw(tree_st(p, q, depth - 1, batch, dtype)), "b": draw(tree_st(p, q, depth - 1, batch, dtype))}


@st.composite
def expr_st(draw, tier="quick"):
    dtype = draw(st.sampled_from(["f64", "f64", "c128", "c128", "f32"]))
    batch = draw(st.lists(st.integers(1, 3), max_size=2))
    p, q = draw(st.integers(1, 4)), draw(st.integers(1, 4))
    if draw(st.booleans()):
        q = p
    maxd = 3 if tier == "quick" else 4
    d = draw(st.integers(0, maxd))
    tree = draw(tree_st(p, q, d, batch, dtype))
    # at most ONE factor of extreme magnitude per tree (all others are within [1/16, 16]): an existing scaling node gets it, or
    # the whole expression is scaled when the depth allows
    skipped = False
    if draw(st.integers(0, 3)) == 0:
        f = draw(extreme_factor_st(dtype))
        # small factors only on sub-expressions that are not evaluated eagerly into one wrapped matrix (see DENSE_MINFACTOR)
        muls = [m for m in mul_nodes(tree, []) if abs(f) >= DENSE_MINFACTOR or not all_dense(m["a"])]
        if muls:
            muls[draw(st.integers(0, len(muls) - 1))]["f"] = f
        elif depth(tree) < maxd and (abs(f) >= DENSE_MINFACTOR or not all_dense(tree)):
            tree = {"op": "mul", "f": f, "side": draw(st.sampled_from(["l", "r"])), "a": tree}
        else:
            skipped = abs(f) < DENSE_MINFACTOR
    # operand batch: broadcastable with the operator batch, possibly longer
    xb = _sub_batch(draw, batch)
    if draw(st.integers(0, 4)) == 0:
        xb = [draw(st.integers(1, 2))] + list(batch)
    case = {"tree": tree, "dtype": dtype, "xbatch": xb, "r": draw(st.integers(1, 3)), "seed": draw(st.integers(0, 2 ** 31 - 1))}
    if skipped:
        case["excluded"] = "small-factor-on-wrapped-matrix"     # counted in the evidence (label), the tree is used unscaled
    return case


@st.composite
def dag_st(draw, tier="quick"):
    """straight-line programs whose operands are drawn among the nodes built so far (by reference), their .H views, or new leaves"""
    dtype = draw(st.sampled_from(["f64", "f64", "c128", "c128", "f32"]))
    batch = draw(st.lists(st.integers(1, 3), max_size=2))
    p0 = draw(st.integers(1, 4))
    q0 = p0 if draw(st.integers(0, 3)) else draw(st.integers(1, 4))
    prog, shapes, mags, dn = [], [], [], []      # mags: interval of log10(product of factor magnitudes) of every node
    LO, HI = MAGBUDGET[dtype]                    # dn: the node is ONE wrapped matrix (all-dense sub-expression, see DENSE_MINFACTOR)
    DLO = -2.0                                   # ... whose factor product stays >= 1e-2

    def emit(ins, shape, mag=(0.0, 0.0), dense=False):
        assert LO <= mag[0] <= mag[1] <= HI and (not dense or mag[1] >= DLO), (mag, ins)
        prog.append(ins)
        shapes.append(shape)
        mags.append(mag)
        dn.append(dense)
        return len(prog) - 1

    def scaled(i, extreme_ok):
        """a scaling node of node i whose magnitude interval stays inside the budget: an extreme factor where there is room
        for it (one draw in four), else an ordinary one, else (no room at all) a factor of magnitude 1"""
        lo, hi = mags[i]
        ordinary = big_factor_st() if dn[i] else factor_st()

        def fits(f):
            return LO <= lo + log10abs(f) and hi + log10abs(f) <= HI and (not dn[i] or (abs(f) >= DENSE_MINFACTOR and hi + log10abs(f) >= DLO))
        f = draw(extreme_factor_st(dtype)) if extreme_ok and draw(st.integers(0, 3)) == 0 else draw(ordinary)
        if not fits(f):
            f = draw(ordinary)
            if not fits(f):
                f = draw(st.sampled_from([1, -1, -1.0]))
        L = log10abs(f)
        return emit({"op": "mul", "a": i, "f": f, "side": draw(st.sampled_from(["l", "r"]))}, shapes[i], (lo + L, hi + L), dn[i])

    def new_leaf(p, q):
        kinds = ["mv", "mv_rmv", "mv_mm", "all", "mv", "mv_rmv", "dense", "jac"] + (["herm_user", "herm_dense"] if p == q else [])
        kind = draw(st.sampled_from(kinds))
        b = _sub_batch(draw, batch)
        if kind == "jac":
            if dtype == "c128":
                kind = "mv"
            else:
                b = []
        leaf = {"op": "leaf", "kind": kind, "p": p, "q": q, "batch": b}
        if kind == "herm_dense":
            leaf["flag"] = draw(st.sampled_from([None, True]))
        return emit(leaf, (p, q), dense=kind in ("dense", "herm_dense"))

    def operand(ok_shape, newshape, scaled_of=None, ok_node=lambda i: True):
        """an existing node whose shape satisfies ok_shape (and which satisfies ok_node: magnitude budget), the .H view of an
        existing node, a multiple of the other operand, or (last choice) a new leaf"""
        cands = [("n", i) for i, sh in enumerate(shapes) if ok_shape(sh) and ok_node(i)] + \
                [("h", i) for i, sh in enumerate(shapes) if ok_shape((sh[1], sh[0])) and ok_node(i)] + \
                ([("m", scaled_of)] if scaled_of is not None else [])
        k = draw(st.integers(0, len(cands)))
        if k == len(cands):
            return new_leaf(*newshape())
        how, i = cands[k]
        if how == "n":
            return i
        if how == "m":
            return scaled(i, extreme_ok=False)
        return emit({"op": "H", "a": i}, (shapes[i][1], shapes[i][0]), mags[i], dn[i])

    new_leaf(p0, q0)
    nsteps = draw(st.integers(1, 3 if tier == "quick" else 5))
    for _ in range(nsteps):
        op = draw(st.sampled_from(["sub", "sub", "add", "matmul", "matmul", "mul", "H"]))
        # first operand: mostly a node that exists already (so that later nodes combine X with expressions containing X)
        a = draw(st.integers(0, len(prog) - 1)) if draw(st.integers(0, 2)) else operand(lambda sh: True, lambda: (p0, q0))
        pa, qa = shapes[a]
        la, ha = mags[a]
        if op == "H":
            emit({"op": "H", "a": a}, (qa, pa), mags[a], dn[a])
        elif op == "mul":
            scaled(a, extreme_ok=True)
        elif op == "matmul":
            # magnitudes multiply: only second operands that keep the product inside the budget are offered (a new leaf always does)
            b = operand(lambda sh: sh[0] == qa, lambda: (qa, draw(st.integers(1, 4))),
                        ok_node=lambda i: LO <= la + mags[i][0] and ha + mags[i][1] <= HI and
                        (not (dn[a] and dn[i]) or ha + mags[i][1] >= DLO))
            emit({"op": "matmul", "a": a, "b": b}, (pa, shapes[b][1]), (la + mags[b][0], ha + mags[b][1]), dn[a] and dn[b])
        else:
            b = operand(lambda sh: sh == (pa, qa), lambda: (pa, qa), scaled_of=a)
            emit({"op": op, "a": a, "b": b}, (pa, qa), (min(la, mags[b][0]), max(ha, mags[b][1])), dn[a] and dn[b])
    xb = _sub_batch(draw, batch)
    if draw(st.integers(0, 4)) == 0:
        xb = [draw(st.integers(1, 2))] + list(batch)
    return {"prog": prog, "dtype": dtype, "xbatch": xb, "r": draw(st.integers(1, 3)), "seed": draw(st.integers(0, 2 ** 31 - 1))}


@st.composite
def reject_st(draw):
    return {"what": draw(st.sampled_from(["mv", "mm", "rmv", "rmm", "matmul", "add", "add_rows", "herm_nonsquare", "herm_notherm", "no_mv", "scalar_type"])),
            "kind": draw(st.sampled_from(["mv", "mv_rmv", "mv_mm", "all", "dense", "lenient", "lenient"])),
            "p": draw(st.integers(1, 4)), "q": draw(st.integers(1, 4)), "bad": draw(st.sampled_from([1, 2, 3])),
            "batch": draw(st.lists(st.integers(1, 2), max_size=2)), "dtype": draw(st.sampled_from(["f64", "c128", "f32"])),
            "scalar": draw(st.sampled_from(["str", "tensor", "complex", "none", "list"])), "seed": draw(st.integers(0, 2 ** 31 - 1))}


def tasks(tier):
    return [
        Task("expr", strategy=expr_st(tier), run=run_expr, examples={"quick": 1600, "thorough": 30000}),
        Task("dag", strategy=dag_st(tier), run=run_dag, examples={"quick": 700, "thorough": 12000}),
        Task("reject", strategy=reject_st(), run=run_reject, examples={"quick": 400, "thorough": 4000}),
        Task("classes", machine=machine, run=run_classes, examples={"quick": 400, "thorough": 6000},
             steps={"quick": 10, "thorough": 16}),
    ]
