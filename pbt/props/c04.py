"""C04 — implicit gradients of rootfinder / equilibrium / minimize are exact.

The user function is one of the families below realised in a function kind of pbt/gen.py (explicit params, nn.Module,
nested modules, EditableModule incl. containers, nn.Module inside EditableModule, siblings), with optional unused tensor,
non-tensor parameter `scale`, derived (non-leaf) effective tensors, and a subset of leaves requiring grad.

With leaves E0, E1 of shape (n, n):  Ahat = Lc E0 / sqrt(1 + |E0|_F^2) (so |Ahat|_2 < Lc whatever the values),
b = row 0 of E1, d = 1 + 0.3 tanh(row 1 of E1) in (0.7, 1.3), per row y of the unknown and z = Ahat y + scale b:

  tanh / equilibrium   g(y) = tanh(z)                 root form f = y - g          Lc = 0.5
  tanh / rootfinder    f(y) = y - tanh(z)
  mono / rootfinder    f(y) = d*y + 0.5 tanh(z)       (Lc = 0.4 -> |0.5 diag(sech^2) Ahat| < 0.2, sigma_min >= 0.5)
  mono / equilibrium   g(y) = y - f(y)
  csin / both          g(y) = c sin(Ahat y + scale bhat), complex, bhat = 0.25 b/sqrt(1+|b|^2), c = 0.8/(cosh(1.5) sqrt(n)), Lc = 1
  quad / minimize      phi(y) = sum 1/2 d*y^2 - scale b.y + 0.5 sum_i log cosh((Ahat y)_i),  Lc = 1, Hessian in [0.7, 1.8]

Oracle.  First order (every forward method, any accuracy of the returned point): the implicit-function-theorem formula
*at the returned point* with dense algebra: v = -J(y_ret)^{-H} grad_y (closed-form Jacobian, torch.linalg.solve), then the
vector-Jacobian product of the plain-torch f(y_ret, theta) with cotangent v.  Second order (and first order again): K=3
Newton steps unrolled in plain torch from the detached returned point with the closed-form Jacobian — differentiable to
all orders in theta, equal to the solution to O(residual^2).  y0, the unused tensor and tensors with requires_grad=False
get no gradient.  A twin configuration (other forward method / initial guess / backward solver) must give the same
gradients (each is compared with its own dense reference and the two with each other).

Cotangents that are zero in value (second order only; the references are the same unrolled Newton map, same tolerance):
  loss=fit    L = 1/2 <y - t, w (y - t)>, t = y.detach(), w = |W| + 0.5: the cotangent reaching the backward is exactly 0 but depends on
              theta.  First order must be 0, second order must be the Gauss-Newton term  d/dtheta <C, dL/dtheta> = J^H w J C.
  loss=trick  the double-backward trick (torch.autograd.functional.jvp): vjp(u) = J^H u recorded at u = zeros(requires_grad=True);
              d/du <C, vjp(u)> must be the Jacobian-vector product J C of the reference and d/dtheta of it 0.
again=True: every backward (first order and second order) is run a second time through the same retained graph, the global torch generator
being re-seeded before each run (the Krylov set-up draws a probe vector from it): the two results must be identical bit for bit - the
backward must not consume or alter state (options dictionaries, saved operators) that a second run needs.
Two slots: with probability 1/5 the second effective tensor is an alias of the first (the same tensor object twice in `params`, in `params`
and in the object, or under two names of the object); the nn kinds also place a Parameter explicitly and in the module when an object-held
product depends on it.  Otherwise, with probability 1/6, an explicit tensor without requires_grad is placed before a differentiable explicit
tensor (pure: leaves (const, grad); object kinds: the first effective tensor explicit and constant, followed by the explicit unused tensor).
"""
from __future__ import annotations

import gc
import math

import torch
from hypothesis import strategies as st

from pbt import gen
from pbt import ref_c03 as R
from pbt.harness import Task, ok, violation, discard, xt_call

PID = "C04"
RULE = ("families tanh / mono / csin (complex, holomorphic in y) / quad realised in the function kinds of pbt/gen.py (pure, nn, nn_nested, em, "
        "em_cont, em_nn, sib1, sib2; derived effective tensors, optional unused tensor, non-tensor scale, leaves with and without requires_grad); "
        "n 2..8 and 1-3 rows so that N = numel(y) crosses the dense(<=5)/Krylov(>5) default of the backward solve; APIs rootfinder / equilibrium "
        "/ minimize x every forward method; bck_options default / exactsolve / cg / bicgstab / gmres (tight tolerances); first and second order; "
        "y0 with/without requires_grad; optional twin configuration; loss linear <W,y> / least-squares at a perfect fit (zero cotangent with a "
        "graph, Gauss-Newton second order) / double-backward trick (vjp at u=zeros(requires_grad) differentiated w.r.t. u = jvp); every backward "
        "optionally run twice through the same retained graph (bit-identical); one tensor in two slots (alias of the first effective tensor: "
        "twice in params / params and object / two names of the object); explicit tensors without requires_grad before differentiable ones. "
        "Non-trivial = at least one leaf requires grad, its reference gradient (the second-order reference for the fit / trick losses) is "
        "non-zero and the forward solver evaluated the function >= 3 times; distinct by canonical case.")
ASSUMPTIONS = [
    "forward tolerances are tight (f_tol 1e-10 for root solvers / anderson, x_tol 1e-11 step for gd) except adam (only the first-order check "
    "at the returned point applies to it); cases whose forward or backward solve warned are discarded and counted",
    "kappa(J) <= kap of the family: tanh 3, mono 3.4 (sigma_min>=0.5, |J|<=1.7), csin (1+L)/(1-L) with L=0.8/sqrt(n), quad 1.8/0.7",
    "first order: |g - ref| <= 10 kap^2 (tol_b + 1e3 N eps) (1 + max|ref|), tol_b = rtol of the backward Krylov solve (default 1e-6, 0 for exactsolve)",
    "second order: |g2 - ref2| <= 100 kap^2 (res + tol_b + 1e3 N eps) (1 + max|ref2|) with res the measured residual of the returned point",
    "the reference Jacobians are closed forms (cross-checked against torch.autograd.functional.jacobian in the module's self test)",
    "complex: the function is holomorphic in y only; gradients w.r.t. complex leaves follow torch's convention on both sides",
    "fit / trick losses: same second-order tolerance, scale = the reference Gauss-Newton product / Jacobian-vector product; the first-order "
    "gradient (reference 0) is held to the first-order tolerance",
    "a second backward through the same retained graph, with the global torch generator re-seeded to the same state, is bit-identical "
    "(single-threaded deterministic CPU kernels; no documented state is consumed by backward)",
]
LEVEL_TEXT = ("Exploration against two independent plain-torch references (dense implicit-function formula at the returned point; unrolled Newton "
              "iteration differentiated twice), over parameter placement kinds and forward/backward solver configurations.")
LEVEL_NOTE = "trusts torch autograd (incl. double backward of torch.linalg.solve) on the plain-torch references; N <= 24"
TECHNIQUE = "Hypothesis property-based testing: differentiable reference models + differential (twin configuration) oracle"
WALL = {"quick": 300, "thorough": 1500}

RF = ["newton", "broyden1", "broyden2", "linearmixing"]
METHODS = {"rootfinder": RF, "equilibrium": RF + ["anderson_acc"], "minimize": RF + ["gd", "adam"]}
LC = {"tanh": 0.5, "mono": 0.4, "csin": 1.0, "quad": 1.0}
EPS = 2.3e-16


# ------------------------------------------------------------------------------------------ the mathematics (rows Y: (R, n))

def pieces(fam, E0, E1, scale, n):
    Ahat = LC[fam] * E0 / torch.sqrt(1 + (E0.abs() ** 2).sum())
    b = E1[0]
    if fam == "csin":
        b = 0.25 * b / torch.sqrt(1 + (b.abs() ** 2).sum())
        return Ahat, scale * b, 0.8 / (R.K_CSIN * math.sqrt(n))
    d = 1 + 0.3 * torch.tanh(E1[1])
    return Ahat, scale * b, d


def f_rows(fam, Y, E0, E1, scale):
    """root form of the problem"""
    n = Y.shape[-1]
    Ahat, b, d = pieces(fam, E0, E1, scale, n)
    Z = Y @ Ahat.transpose(0, 1)
    if fam == "tanh":
        return Y - torch.tanh(Z + b)
    if fam == "mono":
        return Y * d + 0.5 * torch.tanh(Z + b)
    if fam == "csin":
        return Y - d * torch.sin(Z + b)
    if fam == "quad":
        return Y * d - b + 0.5 * torch.tanh(Z) @ Ahat
    raise ValueError(fam)


def g_rows(fam, Y, E0, E1, scale):
    n = Y.shape[-1]
    Ahat, b, d = pieces(fam, E0, E1, scale, n)
    Z = Y @ Ahat.transpose(0, 1)
    if fam == "tanh":
        return torch.tanh(Z + b)
    if fam == "csin":
        return d * torch.sin(Z + b)
    return Y - f_rows(fam, Y, E0, E1, scale)


def phi_rows(Y, E0, E1, scale):
    n = Y.shape[-1]
    Ahat, b, d = pieces("quad", E0, E1, scale, n)
    return (0.5 * d * Y * Y).sum() - (Y * b).sum() + 0.5 * R.logcosh(Y @ Ahat.transpose(0, 1)).sum()


def jac_rows(fam, Y, E0, E1, scale):
    """closed-form d f_i / d y_j per row, (R, n, n); differentiable in E0, E1"""
    n = Y.shape[-1]
    Ahat, b, d = pieces(fam, E0, E1, scale, n)
    Z = Y @ Ahat.transpose(0, 1)
    eye = torch.eye(n, dtype=Y.dtype)
    if fam == "tanh":
        t = torch.tanh(Z + b)
        return eye - (1 - t * t).unsqueeze(-1) * Ahat
    if fam == "mono":
        t = torch.tanh(Z + b)
        return torch.diag_embed(d.expand_as(Y)) + 0.5 * (1 - t * t).unsqueeze(-1) * Ahat
    if fam == "csin":
        return eye - d * torch.cos(Z + b).unsqueeze(-1) * Ahat
    if fam == "quad":
        t = torch.tanh(Z)
        return torch.diag_embed(d.expand_as(Y)) + 0.5 * torch.einsum("ki,rk,kj->rij", Ahat, (1 - t * t), Ahat)
    raise ValueError(fam)


def kappa(fam, n):
    if fam == "tanh":
        return 3.0
    if fam == "mono":
        return 3.4
    if fam == "csin":
        L = 0.8 / math.sqrt(n)
        return (1 + L) / (1 - L)
    return 1.8 / 0.7


def make_core(fam, api):
    def core(xs, eff, scale):
        y = xs[0]
        n = y.shape[-1]
        Y = y.reshape(-1, n)
        if api == "minimize":
            return phi_rows(Y, eff[0], eff[1], scale)
        if api == "equilibrium":
            return g_rows(fam, Y, eff[0], eff[1], scale).reshape(y.shape)
        return f_rows(fam, Y, eff[0], eff[1], scale).reshape(y.shape)
    return core


def inner(a, b):
    """real inner product Re<a, b>"""
    if a.is_complex() or b.is_complex():
        return (a.conj() * b).real.sum()
    return (a * b).sum()


def grads(y, xs, create_graph=False):
    if not isinstance(y, torch.Tensor) or not y.requires_grad:
        return [torch.zeros_like(x) for x in xs]
    gs = torch.autograd.grad(y, xs, create_graph=create_graph, allow_unused=True, retain_graph=True)
    return [torch.zeros_like(x) if g is None else g for g, x in zip(gs, xs)]


# ------------------------------------------------------------------------------------------ one configuration

def fwd_options(api, method, fam, n):
    if method in RF:
        return {"f_tol": 1e-10}
    if method == "anderson_acc":
        return {"f_tol": 1e-10}
    if method == "gd":
        step = 0.5        # lmax <= 1.8
        return {"step": step, "gamma": 0.0, "maxiter": 5000, "f_tol": 0.0, "f_rtol": 0.0, "x_rtol": 0.0, "x_tol": 1e-11 * step}
    if method == "adam":
        return {"step": 1e-2, "maxiter": 3000}
    raise ValueError(method)


def bck_options(name):
    if name == "default":
        return {}, 1e-6
    if name == "exactsolve":
        return {"method": "exactsolve"}, 0.0
    return {"method": name, "rtol": 1e-11, "atol": 1e-14}, 1e-11


def same_bits(a, b):
    """two results of one backward are the same: None in the same places, equal shapes and bit-identical values"""
    if a is None or b is None:
        return a is None and b is None
    return a.shape == b.shape and a.dtype == b.dtype and bool(torch.equal(a.detach(), b.detach()))


def run_config(case, cfg, leaves_vals, g, labels, second, primary=True):
    """build fresh leaves/function, run forward+backward for one configuration, compare with the references.
    returns (verdict or None, info)

    loss modes of the primary configuration (second order, not adam; `linear` otherwise):
      linear   L = Re<W, y>: the cotangent reaching the backward is the constant W
      fit      L = 1/2 <y - t, w (y - t)> with t = y.detach(), w > 0: the cotangent is exactly zero in value but depends on theta;
               the first-order gradient is 0 and the second-order one is the Gauss-Newton term J^H w J
      trick    the double-backward trick of torch.autograd.functional.jvp: the vjp u -> J^H u is recorded at u = zeros(requires_grad)
               and differentiated w.r.t. u, which gives the Jacobian-vector product J c (and 0 w.r.t. theta)
    `again`: every backward (first and second order) is run twice through the same retained graph; the results must be bit-identical."""
    import xitorch.optimize as xo
    fam, api, n, rows = case["fam"], case["api"], case["n"], case["rows"]
    spec = case["spec"]
    dtype = torch.complex128 if fam == "csin" else torch.float64
    shape = (n,) if rows == 0 else (rows, n)
    N = n * max(rows, 1)
    leaves = gen.make_leaves(leaves_vals, case["req"], spec["kind"])
    counter = gen.Counter()
    fcn, params, info = gen.build_function(make_core(fam, api), leaves, spec, counter)
    g0 = gen.seeded(cfg["y0seed"])
    if cfg["y0"] == "zero":
        y0 = torch.zeros(shape, dtype=dtype)
    else:
        y0 = gen.randn(g0, shape, dtype)
        y0 = y0 / y0.norm() * 0.5
    y0 = y0.requires_grad_(bool(cfg["y0grad"]))
    method = cfg["method"]
    bopt, tol_b = bck_options(cfg["bck"])
    if cfg["bck"] == "default" and N <= 5:
        tol_b = 0.0
    fopt = fwd_options(api, method, fam, n)
    apifn = {"rootfinder": xo.rootfinder, "equilibrium": xo.equilibrium, "minimize": xo.minimize}[api]
    with R.Recorder() as rec:
        y = xt_call(apifn, fcn, y0, params=params, bck_options=bopt, method=method, _where="forward", **fopt)
    out = {"evals": counter.n, "mode": "linear"}
    if rec.warned:
        return discard("forward_warned", labels), out
    diff_leaves = [l for l in leaves if l.requires_grad]
    extra = ([info["unused"]] if info["unused"] is not None else []) + ([y0] if y0.requires_grad else [])
    wrt = diff_leaves + extra
    W = gen.randn(g, shape, dtype)
    if not diff_leaves:
        if y.requires_grad and not extra:
            return violation("graph_without_inputs", "output requires grad although no input does", labels), out
        if not y.requires_grad:
            return None, out
    if diff_leaves and not y.requires_grad:
        return violation("no_graph", "the solution does not require grad although %d leaves do" % len(diff_leaves), labels), out
    mode = case.get("loss", "linear") if (primary and second and method != "adam") else "linear"
    again = bool(case.get("again")) and primary
    if primary:
        labels.append("loss=" + mode)
        labels.append("again=%s" % again)
    wpos = W.abs() + 0.5
    u = None
    out["mode"] = mode
    if mode == "fit":
        D = y - y.detach()
        outputs, gouts = 0.5 * inner(D, wpos * D), None
    elif mode == "trick":
        u = torch.zeros(shape, dtype=dtype, requires_grad=True)
        outputs, gouts = y, u
    else:
        outputs, gouts = inner(W, y), None
    bw = dict(grad_outputs=gouts, create_graph=second, allow_unused=True, _where="backward")
    if again:
        bw["retain_graph"] = True
    torch.manual_seed(case["seed"] & 0x7FFFFFFF)      # the Krylov set-up draws its probe vector from the global generator
    with R.Recorder() as rec:
        got = xt_call(torch.autograd.grad, outputs, wrt, **bw)
    if rec.warned:
        return discard("backward_warned:" + cfg["bck"], labels), out
    if again:
        torch.manual_seed(case["seed"] & 0x7FFFFFFF)
        got_b = xt_call(torch.autograd.grad, outputs, wrt, **bw)
        for k, (ga, gb) in enumerate(zip(got, got_b)):
            if not same_bits(ga, gb):
                return violation("backward_twice", "the second backward through the same graph differs from the first for input #%d (%s/%s, bck=%s, "
                                 "loss=%s, order %d): first %s second %s" % (k, api, method, cfg["bck"], mode, 2 if second else 1,
                                                                              None if ga is None else ga.reshape(-1)[:3].tolist(),
                                                                              None if gb is None else gb.reshape(-1)[:3].tolist()), labels), out

    # ---------------- no-gradient inputs
    for t, gk in zip(wrt[len(diff_leaves):], got[len(diff_leaves):]):
        if gk is not None and float(gk.abs().max()) != 0.0:
            what = "y0" if t is y0 else "unused tensor"
            return violation("gradient_for_" + what.replace(" ", "_"), "%s received gradient %r" % (what, gk.reshape(-1)[:4].tolist()), labels), out
    if not diff_leaves:
        return None, out

    # ---------------- reference 1: dense IFT formula at the returned point
    yd = y.detach()
    Yd = yd.reshape(-1, n)
    scale = float(spec.get("scale", 1.0))
    eff = gen.derive_all(spec["derive"], leaves)
    res = float(f_rows(fam, Yd, eff[0].detach(), eff[1].detach(), scale).norm())
    out["res"] = res
    kap = kappa(fam, n)
    J = jac_rows(fam, Yd, eff[0].detach(), eff[1].detach(), scale)                 # (R, n, n)
    gy = (W if mode == "linear" else torch.zeros_like(W)).reshape(-1, n)           # d loss / d y (torch convention); 0 for fit / trick
    v = -torch.linalg.solve(J.conj().transpose(-2, -1), gy.unsqueeze(-1)).squeeze(-1)
    fval = f_rows(fam, Yd, eff[0], eff[1], scale)
    ref1 = grads(inner(v, fval), diff_leaves)
    tol1 = 10 * kap ** 2 * (tol_b + 1e3 * N * EPS)
    nonzero = False
    worst = 0.0
    for k, (gk, rk, x) in enumerate(zip(got, ref1, diff_leaves)):
        gk0 = torch.zeros_like(x) if gk is None else gk.detach()
        err = float((gk0 - rk).abs().max())
        sc = float(rk.abs().max())
        nonzero = nonzero or sc > 0
        worst = max(worst, err / (tol1 * (1 + sc)))
        if not err <= tol1 * (1 + sc):
            return violation("grad1", "first-order gradient w.r.t. leaf #%d (%s/%s, bck=%s, kind=%s, N=%d): got %s ref %s, err %.3e > tol %.3e" % (
                k, api, method, cfg["bck"], spec["kind"], N, gk0.reshape(-1)[:3].tolist(), rk.reshape(-1)[:3].tolist(), err, tol1 * (1 + sc)), labels), out
    out["ratio1"] = worst
    out["nonzero"] = nonzero
    out["grad1"] = [(torch.zeros_like(x) if gk is None else gk.detach()) for gk, x in zip(got, diff_leaves)]
    out["tol1"] = tol1
    out["ref1max"] = max(float(r.abs().max()) for r in ref1)

    if second and method != "adam":
        C = [gen.randn(g, x.shape, x.dtype) for x in diff_leaves]
        terms = [inner(c, gk) for c, gk in zip(C, got) if gk is not None and gk.requires_grad]
        # ---------------- reference 2: unrolled Newton from the detached returned point
        Y = Yd
        for _ in range(3):
            F = f_rows(fam, Y, eff[0], eff[1], scale)
            Jk = jac_rows(fam, Y, eff[0], eff[1], scale)
            Y = Y - torch.linalg.solve(Jk, F.unsqueeze(-1)).squeeze(-1)
        Ys = Y.reshape(shape)
        targets, rtargets = list(diff_leaves), list(diff_leaves)
        if mode == "fit":
            Dr = Ys - Ys.detach()
            r1 = grads(0.5 * inner(Dr, wpos * Dr), diff_leaves, create_graph=True)
        elif mode == "trick":
            ur = torch.zeros(shape, dtype=dtype, requires_grad=True)
            r1 = torch.autograd.grad(Ys, diff_leaves, grad_outputs=ur, create_graph=True, allow_unused=True)
            r1 = [torch.zeros_like(x) if rk is None else rk for rk, x in zip(r1, diff_leaves)]
            targets, rtargets = targets + [u], rtargets + [ur]
        else:
            r1 = grads(inner(W, Ys), diff_leaves, create_graph=True)
        S_ref = sum(inner(c, rk) for c, rk in zip(C, r1))
        ref2 = grads(S_ref, rtargets)
        kind2 = {"linear": "grad2", "fit": "fit_grad2", "trick": "trick_jvp"}[mode]
        if mode != "linear":
            out["nonzero"] = any(float(r.abs().max()) > 0 for r in ref2)
        if not terms:
            if any(float(r.abs().max()) > 0 for r in ref2):
                return violation("no_second_graph", "create_graph=True produced first-order gradients without graph (loss=%s)" % mode, labels), out
            return None, out
        bw2 = dict(allow_unused=True, _where="backward2")
        if again:
            bw2["retain_graph"] = True
        torch.manual_seed(case["seed"] & 0x7FFFFFFF)
        with R.Recorder() as rec:
            got2 = xt_call(torch.autograd.grad, sum(terms), targets, **bw2)
        if rec.warned:
            return discard("backward2_warned:" + cfg["bck"], labels), out
        if again:
            torch.manual_seed(case["seed"] & 0x7FFFFFFF)
            got2_b = xt_call(torch.autograd.grad, sum(terms), targets, **bw2)
            for k, (ga, gb) in enumerate(zip(got2, got2_b)):
                if not same_bits(ga, gb):
                    return violation("backward2_twice", "the second run of the second-order backward through the same graph differs from the first "
                                     "for target #%d (%s/%s, bck=%s, loss=%s): first %s second %s" % (
                                         k, api, method, cfg["bck"], mode, None if ga is None else ga.reshape(-1)[:3].tolist(),
                                         None if gb is None else gb.reshape(-1)[:3].tolist()), labels), out
        tol2 = 100 * kap ** 2 * (res + tol_b + 1e3 * N * EPS)
        worst2 = 0.0
        for k, (gk, rk, x) in enumerate(zip(got2, ref2, targets)):
            gk0 = torch.zeros_like(x) if gk is None else gk.detach()
            err = float((gk0 - rk.detach()).abs().max())
            sc = float(rk.detach().abs().max())
            worst2 = max(worst2, err / (tol2 * (1 + sc)))
            if not err <= tol2 * (1 + sc):
                what = "the cotangent u (= Jacobian-vector product)" if x is u else "leaf #%d" % k
                return violation(kind2, "second-order gradient (loss=%s) w.r.t. %s (%s/%s, bck=%s, kind=%s, N=%d): got %s ref %s, err %.3e > tol %.3e" % (
                    mode, what, api, method, cfg["bck"], spec["kind"], N, gk0.reshape(-1)[:3].tolist(), rk.detach().reshape(-1)[:3].tolist(),
                    err, tol2 * (1 + sc)), labels), out
        out["ratio2"] = worst2
    return None, out


def two_slots(spec):
    """how one tensor object reaches the function through two parameter slots of one call (None: it does not)"""
    derive, kind = spec["derive"], spec["kind"]
    explicit = [True] * len(derive) if kind == "pure" else list(spec["explicit"])
    if any(rec[0] == "alias" for rec in derive):
        j = [rec[0] for rec in derive].index("alias")
        if explicit[j] and explicit[derive[j][1]]:
            return "explicit_twice"
        if explicit[j] != explicit[derive[j][1]]:
            return "alias_explicit_and_object"
        return "alias_object_twice"
    if kind in ("nn", "nn_nested", "em_nn", "sib2"):
        # leaves are Parameters of the object whenever an object-held effective tensor depends on them
        held = {i for j, rec in enumerate(derive) if not explicit[j] for i in rec[1:]}
        if any(explicit[j] and rec[0] == "id" and rec[1] in held for j, rec in enumerate(derive)):
            return "explicit_and_object"
    return None


def nondiff_before_diff(spec, req):
    """an explicit tensor without requires_grad precedes an explicit tensor with requires_grad in `params`"""
    derive, kind = spec["derive"], spec["kind"]
    explicit = [True] * len(derive) if kind == "pure" else list(spec["explicit"])
    flags = [any(req[i] for i in gen._leaf_deps(derive, j)) for j in range(len(derive)) if explicit[j]]
    if spec.get("unused") == "explicit":
        flags.append(True)
    return any((not a) and any(flags[k + 1:]) for k, a in enumerate(flags))


def run_case(case):
    try:
        return _run_case(case)
    finally:
        # the Krylov backward leaves reference cycles that hold whole autograd graphs: free them per case
        gc.collect()


def _run_case(case):
    torch.manual_seed(case["seed"] & 0x7FFFFFFF)
    g = gen.seeded(case["seed"])
    fam, n = case["fam"], case["n"]
    dtype = torch.complex128 if fam == "csin" else torch.float64
    vals = [gen.randn(g, (n, n), dtype), gen.randn(g, (n, n), dtype)]
    spec = case["spec"]
    N = n * max(case["rows"], 1)
    cfg = case["cfg"]
    second = case["order"] == 2
    labels = ["kind=" + spec["kind"], "api=" + case["api"], "fam=" + fam, "method=%s/%s" % (case["api"], cfg["method"]), "bck=" + cfg["bck"],
              "backward_solver=" + ("dense" if (cfg["bck"] == "exactsolve" or (cfg["bck"] == "default" and N <= 5)) else "krylov"),
              "order=%d" % case["order"], "unused=%s" % spec.get("unused"), "nontensor=%s" % spec.get("nontensor"),
              "y0grad=%s" % cfg["y0grad"], "nleafgrad=%d" % sum(case["req"]), "twin=%s" % (case.get("twin") is not None),
              "two_slots=%s" % two_slots(spec), "nondiff_before_diff=%s" % nondiff_before_diff(spec, case["req"]),
              "order%d_%s_%s" % (case["order"], "obj" if spec["kind"] != "pure" else "pure",
                                 "dense" if (cfg["bck"] == "exactsolve" or (cfg["bck"] == "default" and N <= 5)) else "krylov")]
    v, a = run_config(case, cfg, vals, g, labels, second)
    if v is not None:
        return v
    nontrivial = bool(a.get("nonzero")) and a["evals"] >= 3
    for key in ("ratio1", "ratio2"):
        if a.get(key) is not None:
            r = a[key]
            labels.append("%s_err/tol_%s=%s" % (key, "dense" if "backward_solver=dense" in labels else "krylov",
                                               "<1e-4" if r < 1e-4 else "<1e-2" if r < 1e-2 else "<0.1" if r < 0.1 else "<1"))
    if case.get("twin") is not None and "grad1" in a and a["mode"] == "linear":
        g2 = gen.seeded(case["seed"] + 1)
        # same cotangent: re-seed the generator used for W
        gW = gen.seeded(case["seed"])
        _ = [gen.randn(gW, (n, n), dtype), gen.randn(gW, (n, n), dtype)]
        v, b = run_config(case, case["twin"], vals, gW, labels, False, primary=False)
        if v is not None:
            if v.status == "discard":
                return ok(labels + ["twin_discarded"], nontrivial=nontrivial)
            return v
        if "grad1" in b and max(a["res"], b["res"]) <= 1e-8:      # both returned points are the solution to 1e-8/sigma (not adam)
            labels.append("twin_compared")
            kap = kappa(fam, n)
            for k, (ga, gb) in enumerate(zip(a["grad1"], b["grad1"])):
                tol = (a["tol1"] + b["tol1"] + 10 * kap ** 2 * (a["res"] + b["res"])) * (1 + a["ref1max"])
                err = float((ga - gb).abs().max())
                if not err <= tol:
                    return violation("twin_mismatch", "first-order gradient of leaf #%d differs between %r and %r: err %.3e > %.3e" % (
                        k, cfg, case["twin"], err, tol), labels)
    return ok(labels, nontrivial=nontrivial)


# ------------------------------------------------------------------------------------------ strategy

@st.composite
def cfg_st(draw, api, fam):
    methods = METHODS[api]
    method = draw(st.sampled_from(methods))
    return {"method": method, "bck": draw(st.sampled_from(["default", "default", "exactsolve", "cg", "bicgstab", "gmres"])),
            "y0": draw(st.sampled_from(["zero", "ball"])), "y0seed": draw(st.integers(0, 1000)),
            "y0grad": draw(st.sampled_from([False, False, True]))}


@st.composite
def case_st(draw, tier="quick"):
    api = draw(st.sampled_from(["rootfinder", "equilibrium", "minimize"]))
    fam = "quad" if api == "minimize" else draw(st.sampled_from(["tanh", "tanh", "mono", "csin"]))
    n = draw(st.integers(2, 8 if tier == "quick" else 12))
    rows = draw(st.sampled_from([0, 0, 1, 2, 3])) if n <= 6 else draw(st.sampled_from([0, 0, 1, 2]))
    spec = draw(gen.funspec_st(2, 2))
    req = [draw(st.sampled_from([True, True, False])), draw(st.sampled_from([True, True, False]))]
    if not any(req):
        req[draw(st.integers(0, 1))] = True
    if draw(st.sampled_from([False, False, False, False, True])):
        # the second effective tensor IS the first one: the same tensor object in two slots (twice in params / explicitly and in the
        # object / under two names of the object); E1 = E0 is inside the domain (the bounds hold whatever the values)
        spec["derive"][1] = ["alias", 0]
        req[0] = True
    elif draw(st.sampled_from([False, False, False, False, False, True])):
        # an explicit tensor without requires_grad precedes a differentiable explicit tensor in params (object kinds: the first effective
        # tensor explicit and constant, then the explicit unused tensor, which requires grad)
        req = [False, True]
        if spec["kind"] != "pure":
            spec["explicit"] = [True, False]
            spec["unused"] = "explicit"
    case = {"api": api, "fam": fam, "n": n, "rows": rows, "spec": spec, "req": req,
            "order": draw(st.sampled_from([1, 2, 2])), "cfg": draw(cfg_st(api, fam)),
            "twin": draw(st.one_of(st.none(), st.none(), cfg_st(api, fam))),
            "loss": draw(st.sampled_from(["linear", "linear", "linear", "fit", "trick"])),
            "again": draw(st.sampled_from([False, False, True])),
            "seed": draw(st.integers(0, 2 ** 31 - 1))}
    return case


def tasks(tier):
    return [Task("implicit_grad", strategy=case_st(tier), run=run_case, examples={"quick": 900, "thorough": 14000})]


def _selftest():
    """closed-form Jacobians vs autograd (run by hand: /venv/bin/python -m pbt.props.c04)"""
    g = gen.seeded(5)
    for fam in ("tanh", "mono", "quad", "csin"):
        dt = torch.complex128 if fam == "csin" else torch.float64
        n = 3
        E0, E1 = gen.randn(g, (n, n), dt), gen.randn(g, (n, n), dt)
        Y = gen.randn(g, (1, n), dt) * 0.3
        J = jac_rows(fam, Y, E0, E1, -1.5)[0]
        h = 1e-6
        Jn = torch.zeros((n, n), dtype=dt)
        for j in range(n):
            e = torch.zeros((1, n), dtype=dt)
            e[0, j] = h
            Jn[:, j] = ((f_rows(fam, Y + e, E0, E1, -1.5) - f_rows(fam, Y - e, E0, E1, -1.5)) / (2 * h))[0]
        print(fam, "closed-form vs central differences:", float((J - Jn).abs().max()))
        if fam == "quad":
            Yr = Y.clone().requires_grad_()
            gr, = torch.autograd.grad(phi_rows(Yr, E0, E1, -1.5), Yr)
            print("quad grad vs autograd:", float((gr - f_rows(fam, Y, E0, E1, -1.5)).abs().max()))


if __name__ == "__main__":
    _selftest()
