"""C01 — solve returns the solution of AX - MXE = B, or warns that it did not.

Oracle (all norms 2-norms of one column of one batch element; S = A - e_c M the shifted matrix of that column, dense,
in float64/complex128; eps = machine epsilon of the case dtype):

(a) shape = broadcast(batch dims of A, B, E, M) + (n, ncols); dtype = dtype of the inputs; an all-zero B gives exact zeros.
(b) silent (no ConvergenceWarning) => the *returned tensor* meets the method's own stopping test:
      exactsolve / custom_exactsolve:  |b - S x| <= 1e3 n eps cond(M) (|S||x| + |b|)                     (backward stability)
      cg / bicgstab / gmres:           either every column of every batch element satisfies
                                          |b - S x|        < max(rtol |b|, atol)      + slack            (plain recursion), or every
                                          |S^H (b - S x)|  < max(rtol |S^H b|, atol)  + |S| slack        (normal equations: the code's
                                       fall-back when its positive-definiteness probe fails or the operator is not Hermitian);
                                       slack = 1e3 n eps (|S||x| + |b|) covers recursion drift and the operator's own rounding
      broyden1:                        |vec(A X - M X E - B)| < f_tol + total slack   (its TerminationCondition), f_tol default 1e-6
    and therefore agrees with the dense column-by-column reference within (bound on |r|)/sigma_min(S) (checked explicitly).
(c) silent-convergence class: float64/complex128, cond <= 10, default options:
      exactsolve/custom_exactsolve always; cg when every S is Hermitian positive definite; bicgstab and broyden1 when the field
      of values of every S lies in a half-plane away from the origin: spd / normal spectra in the right half-plane with small
      shifts, and -- complex128 -- spectra in a disc of condition number <= 10 turned by any angle theta around the origin
      (eigenvalues exp(i theta)(1 + rho z)/(1 - rho)) and shifts e = exp(i theta)(-s + i t), 0 <= s <= 2, |t| <= 3, far off the real
      axis (a real-axis-hugging spectrum hides every conjugation slip of a Krylov coefficient) -- a ConvergenceWarning there is
      a violation. gmres is not in the class (the statement excludes it), so only (a),(b) apply to it; spectra with <= n-2
      distinct eigenvalues make it converge silently so that (b) is exercised for it as well.
(d) M supplied without E is ignored (documented warning) and changes nothing.
(e) units and the normal equations: (b) is stated by the code in terms of |b| (plain recursion) resp. |S^H b| (normal equations) and
    the absolute atol, so it distinguishes the two readings only when |S| is far from 1: operators in units of 1e-4..1e4 (B stays
    O(1)) make "relative to |S^H b|" and "relative to |b|" differ by that factor, and a loop that tests the wrong one stops orders of
    magnitude early (silent, fails both readings) or never (warning inside the class).  The adjoint product S^H b that sets up the
    normal equations is the only product whose argument can have fewer batch dimensions than the operator: the task 'normaleq'
    generates operators with two batch dimensions and right-hand sides with one or none.
"""
from __future__ import annotations

import math
import warnings

import torch
from hypothesis import strategies as st

from pbt import gen
from pbt import ref_c01 as R
from pbt.harness import Task, ok, violation, discard, xt_call

PID = "C01"
RULE = ("n in 1..16 (thorough 24), ncols 1..3, target batch rank 0..2 (dims 1..3) with independent sub-patterns for A,B,E,M; dtype "
        "f32/f64/c128; spectrum kind {spd, indef, few_spd, normal_rhp, general, few_normal; c128 also rot_disc, few_rot_disc = disc spectra turned by "
        "theta in 0..359 degrees around the origin} with cond <= kappa in {2,10,100,1000}; real-valued A held in c128; "
        "operator kind {dense, mv, mv_rmv, mv_mm, all, add, sub, scale, matmul, H.H, adjoint-of-adjoint, jac, tree = random expression "
        "tree of depth <= 2 over {.H, scaling (either side), +, -, matmul (operands in either order)} with leaves {dense, matrix-free "
        "with/without rmv/mm, Jacobian operator} whose value is the target matrix (labelled by its shape, e.g. tree:adj(sub))}; "
        "Hermitian flag on/off (propagated through trees); "
        "E mode {none, E, E+M, M only}; real/complex shifts, complex shifts with |Im e| up to 3 on half-plane spectra; task 'offaxis' "
        "concentrates on c128 systems with spectra far off the real axis, n up to 24 in both tiers, mostly bicgstab; method {exactsolve, custom_exactsolve, cg, bicgstab, gmres, broyden1}; "
        "the operator in units of 10^aunit (aunit in -4..4, 0 in five of nine general cases; A and with it every A - eM multiplied by the unit, which "
        "the shift term follows through E or through M; B stays O(1); constant parts of composed operators drawn in the same unit; not for "
        "broyden1, counted as aunit_dropped); task 'normaleq' concentrates on the Krylov loops run on the normal equations S^H S x = S^H b "
        "(posdef=False, or cg on an operator not flagged Hermitian): n 2..16, cond in {2,10,100}, units 1e-4..1e4, operators with two batch "
        "dimensions (equal sizes half of the time) carrying the full batch while B/E/M take any sub-pattern -- in particular B with some but "
        "fewer batch dimensions than the operator (label Bpartial) --, mostly no E; "
        "B columns / batch entries scaled by 10^k (k in -4..4), optionally one column in a 2-dimensional invariant subspace; options (rtol, atol, max_niter, resid_calc_every, posdef, preconditioners, f_tol, line_search); zero columns / all-zero B. Non-trivial = n>=2, B not "
        "identically zero and the call was silent (so the accuracy claim was actually decided); distinct by (method, E mode, kind, "
        "dtype, spectrum, batch class, n, in-class flag, sign of aunit).")
ASSUMPTIONS = [
    "dense reference and residuals evaluated in float64/complex128 with torch.linalg (LAPACK)",
    "rounding slack 1e3*n*eps*(|S||x|+|b|) per column; eps of the case dtype",
    "E keeps every shifted matrix well conditioned: Hermitian PD A gets e<=0 (or small e), others |e| <= 0.3 sigma_min(A)/|M|; "
    "large shifts e = exp(i theta)(-s + i t) (s in [0,2], |t| <= eoff <= 3) only for spectra with field of values in Re(exp(-i theta) z) >= 1, "
    "for which that of exp(-i theta)(A - e M) stays in Re >= 1 (sigma_min >= 1, cond <= kappa + 8)",
    "M is Hermitian positive definite with eigenvalues in [0.5, 2] (times the unit 10^aunit when the unit is carried by M)",
    "units: every bound of the oracle is homogeneous in the unit of the operator (slack and reference tolerance through |S| and sigma_min(S), "
    "the two stopping tests through |b| resp. |S^H b| and the caller's atol exactly as the code states them), so nothing is loosened for "
    "aunit != 0; the silent-convergence class keeps its members under a change of unit (direct methods, cg, bicgstab: their recursions "
    "are invariant, only the absolute atol=1e-8 enters, which makes the normal-equations test easier for small units and is still 1e-6 "
    "relative to |S^H b| for large ones) except broyden1, whose documented initial inverse Jacobian -alpha I ties the operator's unit "
    "to that of B and X: units are not applied to broyden1",
    "B has O(1) entries, exactly-zero columns, or is scaled as a whole by 1e-9 / 1e6 together with atol=1e-16 (so that the early exit |B| <= atol must not trigger)",
    "silent-convergence class restricted to float64/complex128, cond<=10, default options (or only posdef=False); n<=8 except direct methods, plain CG/BiCGSTAB on Hermitian positive definite systems and BiCGSTAB on rotated-disc spectra / Hermitian PD A with large imaginary shifts (n<=24; measured on the unchanged tree: 0 warnings in 3400 such cases with n in 9..24, still 0 with n instead of int(1.5 n) iterations); broyden1 only for O(1) right-hand sides",
    "expression trees: the constant parts P are unbatched O(1) random matrices (Hermitian under a Hermitian flag), products use P = 1.5 * unitary; the tree's matrix equals the target up to a few eps |P|, covered by the rounding slack",
]
LEVEL_TEXT = ("Exploration over the product operator kind x method x E/M mode x batch pattern x dtype x spectrum with the method's own "
              "stopping test re-evaluated on the returned tensor against dense float64 matrices, plus the class in which a warning "
              "itself is the violation.")
LEVEL_NOTE = "trusts torch.linalg dense solves/SVD in float64; n<=24, cond<=1e3, batch rank<=2"
TECHNIQUE = "Hypothesis property-based testing: stopping-test oracle on the returned tensor + dense differential reference"

KRYLOV = ("cg", "bicgstab", "gmres")
DIRECT = ("exactsolve", "custom_exactsolve")
METHODS = DIRECT + KRYLOV + ("broyden1",)


def build_problem(case, g=None):
    """dense A, B, E, M (tensors of the case dtype) from the case dict"""
    g = g or gen.seeded(case["seed"])
    dt = R.DT[case["dtype"]]
    n, ncols = case["n"], case["ncols"]
    theta = math.radians(case.get("theta") or 0) if case["spec"] in R.ROTATED_SPECTRA else 0.0
    # "areal": a real-valued matrix held in a complex dtype (real recipe, cast)
    rdt = torch.float64 if (case.get("areal") and dt.is_complex and case["spec"] not in R.ROTATED_SPECTRA) else dt
    A = R.spectrum_matrix(g, case["bA"], n, rdt, case["spec"], float(case["kappa"]), theta).to(dt)
    if case["spec"] in R.HERMITIAN_SPECTRA:
        A = 0.5 * (A + R.H(A))
    B = gen.randn(g, (*case["bB"], n, ncols), dt)
    z = case["zero"]
    if z == "all":
        B = B * 0
    elif z == "some" and ncols >= 2:
        B[..., 0] = 0
    bs = case.get("bscale")
    if bs:          # columns (and the first batch entry) of very different magnitude: per-column tolerances differ
        B = B * torch.tensor([10.0 ** k for k in bs[:ncols]], dtype=torch.float64).to(dt)
        if case["bB"] and case["bB"][0] > 1:
            B[0] = B[0] * 10.0 ** bs[-1]
    if case.get("bglobal"):
        B = B * float(case["bglobal"])
    E = M = None
    em = case["emode"]
    if em in ("E", "EM"):
        u = torch.rand((*case["bE"], ncols), generator=g, dtype=torch.float64)
        mnorm = 2.0 if em == "EM" else 1.0
        if case["spec"] in ("spd", "few_spd") and not case["ecomplex"]:
            Ev = -2.0 * u if case["eneg"] else 0.3 * u / mnorm
        else:
            Ev = (2 * u - 1) * 0.3 / mnorm
        if eoff_active(case):
            # shifts far off the real axis: e = exp(i theta) (-s + i t), s in [0, 2], |t| <= eoff.  With the field of values of
            # exp(-i theta) A in Re >= 1 and M Hermitian PD, that of exp(-i theta) (A - e M) stays in Re >= 1 + s/2
            t = (2 * torch.rand((*case["bE"], ncols), generator=g, dtype=torch.float64) - 1) * float(case["eoff"])
            Ev = torch.complex(-2.0 * u, t) * complex(math.cos(theta), math.sin(theta))
        elif case["ecomplex"] and dt.is_complex:
            ph = torch.rand((*case["bE"], ncols), generator=g, dtype=torch.float64) * 6.283185307179586
            Ev = Ev * torch.exp(1j * ph)
        E = Ev.to(dt)
    if em in ("EM", "M"):
        M = R.spd_matrix(g, case["bM"], n, dt).to(dt)
        M = 0.5 * (M + R.H(M))
    unit = 10.0 ** eff_aunit(case)
    if unit != 1.0:
        # the operator in another unit: A (and with it every shifted matrix A - e M) is multiplied by 10^aunit; the shift term
        # follows through E (M stays O(1)) or, with "munit", through M (E stays O(1)).  B, hence the tolerances, stay O(1)
        A = A * unit
        if M is not None and (case.get("munit") or E is None):
            M = M * unit
        elif E is not None:
            E = E * unit
    if case.get("easycol") and not (case["bA"] or case["bE"] or case["bM"]) and z != "all":
        # column 0 lies in a 2-dimensional invariant subspace of S_0^H S_0 (of S_0 itself when it is normal): it converges
        # after two iterations while the other columns go on
        wd = R.cdtype(dt)
        S0 = R.dense_shifted(A.to(wd), None if E is None else E.to(wd), None if (M is None or E is None) else M.to(wd), ncols)[0]
        _, _, Vh = torch.linalg.svd(S0)
        v = R.H(Vh)[:, [0, n - 1]].sum(dim=-1) if n >= 2 else R.H(Vh)[:, 0]
        b0 = (torch.matmul(S0, v) / unit).to(dt)
        B[..., 0] = b0 * B[..., 0].abs().max(dim=-1, keepdim=True)[0]
    return A, B, E, M, g


def eff_aunit(case):
    """decimal exponent of the operator's unit.  Not applied to broyden1: its documented initial inverse Jacobian -alpha*I
    (alpha = 0.5 max(|x0|, 1)/|f(x0)| = 0.5/|B|) fixes the unit of the operator to that of B/X, so an operator in units of 1e-4
    is outside what its defaults are made for (900 iterations without convergence on the unchanged tree, as in scipy);
    the cases are counted by the label aunit_dropped"""
    k = int(case.get("aunit") or 0)
    return 0 if case["method"] == "broyden1" else k


def eoff_active(case):
    """complex shifts with a sizeable imaginary part: complex dtype, half-plane spectra, E present"""
    return bool(case.get("eoff")) and case["dtype"] == "c128" and case["spec"] in R.HALFPLANE_SPECTRA and \
        case["emode"] in ("E", "EM")


def in_silent_class(case, flagged_hermitian):
    """systems on which a ConvergenceWarning is itself a violation (docstring (c))"""
    opts = case["opts"]
    n = case["n"]
    normal_eq = opts == {"posdef": False}            # the caller forces the normal equations S^H S x = S^H b
    if case["dtype"] == "f32" or case["kappa"] > 10 or n > 24 or (opts and not normal_eq) or case["zero"] == "all":
        return False
    m = case["method"]
    has_e = case["emode"] in ("E", "EM")
    pd = case["spec"] in ("spd", "few_spd") and not (has_e and case["ecomplex"]) and not eoff_active(case)      # every S Hermitian positive definite
    if m in DIRECT:
        return True
    if m == "cg":
        # flagged Hermitian operators run plain CG (needs S Hermitian PD; finite termination within n <= int(1.5 n) steps at
        # cond <= ~20 for any n generated); anything else runs CG on the normal equations, which are Hermitian PD with
        # cond(S)^2 <= ~350: claimed for n <= 8 only
        if flagged_hermitian and not normal_eq:
            return pd
        return n <= 8
    if m == "bicgstab":
        # on Hermitian PD systems BiCG coincides with CG (finite termination), claimed up to n = 24; otherwise n <= 8
        if pd and not normal_eq:
            return True
        if normal_eq:
            return n <= 8
        # spectra of every S inside a disc of condition number <= 10 anywhere around the origin, or on a segment parallel to the
        # real axis (Hermitian PD matrix + shift with a large imaginary part): silent up to n = 24 (0 warnings in 3400
        # exploratory cases with n in 9..24, and 0 in 600 with only n instead of int(1.5 n) iterations); sector spectra n <= 8
        wide = case["spec"] in R.ROTATED_SPECTRA or (case["spec"] in ("spd", "few_spd") and eoff_active(case))
        return case["spec"] in R.HALFPLANE_SPECTRA and n <= (24 if wide else 8)
    if m == "broyden1":
        # absolute f_tol = 1e-6: only claimed for O(1) right-hand sides
        return n <= 8 and not opts and not case.get("bscale") and case["spec"] in R.HALFPLANE_SPECTRA
    return False


def offaxis_label(case):
    """how far the spectra of the shifted matrices are turned away from the positive real axis (by construction)"""
    if case["dtype"] != "c128":
        return "real"
    th = abs(((case.get("theta") or 0) + 180) % 360 - 180) if case["spec"] in R.ROTATED_SPECTRA else 0
    lab = "theta<25" if th < 25 else ("theta<=155" if th <= 155 else "theta>155")
    return lab + ("+eoff" if eoff_active(case) else "")


def run_case(case):
    from xitorch.linalg import solve
    import xitorch
    torch.manual_seed(case["seed"] & 0xFFFF)
    A, B, E, M, g = build_problem(case)
    dt = A.dtype
    wd = R.cdtype(dt)
    eps = torch.finfo(dt).eps
    n, ncols = case["n"], case["ncols"]
    method = case["method"]
    herm = case["spec"] in R.HERMITIAN_SPECTRA
    kind = case["kind"]
    if kind == "jac" and (dt.is_complex or case["bA"]):
        kind = "mv_rmv"
    counter = {}
    treelab = []
    aunit = eff_aunit(case)
    pscale = 10.0 ** aunit          # constant parts of composed operators are drawn in the operator's unit
    if kind == "tree":
        Aop = xt_call(R.make_tree, case["tree"], A, herm and case["hflag"], g, counter, pscale, _where="construct")
        kind = "tree:" + R.tree_signature(case["tree"])
        lv = R.tree_leaves(case["tree"])
        treelab = ["leaves=" + ("dense" if all(k == "dense" for k in lv) else ("jac" if "jac" in lv else "matrixfree"))]
    else:
        Aop = xt_call(R.make_operator, kind, A, herm and case["hflag"], g, counter, case["leaf"], pscale, _where="construct")
    Mop = None
    if M is not None:
        Mop = xt_call(R.make_leaf, case["mkind"], M, True, counter, _where="construct")
    opts = dict(case["opts"])
    if "max_niter" in opts and method == "broyden1":
        opts["maxiter"] = opts.pop("max_niter")
    pre = opts.pop("precond", None)
    if pre:
        # any Hermitian positive definite preconditioner is legitimate (unbatched: it must broadcast over every layout)
        P = xitorch.LinearOperator.m(R.spd_matrix(g, [], n, dt, 0.3, 3.0).to(dt), is_hermitian=True)
        if method == "cg":
            opts["precond"] = P
        elif method == "bicgstab":
            if "l" in pre:
                opts["precond_l"] = P
            if "r" in pre:
                opts["precond_r"] = P
    cls = in_silent_class(case, bool(Aop.is_hermitian))
    mutate = case.get("mutate") if kind in R.LEAF_KINDS else None
    # which system the Krylov loop iterates on (read off the documented options and the operator's flag): the normal equations
    # S^H S x = S^H b for posdef=False and for cg on an operator not flagged Hermitian, else S x = b
    if method in KRYLOV:
        m_herm = Mop is None or E is None or bool(Mop.is_hermitian)
        path = "normaleq" if (case["opts"].get("posdef") is False or (method == "cg" and not (bool(Aop.is_hermitian) and m_herm))) else "plain"
    else:
        path = "na"
    # the right-hand side has batch dimensions, but fewer than the operator (and no E whose layout would pad them)
    bpartial = E is None and 0 < len(case["bB"]) < len(case["bA"])
    batchclass = "b%d%d%d%d" % (len(case["bA"]), len(case["bB"]), len(case["bE"]) if E is not None else 0, len(case["bM"]) if M is not None else 0)
    labels = ["method=" + method, "emode=" + case["emode"], "kind=" + kind, "dtype=" + case["dtype"], "spec=" + case["spec"], "offaxis=%s" % offaxis_label(case),
              "batch=" + batchclass, "zero=" + case["zero"], "bscale=%s" % bool(case.get("bscale")), "easycol=%s" % bool(case.get("easycol")), "class=%s" % cls, "precond=%s" % pre, "opts=%s" % bool(case["opts"]), "mutate=%s" % mutate, "bglobal=%s" % case.get("bglobal"),
              "aunit=%d" % aunit, "aunit_dropped=%s" % bool(aunit != int(case.get("aunit") or 0)), "path=" + path, "Bpartial=%s" % bpartial] + treelab

    if mutate:
        # history on the same operator objects: solve, change the operators' matrices in place (as an optimiser step or a
        # buffer update does), solve again - the second answer must belong to the *current* matrices
        with warnings.catch_warnings():
            warnings.simplefilter("ignore")
            with torch.no_grad():
                xt_call(solve, Aop, B, E, Mop, method=method, _where="forward", **opts)
                if "A" in mutate:
                    A.mul_(1.25)
                if "M" in mutate and M is not None:
                    M.mul_(0.8)
        torch.manual_seed(case["seed"] & 0xFFFF)
    with warnings.catch_warnings(record=True) as wlist:
        warnings.simplefilter("always")
        with torch.no_grad():
            X = xt_call(solve, Aop, B, E, Mop, method=method, _where="forward", **opts)
    warned = [w for w in wlist if issubclass(w.category, xitorch.ConvergenceWarning) or "onverge" in str(w.message)]
    ignoredM = [w for w in wlist if "ignored" in str(w.message)]

    # (a) shape / dtype
    shapes = [A.shape[:-2], B.shape[:-2]]
    if E is not None:
        shapes.append(E.shape[:-1])
        if M is not None:
            shapes.append(M.shape[:-2])
    bat = R.bshape(*shapes)
    if list(X.shape) != bat + [n, ncols]:
        return violation("shape", "returned shape %s, expected %s (A %s, B %s, E %s, M %s)" % (
            list(X.shape), bat + [n, ncols], list(A.shape), list(B.shape), None if E is None else list(E.shape),
            None if M is None else list(M.shape)), labels)
    if X.dtype != dt:
        return violation("dtype", "returned dtype %s for inputs of dtype %s" % (X.dtype, dt), labels)
    if case["emode"] == "M" and not ignoredM:
        return violation("no_ignore_warning", "M without E did not produce the documented 'ignored' warning", labels)
    if case["zero"] == "all":
        if bool((X != 0).any()):
            return violation("zero_rhs", "all-zero B returned a non-zero solution", labels)
        return ok(labels, False)
    if not bool(torch.isfinite(torch.view_as_real(X) if X.is_complex() else X).all()):
        if warned:
            return ok(labels + ["warned", "nonfinite"], False)
        return violation("nonfinite_silent", "silent call returned non-finite values", labels)
    if warned:
        if cls:
            return violation("warned_in_class:" + method, "ConvergenceWarning on a well-conditioned system in the silent-convergence class: %s" % (
                str(warned[0].message)[:200]), labels)
        return ok(labels + ["warned"], False)

    # (b) the stopping test on the returned tensor
    Ew = None if E is None else E.to(wd)
    Mw = None if (M is None or E is None) else M.to(wd)
    Xref, S = R.dense_solve(A.to(wd), B.to(wd), Ew, Mw)          # S: (ncols, *bat, n, n)
    Xw = X.to(wd).movedim(-1, 0).unsqueeze(-1)                   # (ncols, *bat, n, 1)
    Bw = B.to(wd).expand(*bat, n, ncols).movedim(-1, 0).unsqueeze(-1)
    Rs = Bw - torch.matmul(S, Xw)                                # residuals
    nr = Rs.norm(dim=-2).squeeze(-1)                             # (ncols, *bat)
    nb = Bw.norm(dim=-2).squeeze(-1)
    nx = Xw.norm(dim=-2).squeeze(-1)
    sv = torch.linalg.svdvals(S)
    smax, smin = sv[..., 0], sv[..., -1]
    slack = 1e3 * n * eps * (smax * nx + nb)
    detail = ""
    if method in DIRECT:
        condM = 1.0
        if Mw is not None:
            ms = torch.linalg.svdvals(Mw)
            condM = float((ms[..., 0] / ms[..., -1]).max())
        thr = slack * condM
        bad = nr > thr
        if bool(bad.any()):
            i = int(torch.nonzero(bad.reshape(-1))[0])
            return violation("direct_residual", "exact solve residual %.3e > %.3e (column/batch flat index %d)" % (
                float(nr.reshape(-1)[i]), float(thr.reshape(-1)[i]), i), labels)
        errb = thr / smin
    elif method in KRYLOV:
        rtol = opts.get("rtol", 1e-6)
        atol = opts.get("atol", 1e-8)
        thr1 = torch.clamp(rtol * nb, min=atol) + slack
        SH = R.H(S)
        nr2 = torch.matmul(SH, Rs).norm(dim=-2).squeeze(-1)
        nb2 = torch.matmul(SH, Bw).norm(dim=-2).squeeze(-1)
        thr2 = torch.clamp(rtol * nb2, min=atol) + smax * slack
        ok1 = bool((nr < thr1).all())
        ok2 = bool((nr2 < thr2).all())
        if not (ok1 or ok2):
            i = int(torch.argmax(nr / thr1))
            j = int(torch.argmax(nr2 / thr2))
            return violation("krylov_residual", "silent %s: returned tensor fails its stopping test on both readings: |b-Sx|=%.3e vs %.3e "
                             "(flat index %d), |S^H(b-Sx)|=%.3e vs %.3e (flat index %d); rtol=%g atol=%g" % (
                                 method, float(nr.reshape(-1)[i]), float(thr1.reshape(-1)[i]), i,
                                 float(nr2.reshape(-1)[j]), float(thr2.reshape(-1)[j]), j, rtol, atol), labels)
        errb = thr1 / smin if ok1 else thr2 / (smin * smin)
    else:  # broyden1
        f_tol = opts.get("f_tol", None) or 1e-6
        tot = float(Rs.norm())
        # the residual vector of the code covers the *unexpanded* batch of X, which is the broadcast batch: same entries
        tslack = float(slack.norm())
        if not tot < f_tol + tslack:
            return violation("broyden_residual", "silent broyden1: |vec(AX-MXE-B)| = %.3e >= f_tol %.3e (+%.1e)" % (tot, f_tol, tslack), labels)
        errb = (f_tol + tslack) / smin
    # agreement with the dense reference (implied by the residual bound; checked explicitly)
    Xr = Xref.movedim(-1, 0).unsqueeze(-1)
    err = (Xw - Xr).norm(dim=-2).squeeze(-1)
    tol = errb + 1e3 * n * 2.3e-16 * (smax / smin) * (Xr.norm(dim=-2).squeeze(-1) + 1e-300)
    bad = err > tol
    if bool(bad.any()):
        i = int(torch.nonzero(bad.reshape(-1))[0])
        return violation("dense_reference", "differs from the dense column-by-column solve by %.3e > %.3e (flat index %d)" % (
            float(err.reshape(-1)[i]), float(tol.reshape(-1)[i]), i), labels)
    if case["emode"] == "M":
        # (d) M without E changes nothing: covered, since the reference ignores M
        pass
    key = [method, case["emode"], kind, case["dtype"], case["spec"], batchclass, n, cls, (aunit > 0) - (aunit < 0)]
    return ok(labels + ["silent"], n >= 2, key=key + [case["seed"] % 64])


# ------------------------------------------------------------------ strategy

@st.composite
def case_st(draw, tier="quick", methods=METHODS, focus=None):
    """focus="offaxis": complex systems whose shifted matrices have their spectra far off the real axis (rotated discs,
    shifts with large imaginary parts), larger n, mostly default options"""
    nmax = 16 if tier == "quick" else 24
    if focus == "normaleq":
        # from ~6 unknowns on, a loop that stops a few orders of magnitude too early (or too late) is no longer rescued by
        # finite termination when cond^2 is small
        n = draw(st.one_of(st.integers(2, 8), st.integers(6, 16)))
    elif focus == "offaxis":
        # up to 24 in both tiers: beyond n ~ 8 BiCGSTAB no longer lives on its finite-termination property (broyden1: min(n, 6) below)
        n = draw(st.one_of(st.integers(2, 8), st.integers(9, 16), st.integers(17, 24)))
    else:
        n = draw(st.one_of(st.integers(1, 4), st.integers(1, 8), st.integers(1, 8), st.integers(9, nmax)))
    ncols = draw(st.integers(1, 3))
    batch = draw(R.batch_st(2))
    if focus == "normaleq" and draw(st.integers(0, 2)) != 0:
        # operators with two batch dimensions (of equal size half of the time: a mix-up of batch axes then keeps every shape)
        k = draw(st.integers(2, 3))
        batch = [k, k] if draw(st.booleans()) else [draw(st.integers(1, 3)), draw(st.integers(2, 3))]
    # coincidence of sizes (batch == n == ncols) is a known trouble spot: make it likely
    if focus != "normaleq" and draw(st.integers(0, 7)) == 0:
        k = draw(st.integers(1, 3))
        n, ncols, batch = k, k, [k] * draw(st.integers(1, 2))
    if focus == "offaxis":
        method = draw(st.sampled_from(["bicgstab", "bicgstab", "bicgstab", "bicgstab", "cg", "broyden1", "gmres", "exactsolve"]))
        dtype = "c128"
        spec = draw(st.sampled_from(["few_rot_disc"] if method == "gmres" else
                                    ["rot_disc", "rot_disc", "rot_disc", "few_rot_disc", "spd", "normal_rhp", "few_normal"]))
        kappa = draw(st.sampled_from([2, 10, 10]))
        emode = draw(st.sampled_from(["none", "E", "E", "EM", "EM"]))
    elif focus == "normaleq":
        method = draw(st.sampled_from(["cg", "cg", "cg", "bicgstab", "gmres"]))
        dtype = draw(st.sampled_from(["f64", "f64", "c128", "c128", "f32"]))
        if method == "gmres":
            spec = draw(st.sampled_from(["few_spd", "few_normal", "general"] + (["few_rot_disc"] if dtype == "c128" else [])))
        else:
            spec = draw(st.sampled_from(R.SPECTRA + (R.ROTATED_SPECTRA if dtype == "c128" else ())))
        kappa = draw(st.sampled_from([2, 2, 10, 10, 100]))
        emode = draw(st.sampled_from(["none", "none", "none", "M", "E", "EM"]))
    else:
        method = draw(st.sampled_from(methods))
        dtype = draw(st.sampled_from(["f64", "f64", "c128", "c128", "f32"]))
        if method == "gmres":
            spec = draw(st.sampled_from(["few_spd", "few_normal", "few_spd", "few_normal", "spd", "general"] +
                                        (["few_rot_disc"] if dtype == "c128" else [])))
        else:
            spec = draw(st.sampled_from(R.SPECTRA + (R.ROTATED_SPECTRA if dtype == "c128" else ())))
        kappa = draw(st.sampled_from([2, 10, 10, 10, 100, 1000]))
        emode = draw(st.sampled_from(["none", "none", "E", "E", "EM", "EM", "M"]))
    theta = draw(st.integers(0, 359)) if spec in R.ROTATED_SPECTRA else 0
    # |Im e| up to eoff for half-plane spectra in complex arithmetic (see build_problem); 0 = the small shifts
    eoff = draw(st.sampled_from([0, 0, 1, 3] if focus != "offaxis" else [0, 1, 2, 3]))
    areal = draw(st.integers(0, 3)) == 0
    kind = draw(st.sampled_from(R.KINDS + ("tree",) * 6))
    tree = draw(R.tree_st(2)) if kind == "tree" else None
    if kind == "tree" and method == "broyden1" and draw(st.integers(0, 3)) != 0:
        # broyden1 applies the operator thousands of times, and adjoints of matrix-free compositions are the slowest operators
        # there are (column-by-column products, autograd adjoints): keep one in four of these combinations
        method = draw(st.sampled_from(["cg", "bicgstab", "exactsolve", "custom_exactsolve"]))
    opts = {}
    hflag = draw(st.sampled_from([True, True, False]))
    # unit of the operator: A (with E or M) in units of 10^aunit, B stays O(1)
    aunit = draw(st.sampled_from([0, 0, 0, 0, 0, -4, -2, 2, 4] if focus != "normaleq" else [0, -4, -3, -2, -1, 1, 2, 3, 4]))
    munit = draw(st.booleans())
    if focus == "normaleq":
        # the loop runs on S^H S x = S^H b: by request (posdef=False), or -- cg -- because the operator is not flagged Hermitian
        if method != "cg" or draw(st.integers(0, 2)) == 0:
            opts["posdef"] = False
        else:
            hflag = False
        if draw(st.integers(0, 3)) == 0:
            rt = [1e-3, 1e-4] if dtype == "f32" else [1e-4, 1e-6, 1e-8, 1e-10]
            if draw(st.booleans()):
                opts["rtol"] = draw(st.sampled_from(rt))
            if draw(st.booleans()):
                opts["atol"] = draw(st.sampled_from([1e-5, 1e-8, 1e-12]))
            if method != "gmres" and draw(st.booleans()):
                opts["resid_calc_every"] = draw(st.sampled_from([0, 1, 3]))
    elif draw(st.integers(0, 2 if focus is None else 5)) == 0:
        if method in KRYLOV:
            rt = [1e-3, 1e-4] if dtype == "f32" else [1e-4, 1e-6, 1e-8, 1e-10]
            if draw(st.booleans()):
                opts["rtol"] = draw(st.sampled_from(rt))
            if draw(st.booleans()):
                opts["atol"] = draw(st.sampled_from([1e-5, 1e-8, 1e-12]))
            mi = draw(st.sampled_from([None, None, "big", "small"]))
            if mi == "big":
                opts["max_niter"] = 2 * n + 5
            elif mi == "small":
                opts["max_niter"] = draw(st.integers(1, 2))
            if method != "gmres" and draw(st.integers(0, 2)) == 0:
                opts["resid_calc_every"] = draw(st.sampled_from([0, 1, 3]))
            if draw(st.integers(0, 3)) == 0:
                opts["posdef"] = False
            if method in ("cg", "bicgstab") and draw(st.integers(0, 3)) == 0:
                opts["precond"] = draw(st.sampled_from(["l", "r", "lr"]))
        elif method == "broyden1":
            if draw(st.booleans()):
                opts["f_tol"] = draw(st.sampled_from([1e-4, 1e-6, 1e-9] if dtype != "f32" else [1e-3, 1e-4]))
            if draw(st.integers(0, 3)) == 0:
                opts["max_niter"] = draw(st.integers(1, 3))
            if draw(st.integers(0, 3)) == 0:
                opts["line_search"] = False
    if dtype == "f32" and method == "broyden1" and "f_tol" not in opts:
        opts["f_tol"] = 1e-3
    bglobal = None
    if method in KRYLOV and dtype != "f32" and focus != "normaleq" and draw(st.integers(0, 5)) == 0:
        # a tiny (or huge) right-hand side together with a caller-chosen absolute tolerance far below it
        bglobal = draw(st.sampled_from([1e-9, 1e-9, 1e6]))
        opts["atol"] = 1e-16
    easy = focus != "normaleq" and draw(st.integers(0, 5)) == 0
    bA, bB, bE, bM = (R.sub_batch(draw, batch) for _ in range(4))
    if focus == "normaleq" and draw(st.booleans()):
        bA = list(batch)            # the operator carries every batch dimension, the other operands any sub-pattern
    if easy:
        # scenario: one right-hand side converges after two iterations while the others go on (larger n, several columns,
        # unbatched operator side so that the invariant-subspace column can be constructed)
        bA, bE, bM = [], [], []
        ncols = draw(st.integers(2, 3))
        n = draw(st.sampled_from([6, 8, 12, 16] if tier == "quick" else [8, 12, 16, 20, 24]))
        if method in DIRECT or method == "broyden1":
            method = draw(st.sampled_from(["cg", "bicgstab", "bicgstab", "gmres"]))
            opts = {}
    bscale = draw(st.one_of(st.none(), st.none(), st.lists(st.integers(-4, 4), min_size=4, max_size=4)))
    if method == "broyden1":
        # its default budget is 100*(unknowns+1) iterations with a line search each: keep the systems small, and the absolute
        # f_tol makes badly scaled right-hand sides a different question (see in_silent_class)
        n = min(n, 8 if focus is None else 6)
        bscale = None
    return {
        "n": n, "ncols": ncols, "batch": batch,
        "bA": bA, "bB": bB, "bE": bE, "bM": bM,
        "dtype": dtype, "spec": spec, "kappa": kappa, "kind": kind, "tree": tree, "theta": theta, "eoff": eoff, "areal": areal,
        "leaf": draw(st.sampled_from(["dense", "mv", "mv_rmv", "all"])),
        "mkind": draw(st.sampled_from(["dense", "mv", "all"])),
        "hflag": hflag, "aunit": aunit, "munit": munit,
        "method": method, "emode": emode, "ecomplex": draw(st.booleans()), "eneg": draw(st.sampled_from([True, True, False])),
        "opts": opts, "zero": draw(st.sampled_from(["none", "none", "none", "none", "some", "all"])),
        "bscale": bscale,
        "easycol": easy, "mutate": draw(st.sampled_from([None, None, None, "A", "M", "AM"])),
        "bglobal": bglobal,
        "seed": draw(st.integers(0, 2 ** 31 - 1)),
    }


def tasks(tier):
    return [Task("solve", strategy=case_st(tier), run=run_case, examples={"quick": 2400, "thorough": 40000}),
            Task("offaxis", strategy=case_st(tier, focus="offaxis"), run=run_case, examples={"quick": 400, "thorough": 6000}),
            Task("normaleq", strategy=case_st(tier, focus="normaleq"), run=run_case, examples={"quick": 500, "thorough": 6000})]
