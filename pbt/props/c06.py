"""C06 — gradients of eigenpairs and singular triplets are exact, including exact degeneracy.

Task eig: symeig(A[, M]) with the operators built from *unconstrained dense leaf tensors* P (A = herm(P), all entries
free and with a non-zero anti-Hermitian part, so the degeneracy-breaking directions of the gradient are observed); loss

    l = sum_b beta_b [ sum_i (w_i e_i + q_i e_i^2/2) + a_b + a_b c_b / 2 + 0.3 a_b sum_i w_i e_i ],
    a_b = sum_i u_i Re x_i^H W1 x_i,   c_b = sum_i v_i Re x_i^H W2 x_i            (W1, W2 Hermitian)

with the weights w, q, u, v constant inside every group of exactly repeated eigenvalues: l then depends on the selected
eigenvectors only through the projectors of the groups and on the eigenvalues of a group only through symmetric
polynomials, i.e. it does not depend on the basis chosen inside a degenerate subspace, nor on phases/signs, and its
partial derivatives w.r.t. the eigenvalues are equal inside a group (both are needed for the gradient to exist).

Oracle, first order (all cases): closed-form perturbation theory on an independent dense eigendecomposition
(scipy.linalg.eigh of the dense A, M of every broadcast batch element), pbt/ref_c05.eig_pullback:
    d e_i = x_i^H (dA - e_i dM) x_i,
    d x_i = sum_{j not in group(i)} x_j x_j^H (dA - e_i dM) x_i / (e_i - e_j) - 1/2 sum_{j in group(i)} x_j x_j^H dM x_i,
pulled back to the leaves by autograd through the (plain torch) construction of the dense matrices.  It needs only the
gaps *between* groups, so it is valid at exact degeneracy.  It was cross-validated against central finite differences of the
loss on scipy's eigenpairs (degenerate and non-degenerate cases) and is compared on every run whose spectrum is entirely simple
with autograd through torch.linalg.eigh (self check; a disagreement is reported as discard `reference_self_check_failed`).
Second order: entirely simple spectrum -> autograd twice through a Cholesky-reduced torch.linalg.eigh of the same dense
matrices (contraction with random cotangents C); otherwise (torch's own double backward is wrong as soon as any two eigenvalues
coincide) -> 4th-order central finite difference (h = min(1e-3, gap lmin / (160 (1 + spread))), i.e. 2h = 1/20 of the distance at which a gap
could close) of <C, closed-form gradient> along a random unit direction D of leaf
space against <D, xitorch's double backward of <C, g>>.

Tolerance: tol = 1e3 n eps cond(M) max(spread/gap, 1)^2 relative to (1 + |reference|_max), where gap is the smallest distance
between a selected eigenvalue and any different eigenvalue and spread = ||A||/lambda_min(M); davidson (min_eps 1e-10,
returns by residual test or full space) adds 1e3 sqrt(n) min_eps spread / gap^2.  Second order: 10 tol (autograd reference), or
1e3 tol + 10 (tol/1e3)/h + 3e-6 (finite-difference reference: truncation <= ~3e-7, rounding of the closed form divided by h).  The evidence labels err*/tol record the
decade of the observed error/tolerance ratio (typically 1e-3 .. 1e-9).

Task svd: svd(A) for A built from dense leaves (rectangular, real/complex, operator kinds incl. matrix-free, adjoint, product), loss
sum_i (w_i s_i + q_i s_i^2/2) + a + a c/2 + ..., a = sum_i h_i Re u_i^H W1 v_i, weights constant inside groups of repeated singular
values.  Reference: the same closed form applied to the Jordan-Wielandt matrix [[0, A], [A^H, 0]] (eigenpairs (s_i, [u_i; v_i]/sqrt 2));
second order by autograd through torch.linalg.svd (all singular values simple) or the finite-difference scheme above.

Repeated backward passes (eig, svd, degen_opts; half of the cases): the graph of ONE forward call is kept (retain_graph=True) and 1..3 further
backward passes are run through it, as when a Jacobian is assembled row by row: with the first cotangent again ('same': must reproduce the
first result bit for bit - the backward is a deterministic function of the saved forward results, the options given by the caller and the
cotangent; it is run in the same recording mode as the first pass) and with other losses of the same family ('alt'; 'vals' = eigenvalues only,
eigenvectors not in the graph; 'vecs' = eigenvectors only; 'part' = per group values and/or vectors or neither, the others get exactly zero
cotangents; 'zero' = all cotangents exactly zero), each compared with the closed-form reference for that loss with the first-order tolerance.
For order 2 the passes are run either between the (graph-recording) first backward and the double backward or after the double backward
(then 'same' repeats the double backward); for order 1 the first backward is graph-recording in a third of the cases.  In a third of the
cases the caller passes explicit degeneracy thresholds that mean the same as the defaults for the generated spectra (1e-7 / 1e-8: rounding
splits of repeated eigenvalues are < 1e-12, different eigenvalues >= 0.3 apart).

Perfect-fit least squares (a quarter of the order-2 cases): l = 1/2 sum beta |r - r(here)|^2 with the residuals r = (sum of the eigenvalues of
every group, sum over every group of Re x_i^H W1 x_i): every first-order cotangent is exactly zero, the gradient must vanish and the second-order
gradient is J^T diag(beta) J C, for which the closed-form first-order rows J_r are an exact reference also at exact degeneracy (the terms the
recorded second-order finding is about are multiplied by the zero residuals).  Error bound: sum_r 2 beta_r tol (1 + |J_r|max) (|C|_1 |J_r|max +
|J_r . C|) + tol, i.e. each of the two first-order pull-backs composing the double backward accurate to the first-order tolerance; x10.

Task degen_opts: see run_degen_opts (explicit degeneracy thresholds, near-degenerate pair the thresholds do not cover; symeig with / without M,
svd, custom_exacteig / davidson, f64 / c128, first and second order, repeated backward passes).

Task wide_spectrum (run_degen_opts with spec = "wide"): retrieved spectra spanning 2..8 orders of magnitude (largest |e| = S in 1e2 / 1e4 / 1e6,
either sign; positive for svd, where the thresholds act on s^2), all eigenvalues simple: a pair (c g, (c + 1) g) with gap g = f (atol + rtol S), f < 1,
i.e. closer than the degeneracy threshold evaluated at the LARGEST retrieved eigenvalue but >= 4 x the threshold evaluated at either member of the
pair, fillers in geometric progression (ratio >= 3) up to S.  atol / rtol are the documented defaults or the caller's (rtol 1e-6 .. 1e-3, atol 0 ..
1e-9).  "Relative difference between two eigenvalues" can only refer to the two eigenvalues compared: such a pair is not degenerate and a loss
giving different weights to its two eigenvectors must get the perturbation-theory gradient with its 1/g terms (custom_exacteig / davidson, with /
without M, svd, f64 / c128, neig = n and < n, both ends, first and second order, further backward passes).  Reference and tolerance as in degen_opts
(autograd through a dense eigh / svd; 1e-6 + 1e4 eps S cond(M) / smallest gap <= 2e-3), relative to 1 + |ref|max.

Task dense_gap (run_degen_opts with method "exacteig" / None = the documented default, 2 in 3 degen_opts spectra, 1 in 3 wide spectra): the dense
path's backward (degen_symeig: differentiates the full decomposition, fixed absolute mask eps**0.6 = 4.1e-10 for exactly repeated eigenvalues) on
spectra with a small but resolved gap.  degen_opts spectra: pair (1, 1 + gap), gap 2e-8 / 1e-7 / 3e-7 (gap/eps ~ 1e8..1e9; svd: s^2 gap 2 gap), the
caller's explicit thresholds (degen_atol / degen_rtol 0 = "no special treatment", or <= 1e-13 + 1e-12 |e|) do not cover it: whatever the method does
with bck_options, a pair the caller declared non-degenerate must get the perturbation-theory gradient with its 1/gap coupling.  Wide spectra: every
two eigenvalues differ by >= 4x the (default or caller's) threshold evaluated at either of them.  symeig with / without M, svd, lowest / uppermost,
neig < n and = n, f64 / c128, order 1 and 2, further backward passes.  Reference and tolerance as in degen_opts (autograd through torch.linalg.eigh /
svd; (1e-6 + 1e4 eps max|e| cond(M) / gap) (1 + |ref|max), i.e. <= 1.1e-4 relative for gap 2e-8, against an error of 100 % when the coupling is dropped).
All three pair tasks add an absolute part 30 eps |A| cond(M)^2 max|cw| |W| / gap^2 to the bound (see ASSUMPTIONS): the reference's and xitorch's LAPACK
decompositions differ by a rotation eps |A| / gap inside the pair, whose effect on the 1/gap term is not relative to |ref| when the coupling coefficient
(cw_i - cw_j) x_j^H W x_i is accidentally small (regress/C06/dense_gap_small_coupling_tolerance.json: |ref| 3.4e3 for 1/gap 8e6).

Recorded findings (SITES; generated only when known_findings.json lists the site, otherwise avoided by construction):
  second_order_at_degeneracy             second-order gradients are wrong by O(1) when a repeated eigenvalue lies in the selected set
                                         (custom_exacteig, davidson) or anywhere in the spectrum (exacteig / default, which differentiates
                                         the full decomposition): the first-order formulas drop the within-group block terms, whose
                                         derivatives do not vanish.  First order is exact there.
  svd_vectors_at_repeated_singular_values   svd forms the second factor as A v_i / s_i outside symeig, so the eigenvalue cotangents differ
                                         inside a group and first-order gradients of vector-dependent losses are wrong by O(1).
"""
from __future__ import annotations

import math
import warnings

import numpy as np
import torch
from hypothesis import strategies as st

from pbt import gen
from pbt import ref_c05 as R
from pbt.harness import Task, ok, violation, discard, xt_call, XitorchRaised

PID = "C06"
RULE = ("eig: pencils with prescribed spectra, gaps >= 0.3 between the selected set and the rest and between groups, inside the selected set "
        "separated or exactly repeated pairs/triples; leaves = full unconstrained dense matrices P (A = herm(P), M = herm(Pm)) held by dense, "
        "matrix-free (mv / mv+mm / full), sum, difference and scaled operators; methods exacteig / custom_exacteig / davidson(min_eps 1e-10); "
        "neig < n and = n, lowest / uppermost, M absent / present (cond <= 10), batch patterns of A and M, f64 / c128; bck_options "
        "exactsolve or default; 1 in 6 with exactly diagonal A and M; loss basis-independent by construction (see module docstring); order 1 and 2. "
        "svd: m,n <= 6, tall/wide/square, operator kinds dense / matrix-free / adjoint / product / sum, singular values 0.6.. with gaps 0.3/0.5 "
        "and exact repeats. "
        "eig and svd: in half of the cases 1..3 further backward passes through the retained graph of the same forward call (same cotangent: bit-for-bit "
        "reproduction; other losses incl. values-only, vectors-only, per-group partial and all-zero cotangents: reference comparison), before or after the "
        "double backward; first backward graph-recording for order 2 and for a third of order 1; explicit degeneracy thresholds equivalent to the defaults "
        "in a third of the cases; a quarter of the order-2 cases use a perfect-fit least-squares loss (zero first-order cotangents, Hessian J^T J, also at "
        "exact degeneracy). "
        "degen_opts: near-degenerate pair (gap 2e-8..3e-7) not covered by the caller's explicit thresholds, loss distinguishing its two vectors; symeig "
        "with/without M and svd, custom_exacteig / davidson, f64 / c128, order 1 and 2, 0..3 further backward passes (same / full / one vector of the pair / "
        "values / the other pairs). "
        "wide_spectrum: all-simple spectra spanning 2..8 decades (largest |e| 1e2 / 1e4 / 1e6 of either sign, geometric fillers, a pair with gap "
        "f (atol + rtol max|e|), f in 0.02 / 0.1 / 0.5, >= 4x the threshold at the pair itself), default and caller-supplied thresholds (rtol 1e-6..1e-3, atol "
        "0..1e-9), loss distinguishing every eigenvector; symeig with/without M and svd, custom_exacteig / davidson, f64 / c128, neig = n / n-1 / 3, both ends, order 1 "
        "and 2, 0..2 further passes; non-trivial = reference non-zero and both members of the pair and a larger eigenvalue that would cover their gap are retrieved. "
        "dense_gap: the degen_opts spectra (2 in 3; resolved pair with gap 2e-8..3e-7 at |e| ~ 1, caller's thresholds zero / tiny) and the wide spectra (1 in 3) "
        "with the dense methods 'exacteig' and None (default), whose backward differentiates the full decomposition with its own fixed mask; symeig with/without M "
        "and svd, lowest / uppermost, neig < n and = n, f64 / c128, order 1 and 2, 0..3 further passes; non-trivial as for degen_opts / wide_spectrum. "
        "Non-trivial = the reference gradient is non-zero and (neig < n or M given or a degenerate group is selected or order 2 or further passes were run); "
        "perfect fit: the reference second-order gradient is non-zero; distinct by canonical case.")
ASSUMPTIONS = [
    "reference eigendecomposition: scipy.linalg.eigh (LAPACK) of the dense matrices built from the same leaves; closed-form first-order "
    "perturbation theory (ref_c05.eig_pullback) cross-validated against finite differences and, on every non-degenerate case, against "
    "autograd through torch.linalg.eigh",
    "tolerance 1e3 n eps cond(M) max(spread/gap,1)^2 (+ davidson: 1e3 sqrt(n) min_eps spread/gap^2) relative to 1 + max|reference|; second order x10 "
    "(autograd reference, entirely simple spectra) or x1000 + rounding/h + 3e-6 (4th-order finite difference of the closed-form gradient, step scaled to the gap)",
    "second order at exact degeneracy and svd vector-dependent losses at repeated singular values are recorded findings (see SITES): avoided by "
    "construction unless listed in known_findings.json",
    "a degenerate group never straddles the cut between selected and unselected eigenvalues (the selected subspace would be undefined)",
    "near-degenerate (gap 1e-3) spectra are not generated: the gradient is then legitimately of order 1/gap^2 and degen_rtol decides the branch",
    "backward linear solver: exactsolve (explicitly or as solve's default for dense / n <= 5 operators); Krylov backward solvers on the singular "
    "shifted system are not part of this check",
    "davidson: real dtype; with exact repeats multiplicities <= neig and neig divides n (rank-deficient expansion blocks are a recorded C05 finding)",
    "repeated backward with the same cotangent is compared bit for bit: the backward uses exactsolve (explicitly or as solve's default), no random "
    "numbers, single-threaded kernels, and is run in the same recording mode (create_graph) as the pass it is compared with",
    "degen_opts: reference = torch.linalg.eigh (Cholesky-reduced with M) / torch.linalg.svd + autograd, all eigenvalues simple; tolerance "
    "(1e-6 + 1e4 eps max(|e|,1) cond(M) / gap) (1 + |ref|max), second order x10: the backward shifts the eigenvalue by 1e-14 max(|e|,1), a relative error "
    "(cw_i + cw_j)/|cw_i - cw_j| 1e-14/gap <= 15e-14/gap for the generated weights (measured <= 1e3 eps/gap)",
    "dense_gap: same reference and tolerance as degen_opts / wide_spectrum; the pair is resolved (gap >= 2e-8 >= 1e8 eps |e|, 50x the dense path's "
    "absolute mask eps**0.6) and is outside the caller's explicit thresholds (degen_opts spectra) or >= 4x the default / caller's threshold evaluated at "
    "either member (wide spectra), so no reading of the documented thresholds makes it degenerate",
    "degen_opts / wide_spectrum / dense_gap, absolute part of the error bound: two backward-stable decompositions of the same matrix differ by a rotation inside "
    "the close pair by theta <= c eps |A| cond(M) / gap, which changes the coefficient of the 1/gap term by 2 theta |cw| |W| whatever its own size: the bound is "
    "rel (1 + |ref|max) + 30 eps |A| cond(M)^2 3 (2 sqrt(rows cols)) / gap^2 (max|cw| <= 3, |W| <= 2 sqrt(rows cols); measured c ~ 0.6), second order: 10 rel "
    "(1 + |ref|max) + 10 |C| / gap times that; 1e-4 .. 1e-2 of the typical |ref| ~ |cw| |W| / gap",
    "wide_spectrum: 'minimum relative difference between two eigenvalues to be treated as degenerate' refers to the magnitude of the two eigenvalues "
    "compared: every two retrieved eigenvalues differ by >= 4 (degen_atol + degen_rtol max(|e_i|, |e_j|)), so no pair is degenerate whichever member "
    "the threshold is evaluated at; same reference as degen_opts, tolerance (1e-6 + 1e4 eps max|e| cond(M) / smallest gap) (1 + |ref|max) (LAPACK mixes "
    "two eigenvectors by eps |A| / gap; measured <= 1e-2 of it), second order x10; davidson: min_eps 1e-10 max(1, S/1e4) (absolute residual test, rounding "
    "floor eps |A|); a davidson run whose vectors are not accurate to 1e3 eps |A| cond(M) / gap (it stopped on its residual test before the search space "
    "was the full space) is discarded, forward accuracy being C05's subject",
]
LEVEL_TEXT = ("Exploration against a closed-form perturbation-theory gradient evaluated on an independent LAPACK eigendecomposition, with the full "
              "dense matrix as leaf so that degeneracy-breaking directions are observable; second order against autograd-through-eigh or "
              "finite differences of the closed form.")
LEVEL_NOTE = "trusts scipy.linalg.eigh, torch autograd on plain-torch expressions, and the perturbation formulas stated in the module docstring"
TECHNIQUE = "Hypothesis property-based testing: analytic-gradient oracle (perturbation theory) + differentiable reference model + finite differences"
WALL = {"quick": 500, "thorough": 3000}

EPS = R.EPS
FD_H = 1e-3
DAVIDSON_BREAKDOWN = "exception:_LinAlgError@xitorch/_utils/tensor.py:tallqr"     # forward failure recorded under C05


# ------------------------------------------------------------------------------------------------ loss

def group_ids(vals_sel):
    """group ids of the selected prescribed eigenvalues (equal float <=> same group)"""
    ids, cur = [], 0
    for i, v in enumerate(vals_sel):
        if i > 0 and v != vals_sel[i - 1]:
            cur += 1
        ids.append(cur)
    return ids


def group_weights(g, gid, lo=-1.0, hi=1.0):
    ng = max(gid) + 1
    w = torch.rand((ng,), generator=g, dtype=torch.float64) * (hi - lo) + lo
    return w[torch.tensor(gid)]


def group_mask(mask, gid):
    """0/1 weight per selected index from a 0/1 list per group"""
    return torch.tensor([float(mask[i]) for i in gid], dtype=torch.float64)


class EigLoss:
    """l(E, X) for E (*batch,k), X (*batch,n,k); basis independent inside groups.
    emask / vmask (0/1 per group, optional): the groups whose eigenvalues / eigenvectors the loss depends on (the others get an
    exactly zero cotangent); use_vec=False: the eigenvectors do not enter the graph of the loss at all."""
    def __init__(self, g, gid, n, batch, dtype, use_vec=True, emask=None, vmask=None):
        self.w = group_weights(g, gid)
        self.q = group_weights(g, gid)
        self.u = group_weights(g, gid)
        self.v = group_weights(g, gid)
        self.W1 = R.herm(gen.randn(g, (n, n), dtype))
        self.W2 = R.herm(gen.randn(g, (n, n), dtype))
        self.beta = torch.rand(tuple(batch), generator=g, dtype=torch.float64) + 0.5
        self.use_vec = use_vec
        if emask is not None:
            self.w = self.w * group_mask(emask, gid)
            self.q = self.q * group_mask(emask, gid)
        if vmask is not None:
            self.u = self.u * group_mask(vmask, gid)
            self.v = self.v * group_mask(vmask, gid)

    def __call__(self, E, X):
        le = (self.w * E + 0.5 * self.q * E * E).sum(-1)
        if not self.use_vec:
            return (self.beta * le).sum()
        q1 = torch.einsum("...ai,ab,...bi->...i", X.conj(), self.W1, X).real
        q2 = torch.einsum("...ai,ab,...bi->...i", X.conj(), self.W2, X).real
        a = (self.u * q1).sum(-1)
        c = (self.v * q2).sum(-1)
        return (self.beta * (le + a + 0.5 * a * c + 0.3 * a * (self.w * E).sum(-1))).sum()


def group_sums(t, gid):
    """(*batch,k) -> (*batch,ngroups): sums over the groups of repeated eigenvalues (symmetric functions of a group)"""
    ng = max(gid) + 1
    P = torch.zeros((len(gid), ng), dtype=t.dtype)
    P[torch.arange(len(gid)), torch.tensor(gid)] = 1.0
    return t @ P


class PerfectFitEigLoss:
    """least squares with a perfect fit: l = 1/2 sum_b beta_b |r_b - target_b|^2, residuals r = (sum of the eigenvalues of every group,
    sum over every group of Re x_i^H W1 x_i), target = the value of r at the point itself (frozen by the first call, or by
    freeze()).  Every first-order cotangent is exactly zero, the gradient is exactly zero and the Hessian is J^T diag(beta) J."""
    def __init__(self, g, gid, n, batch, dtype, use_vec=True):
        self.gid = gid
        self.W1 = R.herm(gen.randn(g, (n, n), dtype))
        self.beta = torch.rand(tuple(batch), generator=g, dtype=torch.float64) + 0.5
        self.use_vec = use_vec
        self.target = None

    def residuals(self, E, X):
        r = group_sums(E, self.gid)
        if self.use_vec:
            q1 = torch.einsum("...ai,ab,...bi->...i", X.conj(), self.W1, X).real
            r = torch.cat([r, group_sums(q1, self.gid)], dim=-1)
        return r

    def fresh(self):
        """the same loss with its target not yet frozen (for another set of eigenpairs of the same matrices)"""
        import copy
        o = copy.copy(self)
        o.target = None
        return o

    def __call__(self, E, X):
        r = self.residuals(E, X)
        if self.target is None:
            self.target = r.detach().clone()
        return 0.5 * (self.beta * ((r - self.target) ** 2).sum(-1)).sum()


# ------------------------------------------------------------------------------------------------ references

def closed_form_grads(loss, Ad, Md, batch, sel_idx, same, leaves_fn, leaves, wrt, eig=None):
    """first-order reference.  Ad, Md: dense matrices (detached) built from `leaves`; returns list of gradients w.r.t. `wrt`.
    eig: the reference decomposition (vals, vecs) of (Ad, Md) when the caller already has it."""
    n = Ad.shape[-1]
    vals, vecs = R.ref_eigh(Ad, Md, batch) if eig is None else eig    # (*batch,n), (*batch,n,n)
    sel = torch.tensor(sel_idx)
    Es = vals[..., sel].clone().requires_grad_()
    Xs = vecs[..., :, sel].clone().requires_grad_()
    l = loss(Es, Xs)
    gE, gX = torch.autograd.grad(l, [Es, Xs], allow_unused=True)
    gE = torch.zeros_like(Es) if gE is None else gE
    gX = torch.zeros_like(Xs) if gX is None else gX
    Abar = torch.zeros((*batch, n, n), dtype=Ad.dtype)
    Mbar = torch.zeros((*batch, n, n), dtype=Ad.dtype)
    for idx in np.ndindex(*batch) if batch else [()]:
        a, m = R.eig_pullback(vals[idx], vecs[idx], sel, same, gE[idx], gX[idx])
        Abar[idx] = a
        Mbar[idx] = m
    # pull back to the leaves through the dense construction
    Adense, Mdense = leaves_fn(leaves)
    pair = (Abar.conj() * Adense.expand(*batch, n, n)).sum().real
    if Mdense is not None:
        pair = pair + (Mbar.conj() * Mdense.expand(*batch, n, n)).sum().real
    gs = torch.autograd.grad(pair, wrt, allow_unused=True)
    return [torch.zeros_like(x) if g_ is None else g_ for g_, x in zip(gs, wrt)], float(l)


def eigh_autograd_loss(loss, leaves_fn, leaves, batch, sel_idx):
    """the same loss on a differentiable Cholesky-reduced torch.linalg.eigh (valid when the selected eigenvalues are simple)"""
    Ad, Md = leaves_fn(leaves)
    n = Ad.shape[-1]
    Ab = Ad.expand(*batch, n, n)
    if Md is not None:
        L = torch.linalg.cholesky(Md.expand(*batch, n, n))
        Y = torch.linalg.solve_triangular(L, Ab, upper=False)                       # L^-1 A
        A2 = torch.linalg.solve_triangular(L, R.ct(Y), upper=False)                  # L^-1 (L^-1 A)^H = L^-1 A L^-H
        A2 = R.herm(A2)
        E, Yv = torch.linalg.eigh(A2)
        X = torch.linalg.solve_triangular(R.ct(L), Yv, upper=True)
    else:
        E, X = torch.linalg.eigh(Ab)
    sel = torch.tensor(sel_idx)
    return loss(E[..., sel], X[..., :, sel])


def maxabs(t):
    return float(t.detach().abs().max()) if t.numel() else 0.0


def compare(got, ref, wrt_names, tol, what, labels, extra="", floor=0.0):
    """returns (violation or None, worst err/(tol*scale + floor)); floor: absolute part of the error bound"""
    worst = 0.0
    for gk, rk, nm in zip(got, ref, wrt_names):
        if gk is None:
            gk = torch.zeros_like(rk)
        if not bool(torch.isfinite(gk.detach().abs()).all()):
            return violation(what + "_nonfinite", "%s gradient w.r.t. %s is not finite%s" % (what, nm, extra), labels), float("inf")
        err = maxabs(gk - rk)
        sc = 1.0 + maxabs(rk)
        worst = max(worst, err / (tol * sc + floor))
        if not err <= tol * sc + floor:
            i = int((gk.detach() - rk.detach()).abs().reshape(-1).argmax())
            return violation(what, "%s gradient w.r.t. %s: max err %.3e > %.3e (|ref|max %.3e); at flat index %d got %s ref %s%s" % (
                what, nm, err, tol * sc + floor, sc - 1.0, i, complex(gk.detach().reshape(-1)[i]) if gk.is_complex() else float(gk.detach().reshape(-1)[i]),
                complex(rk.detach().reshape(-1)[i]) if rk.is_complex() else float(rk.detach().reshape(-1)[i]), extra), labels), worst
    return None, worst


def compare_abs(got, ref, wrt_names, bounds, what, labels, extra=""):
    """as compare, with an absolute error bound per leaf"""
    worst = 0.0
    for gk, rk, nm, b in zip(got, ref, wrt_names, bounds):
        if gk is None:
            gk = torch.zeros_like(rk)
        if not bool(torch.isfinite(gk.detach().abs()).all()):
            return violation(what + "_nonfinite", "%s gradient w.r.t. %s is not finite%s" % (what, nm, extra), labels), float("inf")
        err = maxabs(gk - rk)
        worst = max(worst, err / b)
        if not err <= b:
            return violation(what, "%s gradient w.r.t. %s: max err %.3e > %.3e (|ref|max %.3e)%s" % (what, nm, err, b, maxabs(rk), extra), labels), worst
    return None, worst


def perfect_fit_hessian(loss_ref, row_fn, ref_eig, sel_idx, batch, C, wrt, tol):
    """H C = sum_r beta_r (J_r . C) J_r for the perfect-fit loss, J_r = row_fn(residual r as a loss) (list of tensors like wrt).
    Also returns, per leaf, the bound on the error of a double backward whose first-order pull-backs are each accurate to
    tol (1 + |J_r|max) (the first-order tolerance):  sum_r beta_r tol (1 + |J_r|max) (|C|_1 |J_r|max + |J_r . C|) [first factor wrong]
    + the same [second factor wrong]."""
    vals, vecs = ref_eig
    sel = torch.tensor(sel_idx)
    nres = loss_ref.residuals(vals[..., sel], vecs[..., :, sel]).shape[-1]
    c1 = sum(float(c.abs().sum()) for c in C)
    ref2 = [torch.zeros_like(x) for x in wrt]
    bound = [0.0 for _ in wrt]
    for idx in (np.ndindex(*batch) if batch else [()]):
        beta = float(loss_ref.beta[idx])
        for j in range(nres):
            Jr = row_fn(lambda E, X, idx=idx, j=j: loss_ref.residuals(E, X)[idx + (j,)])
            v = sum(float((c.conj() * jr).sum().real) for c, jr in zip(C, Jr))
            jmax = max(maxabs(jr) for jr in Jr)
            for i, jr in enumerate(Jr):
                ref2[i] = ref2[i] + beta * v * jr
                bound[i] += 2 * beta * tol * (1 + jmax) * (c1 * jmax + abs(v))
    return ref2, [b + tol for b in bound]                    # + the rounding floor of a loss of natural scale 1


def margin_label(name, ratio):
    """decade of err/tol (evidence of how far typical errors stay below the tolerance)"""
    if ratio <= 0:
        return "%s=exact" % name
    return "%s=1e%+d" % (name, int(math.ceil(math.log10(ratio))))


# ------------------------------------------------------------------------------------------------ eig task

# explicit degeneracy thresholds that mean the same as the defaults for every generated spectrum: repeated eigenvalues are split by rounding
# only (<= n eps spread cond(M) < 1e-12), different eigenvalues are >= 0.3 apart and |e| <= 40
EQUIVALENT_DEGEN_OPTS = {None: {}, "atol": {"degen_atol": 1e-7}, "both": {"degen_atol": 1e-8, "degen_rtol": 1e-8},
                         "rtol_none": {"degen_atol": 1e-7, "degen_rtol": None}}


def row_masks(g2, ng):
    """per group: does the loss depend on its eigenvalues / its eigenvectors (all four combinations, drawn independently)"""
    e = [int(x) for x in torch.randint(0, 2, (ng,), generator=g2)]
    v = [int(x) for x in torch.randint(0, 2, (ng,), generator=g2)]
    return e, v


def row_loss(cls, kind, g2, gid, dims, batch, dtype, vec_ok=True):
    """the loss of one further backward pass through the same graph.  kind: alt (another loss of the same family), vals (eigenvalues
    only, eigenvectors not in the graph), vecs (eigenvectors only), part (every group: values and/or vectors or neither), zero
    (depends on nothing: all cotangents exactly zero).  vec_ok False: vector-dependent losses are outside the domain (svd at repeated
    singular values), only the value part is kept."""
    ng = max(gid) + 1
    ones, zeros = [1] * ng, [0] * ng
    if kind == "vals":
        return cls(g2, gid, *dims, batch, dtype, use_vec=False)
    if kind == "alt":
        em, vm = ones, ones
    elif kind == "vecs":
        em, vm = zeros, ones
    elif kind == "part":
        em, vm = row_masks(g2, ng)
    elif kind == "zero":
        em, vm = zeros, zeros
    else:
        raise ValueError(kind)
    if not vec_ok:
        vm = zeros
    return cls(g2, gid, *dims, batch, dtype, use_vec=True, emask=em, vmask=vm)


def bitwise_equal(a, b):
    if (a is None) != (b is None):
        return False
    if a is None:
        return True
    a, b = a.detach(), b.detach()
    if a.is_complex():
        a, b = torch.view_as_real(a), torch.view_as_real(b)
    return bool(((a == b) | (torch.isnan(a) & torch.isnan(b))).all())


def repeated_backward(rows, first_fn, first_got, outs, wrt, names, mkloss, ref_fn, tol, labels, info, what="grad1", floor=0.0):
    """further backward passes through the graph of ONE forward call (kept with retain_graph=True), as when a Jacobian is assembled
    row by row.  'same': the first cotangent again - the result must reproduce the first one bit for bit (the backward is a
    deterministic function of the saved forward results and of the cotangent; exactsolve, no random numbers).  Other kinds: another
    loss of the same outputs - compared with the reference for that loss with the first-order tolerance."""
    for j, kind in enumerate(rows):
        tag = "pass%d=%s" % (j + 2, kind)
        if kind == "same":
            again = first_fn()
            for a, b, nm in zip(again, first_got, names):
                if not bitwise_equal(a, b):
                    d = float("nan") if (a is None or b is None) else maxabs(a.detach() - b.detach())
                    return violation("repeated_backward_differs", "backward pass #%d through the same graph with the same cotangent does not reproduce "
                                     "the first pass: %s w.r.t. %s differs by %.3e%s" % (j + 2, what, nm, d, info), labels + [tag]), labels
            labels = labels + [tag]
            continue
        lj_obj = mkloss(kind)
        lj = lj_obj(*outs)
        if not lj.requires_grad:
            return violation("no_graph", "loss (%s) of the outputs does not require grad" % kind, labels + [tag]), labels
        gj = xt_call(torch.autograd.grad, lj, wrt, retain_graph=True, allow_unused=True, _where="backward_pass%d" % (j + 2))
        refj = ref_fn(lj_obj)
        bad, worst = compare(gj, refj, names, tol, "grad1_later_pass", labels + [tag],
                             " [backward pass #%d through the same graph, loss kind '%s']%s" % (j + 2, kind, info), floor=floor)
        if bad is not None:
            return bad, labels
        labels = labels + [tag, "pass_ref=%s" % ("zero" if not any(maxabs(r) > 0 for r in refj) else "nonzero")]
    return None, labels


def prepare_eig(case):
    """everything run_eig needs, as a namespace (also used by the finite-difference cross-validation during development)"""
    import xitorch.linalg as xl
    torch.manual_seed(case["seed"] & 0x7FFFFFFF)
    g = gen.seeded(case["seed"])
    dtype = R.DT[case["dtype"]]
    lam = case["lam"]
    n = len(lam)
    hasM = case["batchM"] is not None
    k = n if case["neig"] is None else case["neig"]
    low = case["mode"] == "lowest"
    sel_idx = list(range(k)) if low else list(range(n - k, n))
    gid = group_ids([lam[i] for i in sel_idx])
    degenerate = len(set(gid)) < k
    method = case["method"]
    order = case["order"]
    labels = ["method=%s" % method, "mode=%s" % case["mode"], "M=%s" % (case["mop"] if hasM else "none"), "aop=%s" % case["aop"],
              "dtype=%s" % case["dtype"], "degenerate=%s" % degenerate, "structure=%s" % case.get("structure", "generic"), "neig=%s" % ("full" if k == n else "partial"),
              "order=%d" % order, "bck=%s" % case["bck"], "batch=%dx%d" % (len(case["batchA"]), -1 if not hasM else len(case["batchM"])),
              "wrt=%s" % case["wrt"], "loss=%s%s" % ("values" if not case["use_vec"] else "values+vectors", "(perfect_fit)" if case.get("loss2") == "perfect" else ""),
              "maxgroup=%d" % max(gid.count(x) for x in set(gid)), "degen_opts=%s" % case.get("degen"),
              "passes=%d%s" % (1 + len(case.get("rows", [])), "(late)" if case.get("late") and case.get("rows") else ""),
              "first_backward=%s" % ("recording" if (order == 2 or case.get("first_graph")) else "plain")]
    # a group must not straddle the cut
    if k < n:
        inside, outside = (lam[k - 1], lam[k]) if low else (lam[n - k], lam[n - k - 1])
        if inside == outside:
            return discard("group_straddles_cut", labels)
    p = R.build_pencil(g, lam, dtype, case["batchA"], case["batchM"], case["mkappa"], avals=[1.0, 2.0], bvals=[0.0, -1.0, 1.0], mvals=[1.0, 0.5],
                       structure=case.get("structure", "generic"))
    batch = p.batch
    # leaves: unconstrained dense matrices (an anti-Hermitian part is added: herm() inside the operators removes it)
    Aleaves = R.split_leaves(case["aop"], p.A, g)
    K = gen.randn(g, Aleaves[0].shape, dtype) * 0.2
    Aleaves[0] = Aleaves[0] + (K - R.ct(K))
    Mleaves = R.split_leaves(case["mop"], p.M, g) if hasM else []
    if hasM:
        K = gen.randn(g, Mleaves[0].shape, dtype) * 0.2
        Mleaves[0] = Mleaves[0] + (K - R.ct(K))
    wantA = case["wrt"] in ("A", "AM") or not hasM
    wantM = hasM and case["wrt"] in ("M", "AM")
    Aleaves = [t.clone().requires_grad_(wantA) for t in Aleaves]
    Mleaves = [t.clone().requires_grad_(wantM) for t in Mleaves]
    nA = len(Aleaves)
    wrt = [t for t in Aleaves + Mleaves if t.requires_grad]
    names = ["A-leaf%d" % i for i, t in enumerate(Aleaves) if t.requires_grad] + ["M-leaf%d" % i for i, t in enumerate(Mleaves) if t.requires_grad]

    def leaves_fn(leaves):
        Ad = R.dense_of(case["aop"], leaves[:nA], True)
        Md = R.dense_of(case["mop"], leaves[nA:], True) if hasM else None
        return Ad, Md

    if case.get("loss2") == "perfect":
        loss = PerfectFitEigLoss(g, gid, n, batch, dtype, use_vec=case["use_vec"])
    else:
        loss = EigLoss(g, gid, n, batch, dtype, use_vec=case["use_vec"])
    same = R.groups_of(gid)
    bck = {"method": "exactsolve"} if case["bck"] == "exactsolve" else {}
    bck.update(EQUIVALENT_DEGEN_OPTS[case.get("degen")])
    kwargs = {"bck_options": bck}
    if method != "default":
        kwargs["method"] = method
    if method == "davidson":
        kwargs["min_eps"] = 1e-10

    def xi_eig(leaves):
        Aop = R.make_operator(case["aop"], leaves[:nA], True)
        Mop = R.make_operator(case["mop"], leaves[nA:], True) if hasM else None
        return xl.symeig(Aop, case["neig"], case["mode"], Mop, **kwargs)

    def xi_loss(leaves):
        return loss(*xi_eig(leaves))

    ns = type("EigSetup", (), {})()
    ns.xi_eig = xi_eig
    ns.__dict__.update(dict(n=n, k=k, lam=lam, hasM=hasM, sel_idx=sel_idx, gid=gid, degenerate=degenerate, method=method, order=order,
                            labels=labels, p=p, batch=batch, Aleaves=Aleaves, Mleaves=Mleaves, wrt=wrt, names=names, leaves_fn=leaves_fn,
                            loss=loss, same=same, xi_loss=xi_loss, g=g))
    return ns


def ref_loss_value(ns, leaves):
    """the loss evaluated on scipy's eigenpairs of the dense matrices built from `leaves` (plain number; for finite differences)"""
    Ad, Md = ns.leaves_fn([t.detach() for t in leaves])
    vals, vecs = R.ref_eigh(Ad, Md, ns.batch)
    sel = torch.tensor(ns.sel_idx)
    return float(ns.loss(vals[..., sel], vecs[..., :, sel]))


def run_eig(case):
    ns = prepare_eig(case)
    if not hasattr(ns, "xi_loss"):
        return ns                       # a discard verdict
    n, k, lam, hasM, sel_idx, degenerate, method, order = ns.n, ns.k, ns.lam, ns.hasM, ns.sel_idx, ns.degenerate, ns.method, ns.order
    labels, p, batch, Aleaves, Mleaves, wrt, names, leaves_fn = ns.labels, ns.p, ns.batch, ns.Aleaves, ns.Mleaves, ns.wrt, ns.names, ns.leaves_fn
    loss, same, g = ns.loss, ns.same, ns.g
    with warnings.catch_warnings(record=True) as wlist:
        warnings.simplefilter("always")
        try:
            outs = xt_call(ns.xi_eig, Aleaves + Mleaves, _where="forward")
        except XitorchRaised as e:
            if method == "davidson" and e.kind.startswith(DAVIDSON_BREAKDOWN):
                return discard("forward_davidson_cholesky_breakdown(C05_finding)", labels)
            raise
        lx = loss(*outs)
        warned = [w for w in wlist if "onverge" in type(w.message).__name__]
        if warned:
            return discard("forward_convergence_warning", labels)
        if not lx.requires_grad:
            return violation("no_graph", "loss of symeig outputs does not require grad although %d leaves do" % len(wrt), labels)
        # the first backward records a graph for order 2, and in some order-1 cases too (the later passes then follow a recording one)
        first_graph = (order == 2) or bool(case.get("first_graph"))
        got = xt_call(torch.autograd.grad, lx, wrt, create_graph=first_graph, retain_graph=True, allow_unused=True, _where="backward")
        # the pull-back is linear in the cotangent: the same loss in other units (x 1e-9, x 1e6) must give the same gradient in those
        # units (a backward that compares cotangents with absolute thresholds is not)
        sc_units = float(case.get("units", 1.0))
        if sc_units != 1.0:
            got_u = xt_call(torch.autograd.grad, lx * sc_units, wrt, retain_graph=True, allow_unused=True, _where="backward")
            # rounding floor: gradients that are zero up to rounding (1e-16 of the loss scale) need not scale
            # (the loss is built from O(1) eigenvalues and O(1) weights: its natural scale is 1)
            floor = 1e-10 * abs(sc_units)
            for gk, gu, nm in zip(got, got_u, ns.names):
                a = torch.zeros(()) if gk is None else gk.detach() * sc_units
                b = torch.zeros(()) if gu is None else gu.detach()
                if (gk is None) != (gu is None) or maxabs(a - b) > 1e-6 * maxabs(a) + floor:
                    return violation("grad_not_linear_in_cotangent", "gradient w.r.t. %s of the loss times %g is not %g times the gradient of the loss: max |diff| %.3e, "
                                     "|expected| %.3e" % (nm, sc_units, sc_units, maxabs(a - b), maxabs(a)), labels + ["units=%g" % sc_units])
            labels = labels + ["units=%g" % sc_units]
    # ---------------------------------------------------------------- tolerances
    gap_lam = min([abs(lam[i] - lam[j]) for i in sel_idx for j in range(n) if lam[i] != lam[j]] or [1.0])
    gap = gap_lam * p.gapscale
    a_norm = max(float(torch.linalg.matrix_norm(p.A, 2).max()), R.leaves_scale(case["aop"], [t.detach() for t in Aleaves]))
    spread = max(a_norm / p.m_lmin, 1.0)
    tol = 1e3 * n * EPS * p.m_kappa * max(spread / gap, 1.0) ** 2
    if method == "davidson":
        tol += 1e3 * math.sqrt(n) * 1e-10 * spread / gap ** 2
    # ---------------------------------------------------------------- first order
    Ad, Md = leaves_fn([t.detach() for t in Aleaves + Mleaves])
    perfect = case.get("loss2") == "perfect"
    loss_ref = loss.fresh() if perfect else loss          # perfect fit: the target of the reference is its own value at this point
    ref_eig = R.ref_eigh(Ad, Md, batch)
    ref, lref = closed_form_grads(loss_ref, Ad, Md, batch, sel_idx, same, leaves_fn, Aleaves + Mleaves, wrt, eig=ref_eig)
    if not abs(float(lx) - lref) <= tol * (1 + abs(lref)):
        return violation("loss_value", "loss on xitorch's eigenpairs %.12g vs on the reference eigenpairs %.12g (tol %.2e): the loss is basis "
                         "independent, so the returned pairs are wrong" % (float(lx), lref, tol), labels)
    info = " [n=%d k=%d gap=%.3g spread=%.3g degenerate=%s]" % (n, k, gap, spread, degenerate)
    bad, worst = compare(got, ref, names, tol, "grad1", labels, info)
    if bad is not None:
        return bad
    labels = labels + [margin_label("err1/tol", worst)]
    refnz = any(maxabs(r) > 0 for r in ref)
    nontriv = refnz and (k < n or hasM or degenerate or order == 2)
    # ---------------------------------------------------------------- further backward passes through the same graph
    rows = list(case.get("rows", []))
    late = bool(case.get("late")) and order == 2
    g2 = gen.seeded(case["seed"] ^ 0x2B5A17C3)              # own stream: the draws of the other parts do not move

    def mkloss(kind):
        return row_loss(EigLoss, kind, g2, ns.gid, (n,), batch, R.DT[case["dtype"]])

    def ref_fn(lobj):
        return closed_form_grads(lobj, Ad, Md, batch, sel_idx, same, leaves_fn, Aleaves + Mleaves, wrt, eig=ref_eig)[0]

    def first_again():
        # (same recording mode as the first pass: a recording backward may legitimately use other kernels than a plain one)
        return xt_call(torch.autograd.grad, lx, wrt, create_graph=first_graph, retain_graph=True, allow_unused=True, _where="backward_again")
    if rows and not late:
        bad, labels = repeated_backward(rows, first_again, got, outs, wrt, names, mkloss, ref_fn, tol, labels, info)
        if bad is not None:
            return bad
    nontriv = nontriv or (refnz and bool(rows))
    simple_all = len(set(lam)) == n
    if simple_all:
        # self check of the oracle: closed form vs autograd through torch.linalg.eigh (whose backward needs *all* eigenvalues simple)
        lt = eigh_autograd_loss(loss.fresh() if perfect else loss, leaves_fn, Aleaves + Mleaves, batch, sel_idx)
        ref_t = torch.autograd.grad(lt, wrt, create_graph=(order == 2), allow_unused=True)
        ref_t = [torch.zeros_like(x) if r is None else r for r, x in zip(ref_t, wrt)]
        for r1, r2 in zip(ref, ref_t):
            if not maxabs(r1 - r2) <= tol * (1 + maxabs(r1)):
                return discard("reference_self_check_failed", labels)
    if order == 1:
        return ok(labels, nontrivial=nontriv)
    # ---------------------------------------------------------------- second order
    C = [gen.randn(g, x.shape, x.dtype) for x in wrt]

    def contract(gs):
        tot = 0.0
        for c, gk in zip(C, gs):
            if gk is not None:
                tot = tot + (c.conj() * gk).sum().real
        return tot
    L1 = contract(got)
    if not (isinstance(L1, torch.Tensor) and L1.requires_grad):
        return violation("no_second_graph", "create_graph=True produced first-order gradients without a graph", labels)
    with warnings.catch_warnings():
        warnings.simplefilter("ignore")
        got2 = xt_call(torch.autograd.grad, L1, wrt, allow_unused=True, retain_graph=late, _where="backward2")
        if late:
            # passes after the double backward: 'same' repeats the double backward itself (bit for bit), the others are first-order
            # passes with another loss through the forward graph, which the double backward has just traversed
            def second_again():
                return xt_call(torch.autograd.grad, L1, wrt, allow_unused=True, retain_graph=True, _where="backward2_again")
            bad, labels = repeated_backward(rows, second_again, got2, outs, wrt, names, mkloss, ref_fn, tol, labels, info, what="grad2")
            if bad is not None:
                return bad
    if perfect:
        # Hessian of a perfect fit = J^T diag(beta) J with the rows J_r = closed-form first-order gradients of the residuals (valid at
        # exact degeneracy: the residuals are symmetric functions of the groups): H C = sum_r beta_r (J_r . C) J_r
        def row_fn(lin):
            return closed_form_grads(lin, Ad, Md, batch, sel_idx, same, leaves_fn, Aleaves + Mleaves, wrt, eig=ref_eig)[0]
        ref2, bound = perfect_fit_hessian(loss_ref, row_fn, ref_eig, sel_idx, batch, C, wrt, tol)
        if simple_all:
            ref2_t = torch.autograd.grad(contract(ref_t), wrt, allow_unused=True)
            for r1, r2, b in zip(ref2, ref2_t, bound):
                if not maxabs(r1 - (torch.zeros_like(r1) if r2 is None else r2)) <= 10 * b:
                    return discard("reference_self_check_failed", labels)
        bad, worst = compare_abs(got2, ref2, names, [10 * b for b in bound], "grad2_perfect_fit", labels, info)
        if bad is not None:
            return bad
        return ok(labels + ["ref2=JtJ_closed_form", margin_label("err2pf/tol", worst)], nontrivial=any(maxabs(r) > 0 for r in ref2))
    if simple_all:
        # (torch.linalg.eigh's own double backward is wrong when *any* two eigenvalues coincide, also unselected ones)
        ref2 = torch.autograd.grad(contract(ref_t), wrt, allow_unused=True)
        ref2 = [torch.zeros_like(x) if r is None else r for r, x in zip(ref2, wrt)]
        bad, worst = compare(got2, ref2, names, 10 * tol, "grad2", labels, info)
        if bad is not None:
            return bad
        return ok(labels + ["ref2=autograd", margin_label("err2/tol", worst)], nontrivial=nontriv)
    # degenerate: directional finite difference of the closed-form gradient  d/dt <C, g(theta + t D)> = <D, H C>
    D = [gen.randn(g, x.shape, x.dtype) for x in wrt]
    D = [d / max(1.0, float(torch.linalg.vector_norm(d))) for d in D]

    def cf_at(t):
        moved, j = [], 0
        for x in Aleaves + Mleaves:
            if x.requires_grad:
                moved.append((x.detach() + t * D[j]).requires_grad_())
                j += 1
            else:
                moved.append(x.detach())
        w2 = [x for x in moved if x.requires_grad]
        Ad2, Md2 = leaves_fn([x.detach() for x in moved])
        r, _ = closed_form_grads(loss_ref, Ad2, Md2, batch, sel_idx, same, leaves_fn, moved, w2)
        return float(contract(r))
    # step: a leaf perturbation t D (|D| <= 1 per leaf) moves the dense A, M by <= 2t and a pencil eigenvalue by <= 2t (1 + spread)/lmin;
    # the gradient is analytic in t until a gap closes, r = gap lmin / (4 (1 + spread)); 2h = r/20 keeps the 4th-order truncation
    # error below ~3e-7 of the derivative, the rounding error is (tol/1e3)/h
    fd_h = min(FD_H, gap * p.m_lmin / (160.0 * (1.0 + spread)))
    fd = (-cf_at(2 * fd_h) + 8 * cf_at(fd_h) - 8 * cf_at(-fd_h) + cf_at(-2 * fd_h)) / (12 * fd_h)      # 4th-order central difference
    sx = 0.0
    for d, g2 in zip(D, got2):
        if g2 is not None:
            if not bool(torch.isfinite(g2.abs()).all()):
                return violation("grad2_nonfinite", "second-order gradient is not finite" + info, labels)
            sx += float((d.conj() * g2).sum().real)
    tol2 = 1e3 * tol + 10 * (tol / 1e3) / fd_h + 3e-6
    labels = labels + [margin_label("err2fd/tol", abs(sx - fd) / (tol2 * (1 + abs(fd))))]
    if not abs(sx - fd) <= tol2 * (1 + abs(fd)):
        return violation("grad2_degenerate", "directional second derivative <D, H C>: xitorch %.10g, finite difference of the closed-form gradient %.10g "
                         "(tol %.2e)%s" % (sx, fd, tol2 * (1 + abs(fd)), info), labels)
    return ok(labels + ["ref2=fd_degenerate_selected" if degenerate else "ref2=fd_degenerate_unselected"], nontrivial=nontriv)



# ------------------------------------------------------------------------------------------------ svd task

class SvdLoss:
    """l(S, U, V) for S (*batch,k), U (*batch,m,k), V (*batch,n,k): invariant under simultaneous phase changes of (u_i, v_i) and under
    simultaneous rotations of the pairs of a group of repeated singular values"""
    def __init__(self, g, gid, m, n, batch, dtype, use_vec=True, emask=None, vmask=None):
        self.w = group_weights(g, gid)
        self.q = group_weights(g, gid)
        self.h1 = group_weights(g, gid)
        self.h2 = group_weights(g, gid)
        self.W1 = gen.randn(g, (m, n), dtype)
        self.W2 = gen.randn(g, (m, n), dtype)
        self.beta = torch.rand(tuple(batch), generator=g, dtype=torch.float64) + 0.5
        self.use_vec = use_vec
        if emask is not None:           # groups whose singular values / vectors the loss depends on (see EigLoss)
            self.w = self.w * group_mask(emask, gid)
            self.q = self.q * group_mask(emask, gid)
        if vmask is not None:
            self.h1 = self.h1 * group_mask(vmask, gid)
            self.h2 = self.h2 * group_mask(vmask, gid)

    def __call__(self, S, U, V):
        ls = (self.w * S + 0.5 * self.q * S * S).sum(-1)
        if not self.use_vec:
            return (self.beta * ls).sum()
        t1 = torch.einsum("...ai,ab,...bi->...i", U.conj(), self.W1, V).real
        t2 = torch.einsum("...ai,ab,...bi->...i", U.conj(), self.W2, V).real
        a = (self.h1 * t1).sum(-1)
        c = (self.h2 * t2).sum(-1)
        return (self.beta * (ls + a + 0.5 * a * c + 0.3 * a * (self.w * S).sum(-1))).sum()


class PerfectFitSvdLoss:
    """as PerfectFitEigLoss: residuals = (sum of the singular values of every group, sum over every group of Re u_i^H W1 v_i)"""
    def __init__(self, g, gid, m, n, batch, dtype, use_vec=True):
        self.gid = gid
        self.W1 = gen.randn(g, (m, n), dtype)
        self.beta = torch.rand(tuple(batch), generator=g, dtype=torch.float64) + 0.5
        self.use_vec = use_vec
        self.target = None

    def residuals(self, S, U, V):
        r = group_sums(S, self.gid)
        if self.use_vec:
            t1 = torch.einsum("...ai,ab,...bi->...i", U.conj(), self.W1, V).real
            r = torch.cat([r, group_sums(t1, self.gid)], dim=-1)
        return r

    fresh = PerfectFitEigLoss.fresh

    def __call__(self, S, U, V):
        r = self.residuals(S, U, V)
        if self.target is None:
            self.target = r.detach().clone()
        return 0.5 * (self.beta * ((r - self.target) ** 2).sum(-1)).sum()


class Embedded:
    """a loss of singular triplets as a loss of the eigenpairs (s_i, [u_i; v_i]/sqrt 2) of the Jordan-Wielandt matrix"""
    def __init__(self, loss, m):
        self.loss, self.m = loss, m

    def split(self, E, Z):
        rt2 = math.sqrt(2.0)
        return E, rt2 * Z[..., :self.m, :], rt2 * Z[..., self.m:, :]

    def __call__(self, E, Z):
        return self.loss(*self.split(E, Z))

    def residuals(self, E, Z):
        return self.loss.residuals(*self.split(E, Z))

    @property
    def beta(self):
        return self.loss.beta


def embed(A):
    """Jordan-Wielandt matrix [[0, A], [A^H, 0]]: eigenpairs (+-s_i, [u_i; +-v_i]/sqrt 2) and |m-n| zeros"""
    m, n = A.shape[-2:]
    top = torch.cat([torch.zeros((*A.shape[:-2], m, m), dtype=A.dtype), A], dim=-1)
    bot = torch.cat([R.ct(A), torch.zeros((*A.shape[:-2], n, n), dtype=A.dtype)], dim=-1)
    return torch.cat([top, bot], dim=-2)


def svd_second_order_degenerate(sv, k, mode, method):
    r = len(sv)
    kk = r if k is None else k
    if method in ("exacteig", "default"):
        return len(set(sv)) < r
    sel = sv[:kk] if mode == "lowest" else sv[r - kk:]
    return len(set(sel)) < len(sel)


def run_svd(case):
    import xitorch.linalg as xl
    torch.manual_seed(case["seed"] & 0x7FFFFFFF)
    g = gen.seeded(case["seed"])
    dtype = R.DT[case["dtype"]]
    m, n = case["m"], case["n"]
    r = min(m, n)
    sv = case["sv"]
    batch = case["batch"]
    k = r if case["k"] is None else case["k"]
    low = case["mode"] == "lowest"
    pos = list(range(k)) if low else list(range(r - k, r))            # positions among the ascending singular values
    gid = group_ids([sv[i] for i in pos])
    degenerate = len(set(gid)) < k
    method, order = case["method"], case["order"]
    kind = case["aop"]
    labels = ["svd_method=%s" % method, "svd_mode=%s" % case["mode"], "svd_shape=%s" % ("tall" if m > n else ("wide" if m < n else "square")),
              "svd_aop=%s" % kind, "svd_dtype=%s" % case["dtype"], "svd_degenerate=%s" % degenerate, "svd_k=%s" % ("full" if k == r else "partial"),
              "svd_order=%d" % order, "svd_batch=%d" % len(batch),
              "svd_loss=%s%s" % ("values" if not case["use_vec"] else "values+vectors", "(perfect_fit)" if case.get("loss2") == "perfect" else ""),
              "svd_degen_opts=%s" % case.get("degen"),
              "svd_passes=%d%s" % (1 + len(case.get("rows", [])), "(late)" if case.get("late") and case.get("rows") else ""),
              "svd_first_backward=%s" % ("recording" if (order == 2 or case.get("first_graph")) else "plain")]
    if k < r:
        inside, outside = (sv[k - 1], sv[k]) if low else (sv[r - k], sv[r - k - 1])
        if inside == outside:
            return discard("group_straddles_cut", labels)
    U0 = R.rand_unitary(g, batch, m, dtype)[..., :, :r]
    V0 = R.rand_unitary(g, batch, n, dtype)[..., :, :r]
    sc = R.pick(g, [1.0, 1.5], batch)
    S0 = sc[..., None] * torch.tensor(sv, dtype=torch.float64)
    A0 = (U0 * S0.to(dtype)[..., None, :]) @ R.ct(V0)
    leaves = [t.clone().requires_grad_() for t in R.split_leaves(kind, A0, g)]
    names = ["A-leaf%d" % i for i in range(len(leaves))]
    perfect = case.get("loss2") == "perfect"
    if perfect:
        loss = PerfectFitSvdLoss(g, gid, m, n, batch, dtype, use_vec=case["use_vec"])
    else:
        loss = SvdLoss(g, gid, m, n, batch, dtype, use_vec=case["use_vec"])
    same = R.groups_of(gid)
    kwargs = {"bck_options": {"method": "exactsolve"} if case["bck"] == "exactsolve" else {}}
    # (thresholds on the eigenvalues s^2 >= 0.36 of A^H A, gaps >= 0.3 * 1.2; equivalent to the defaults as in the eig task)
    kwargs["bck_options"].update(EQUIVALENT_DEGEN_OPTS[case.get("degen")])
    if method != "default":
        kwargs["method"] = method
    if method == "davidson":
        kwargs["min_eps"] = 1e-10

    def xi_svd(lv):
        Aop = R.make_operator(kind, lv, False)
        U, S, Vh = xl.svd(Aop, case["k"], case["mode"], **kwargs)
        return S, U, R.ct(Vh)
    rows = list(case.get("rows", []))
    late = bool(case.get("late")) and order == 2
    first_graph = (order == 2) or bool(case.get("first_graph"))
    with warnings.catch_warnings(record=True) as wlist:
        warnings.simplefilter("always")
        try:
            outs = xt_call(xi_svd, leaves, _where="forward")
        except XitorchRaised as e:
            if method == "davidson" and e.kind.startswith(DAVIDSON_BREAKDOWN):
                return discard("forward_davidson_cholesky_breakdown(C05_finding)", labels)
            raise
        lx = loss(*outs)
        if [w for w in wlist if "onverge" in type(w.message).__name__]:
            return discard("forward_convergence_warning", labels)
        if not lx.requires_grad:
            return violation("no_graph", "loss of svd outputs does not require grad", labels)
        got = xt_call(torch.autograd.grad, lx, leaves, create_graph=first_graph, retain_graph=bool(rows) or None, allow_unused=True, _where="backward")
    # ---------------------------------------------------------------- reference through the Hermitian embedding
    N = m + n
    sel_idx = [N - r + i for i in pos]                       # +s_i are the r largest eigenvalues of the embedding, ascending
    loss_H = Embedded(loss.fresh() if perfect else loss, m)

    def leaves_fn(lv):
        return embed(R.dense_of(kind, lv, False)), None
    smin, smax = float(S0.min()), max(float(S0.max()), R.leaves_scale(kind, [t.detach() for t in leaves]))
    scmin = float(sc.min())
    gaps2 = [abs(sv[i] ** 2 - sv[j] ** 2) for i in pos for j in range(r) if sv[i] != sv[j]]
    gap_e = (min(gaps2) if gaps2 else smin ** 2 / scmin ** 2) * scmin ** 2          # gap of the eigen-problem of A^H A actually solved
    tol = 1e3 * max(m, n) * EPS * (smax / smin) ** 2 * max(smax ** 2 / gap_e, 1.0) ** 2
    if method == "davidson":
        tol += 1e3 * math.sqrt(max(m, n)) * 1e-10 * smax ** 2 / gap_e ** 2 / smin
    Hd, _ = leaves_fn([t.detach() for t in leaves])
    ref_eig = R.ref_eigh(Hd, None, batch)
    ref, lref = closed_form_grads(loss_H, Hd, None, batch, sel_idx, same, leaves_fn, leaves, leaves, eig=ref_eig)
    info = " [m=%d n=%d k=%d gap(s^2)=%.3g smin=%.3g smax=%.3g degenerate=%s]" % (m, n, k, gap_e, smin, smax, degenerate)
    if not abs(float(lx) - lref) <= tol * (1 + abs(lref)):
        return violation("loss_value", "loss on xitorch's singular triplets %.12g vs on the reference triplets %.12g (tol %.2e)%s" % (
            float(lx), lref, tol, info), labels)
    bad, worst = compare(got, ref, names, tol, "grad1", labels, info)
    if bad is not None:
        return bad
    labels = labels + [margin_label("svd_err1/tol", worst)]
    refnz = any(maxabs(x) > 0 for x in ref)
    nontriv = refnz and (k < r or m != n or degenerate or order == 2)
    simple_all = len(set(sv)) == r
    # ---------------------------------------------------------------- further backward passes through the same graph (see run_eig)
    g2 = gen.seeded(case["seed"] ^ 0x2B5A17C3)
    vec_ok = not degenerate or bool(case["use_vec"])       # repeated selected singular values: vector losses only inside the recorded finding

    def mkloss(kind_):
        return row_loss(SvdLoss, kind_, g2, gid, (m, n), batch, dtype, vec_ok=vec_ok)

    def ref_fn(lobj):
        return closed_form_grads(Embedded(lobj, m), Hd, None, batch, sel_idx, same, leaves_fn, leaves, leaves, eig=ref_eig)[0]

    def first_again():
        return xt_call(torch.autograd.grad, lx, leaves, create_graph=first_graph, retain_graph=True, allow_unused=True, _where="backward_again")
    if rows and not late:
        bad, labels = repeated_backward(rows, first_again, got, outs, leaves, names, mkloss, ref_fn, tol, labels, info)
        if bad is not None:
            return bad
    nontriv = nontriv or (refnz and bool(rows))

    loss_t = loss.fresh() if perfect else loss

    def svd_autograd_loss(lv):
        A = R.dense_of(kind, lv, False).expand(*batch, m, n)
        U, S, Vh = torch.linalg.svd(A, full_matrices=False)
        ps = torch.tensor([r - 1 - i for i in pos])              # torch orders descending
        return loss_t(S[..., ps], U[..., :, ps], R.ct(Vh)[..., :, ps])
    if simple_all:
        lt = svd_autograd_loss(leaves)
        ref_t = torch.autograd.grad(lt, leaves, create_graph=(order == 2), allow_unused=True)
        ref_t = [torch.zeros_like(x) if q is None else q for q, x in zip(ref_t, leaves)]
        for r1, r2 in zip(ref, ref_t):
            if not maxabs(r1 - r2) <= tol * (1 + maxabs(r1)):
                return discard("reference_self_check_failed", labels)
    if order == 1:
        return ok(labels, nontrivial=nontriv)
    C = [gen.randn(g, x.shape, x.dtype) for x in leaves]

    def contract(gs):
        tot = 0.0
        for c, gk in zip(C, gs):
            if gk is not None:
                tot = tot + (c.conj() * gk).sum().real
        return tot
    L1 = contract(got)
    if not (isinstance(L1, torch.Tensor) and L1.requires_grad):
        return violation("no_second_graph", "create_graph=True produced first-order gradients without a graph", labels)
    with warnings.catch_warnings():
        warnings.simplefilter("ignore")
        got2 = xt_call(torch.autograd.grad, L1, leaves, allow_unused=True, retain_graph=late, _where="backward2")
        if late:
            def second_again():
                return xt_call(torch.autograd.grad, L1, leaves, allow_unused=True, retain_graph=True, _where="backward2_again")
            bad, labels = repeated_backward(rows, second_again, got2, outs, leaves, names, mkloss, ref_fn, tol, labels, info, what="grad2")
            if bad is not None:
                return bad
    if perfect:
        def row_fn(lin):
            return closed_form_grads(lin, Hd, None, batch, sel_idx, same, leaves_fn, leaves, leaves, eig=ref_eig)[0]
        ref2, bound = perfect_fit_hessian(loss_H, row_fn, ref_eig, sel_idx, batch, C, leaves, tol)
        if simple_all:
            ref2_t = torch.autograd.grad(contract(ref_t), leaves, allow_unused=True)
            for r1, r2, b in zip(ref2, ref2_t, bound):
                if not maxabs(r1 - (torch.zeros_like(r1) if r2 is None else r2)) <= 10 * b:
                    return discard("reference_self_check_failed", labels)
        bad, worst = compare_abs(got2, ref2, names, [10 * b for b in bound], "grad2_perfect_fit", labels, info)
        if bad is not None:
            return bad
        return ok(labels + ["svd_ref2=JtJ_closed_form", margin_label("svd_err2pf/tol", worst)], nontrivial=any(maxabs(x) > 0 for x in ref2))
    if simple_all:
        ref2 = torch.autograd.grad(contract(ref_t), leaves, allow_unused=True)
        ref2 = [torch.zeros_like(x) if q is None else q for q, x in zip(ref2, leaves)]
        bad, worst = compare(got2, ref2, names, 10 * tol, "grad2", labels, info)
        if bad is not None:
            return bad
        return ok(labels + ["svd_ref2=autograd", margin_label("svd_err2/tol", worst)], nontrivial=nontriv)
    D = [gen.randn(g, x.shape, x.dtype) for x in leaves]
    D = [d / max(1.0, float(torch.linalg.vector_norm(d))) for d in D]

    def cf_at(t):
        moved = [(x.detach() + t * d).requires_grad_() for x, d in zip(leaves, D)]
        H2, _ = leaves_fn([x.detach() for x in moved])
        rr, _ = closed_form_grads(loss_H, H2, None, batch, sel_idx, same, leaves_fn, moved, moved)
        return float(contract(rr))
    # step as in run_eig: eigenvalues of the embedding move by <= 2t (1 + smax); gaps of +s_i to other s_j, to 0 and to -s
    gaps1 = [abs(sv[i] - sv[j]) for i in pos for j in range(r) if sv[i] != sv[j]] + [sv[0]]
    gap_h = min(gaps1) * scmin
    fd_h = min(FD_H, gap_h / (160.0 * (1.0 + smax)))
    fd = (-cf_at(2 * fd_h) + 8 * cf_at(fd_h) - 8 * cf_at(-fd_h) + cf_at(-2 * fd_h)) / (12 * fd_h)
    sx = 0.0
    for d, g2 in zip(D, got2):
        if g2 is not None:
            if not bool(torch.isfinite(g2.abs()).all()):
                return violation("grad2_nonfinite", "second-order gradient is not finite" + info, labels)
            sx += float((d.conj() * g2).sum().real)
    tol2 = 1e3 * tol + 10 * (tol / 1e3) / fd_h + 3e-6
    labels = labels + [margin_label("svd_err2fd/tol", abs(sx - fd) / (tol2 * (1 + abs(fd))))]
    if not abs(sx - fd) <= tol2 * (1 + abs(fd)):
        return violation("grad2_degenerate", "directional second derivative <D, H C>: xitorch %.10g, finite difference of the closed-form gradient %.10g "
                         "(tol %.2e)%s" % (sx, fd, tol2 * (1 + abs(fd)), info), labels)
    return ok(labels + ["svd_ref2=fd"], nontrivial=nontriv)


# ------------------------------------------------------------------------------------------------ strategies

@st.composite
def grouped_spectrum_st(draw, n, maxmult=3, simple=False):
    """ascending eigenvalues: groups of exactly repeated values (sizes 1..maxmult) separated by gaps in {0.5, 1.0, 1.5} (>= 0.3)"""
    vals = []
    cur = draw(st.sampled_from([-3.0, -1.0, -0.25, 0.5]))
    while len(vals) < n:
        size = 1 if simple else draw(st.sampled_from([1, 1, 1, 1, 2, 2, 3]))
        size = max(1, min(size, maxmult, n - len(vals)))
        vals += [cur] * size
        cur = cur + draw(st.sampled_from([0.5, 1.0, 1.5]))
    return vals


def cut_choices(lam, low):
    """values of neig for which no group straddles the cut"""
    n = len(lam)
    out = []
    for k in range(1, n + 1):
        if k == n:
            out.append(k)
        elif low and lam[k - 1] != lam[k]:
            out.append(k)
        elif (not low) and lam[n - k] != lam[n - k - 1]:
            out.append(k)
    return out


def selected_degenerate(lam, neig, mode):
    n = len(lam)
    k = n if neig is None else neig
    sel = lam[:k] if mode == "lowest" else lam[n - k:]
    return len(set(sel)) < len(sel)


def second_order_degenerate(lam, neig, mode, method):
    """region of the recorded finding: the second-order formulas drop the within-group block of the first-order changes.
    Implicit backward (custom_exacteig, davidson): a repeated eigenvalue inside the selected set.  Dense path (exacteig, also the
    default): a repeated eigenvalue anywhere, because the full decomposition is differentiated."""
    if method in ("exacteig", "default"):
        return len(set(lam)) < len(lam)
    return selected_degenerate(lam, neig, mode)


def _second_order_degenerate(case):
    if case.get("loss2") == "perfect":
        # perfect fit: the dropped within-group terms are multiplied by the (exactly zero) residuals; the Hessian J^T J needs first order only
        return False
    if "sv" in case:
        return case.get("order") == 2 and svd_second_order_degenerate(case["sv"], case["k"], case["mode"], case["method"])
    return "lam" in case and case.get("order") == 2 and second_order_degenerate(case["lam"], case["neig"], case["mode"], case["method"])


# second-order gradients at an exact degeneracy are wrong (recorded finding, no small repair): generated only when
# known_findings.json lists this site, otherwise order 2 is drawn outside this region only
def _svd_vectors_degenerate(case):
    """svd composes the second factor as A v_i / s_i outside symeig, so the cotangents of the eigenvalues of A^H A differ inside a group of
    repeated singular values and the degenerate backward formula no longer applies: first-order gradients of basis-independent functions
    of the singular vectors are wrong by O(1) (recorded finding, no small repair)"""
    if "sv" not in case or not case.get("use_vec"):
        return False
    r = len(case["sv"])
    k = r if case["k"] is None else case["k"]
    sel = case["sv"][:k] if case["mode"] == "lowest" else case["sv"][r - k:]
    return len(set(sel)) < len(sel)


SITES = {"second_order_at_degeneracy": _second_order_degenerate, "svd_vectors_at_repeated_singular_values": _svd_vectors_degenerate}


def _known_sites():
    from pbt.harness import load_known
    return {e.get("site") for e in load_known(PID)}


ROW_KINDS = ["same", "alt", "vals", "vecs", "part", "part", "zero"]


@st.composite
def rows_st(draw):
    """the further backward passes through the same graph: none in half of the cases, else 1..3 (backward twice / three times / four times)"""
    if draw(st.booleans()):
        return []
    return [draw(st.sampled_from(ROW_KINDS)) for _ in range(draw(st.sampled_from([1, 1, 2, 2, 3])))]


@st.composite
def eig_case_st(draw, tier="quick", known=()):
    method = draw(st.sampled_from(["exacteig", "custom_exacteig", "custom_exacteig", "davidson", "default"]))
    n = draw(st.integers(2, 6 if tier == "quick" else 7))
    mode = draw(st.sampled_from(["lowest", "lowest", "uppest", "uppermost"]))
    low = mode == "lowest"
    order = draw(st.sampled_from([1, 1, 2]))
    # order 2 lies outside the recorded second-order finding only for (selected-)simple spectra: favour them by construction
    lam = draw(grouped_spectrum_st(n, simple=(order == 2 and draw(st.sampled_from([True, True, False])))))
    ks = cut_choices(lam, low)
    if method == "davidson":
        # rank-deficient expansion blocks (recorded C05 finding, c05.rank_deficient_expansion_region): with exact repeats every
        # multiplicity must be <= neig and neig must divide n (neig = n always qualifies)
        mm = 1
        run = 1
        for i in range(1, n):
            run = run + 1 if lam[i] == lam[i - 1] else 1
            mm = max(mm, run)
        if mm > 1:
            ks = [k for k in ks if k >= mm and n % k == 0]
    neig = draw(st.sampled_from(ks))
    if neig == n and draw(st.booleans()):
        neig = None
    dtype = "f64" if method == "davidson" else draw(st.sampled_from(["f64", "c128"]))
    rank = draw(st.sampled_from([0, 0, 0, 1, 2]))
    target = [draw(st.sampled_from([1, 2])) for _ in range(rank)]

    def part():
        drop = draw(st.integers(0, rank))
        return [1 if draw(st.sampled_from([False, False, True])) else d for d in target[drop:]]
    bA = part()
    bM = part() if draw(st.sampled_from([True, True, False])) else None
    aop = draw(st.sampled_from(R.HERM_KINDS))
    mop = draw(st.sampled_from(["dense", "dense", "mv", "full", "scaled", "add_du"]))
    alldense = aop in ("dense", "dense_scaled") and (bM is None or mop == "dense")
    bck = "exactsolve"
    if (alldense or n <= 5) and draw(st.booleans()):
        bck = "default"
    loss2 = None
    if order == 2 and draw(st.sampled_from([True, False, False, False])):
        loss2 = "perfect"               # perfect-fit least squares: first-order cotangents exactly zero, Hessian J^T J
    if order == 2 and loss2 is None and second_order_degenerate(lam, neig, mode, method):
        if not ("second_order_at_degeneracy" in known and draw(st.sampled_from([True, False, False]))):
            order = 1
    rows = draw(rows_st())
    extra = {"rows": rows, "late": bool(rows) and order == 2 and draw(st.booleans()),
             "first_graph": order == 1 and draw(st.sampled_from([True, False, False])),
             "degen": draw(st.sampled_from([None, None, None, "atol", "both", "rtol_none"])), "loss2": loss2}
    return {**extra, "lam": lam, "dtype": dtype, "batchA": bA, "batchM": bM, "mkappa": draw(st.sampled_from([1.0, 2.0, 4.0, 10.0])),
            "aop": aop, "mop": mop, "method": method, "neig": neig, "mode": mode, "bck": bck,
            "structure": draw(st.sampled_from(["generic"] * 5 + ["diag"])),
            "wrt": draw(st.sampled_from(["AM", "AM", "A", "M"])), "use_vec": draw(st.sampled_from([True, True, True, False])),
            "units": draw(st.sampled_from([1.0, 1.0, 1.0, 1e-9, 1e-11, 1e6])),
            "order": order, "seed": draw(st.integers(0, 2 ** 31 - 1))}


@st.composite
def svd_case_st(draw, tier="quick", known=()):
    method = draw(st.sampled_from(["exacteig", "custom_exacteig", "custom_exacteig", "default", "davidson"]))
    m, n = draw(st.integers(1, 6)), draw(st.integers(1, 6))
    r = min(m, n)
    mode = draw(st.sampled_from(["lowest", "uppest", "uppest", "uppermost"]))
    order = draw(st.sampled_from([1, 1, 2]))
    simple = order == 2 and draw(st.sampled_from([True, True, False]))
    sv, cur = [], 0.6
    while len(sv) < r:
        size = 1 if simple else draw(st.sampled_from([1, 1, 1, 2, 2, 3]))
        size = max(1, min(size, r - len(sv)))
        sv += [cur] * size
        cur = cur + draw(st.sampled_from([0.3, 0.5]))
    ks = cut_choices(sv, mode == "lowest")
    if method == "davidson":
        mm, run = 1, 1
        for i in range(1, r):
            run = run + 1 if sv[i] == sv[i - 1] else 1
            mm = max(mm, run)
        if mm > 1:
            ks = [k for k in ks if k >= mm and r % k == 0]
    k = draw(st.sampled_from(ks))
    if k == r and draw(st.booleans()):
        k = None
    loss2 = None
    if order == 2 and draw(st.sampled_from([True, False, False, False])):
        loss2 = "perfect"
    if order == 2 and loss2 is None and svd_second_order_degenerate(sv, k, mode, method):
        if not ("second_order_at_degeneracy" in known and draw(st.sampled_from([True, False, False, False]))):
            order = 1
    rows = draw(rows_st())
    extra = {"rows": rows, "late": bool(rows) and order == 2 and draw(st.booleans()),
             "first_graph": order == 1 and draw(st.sampled_from([True, False, False])),
             "degen": draw(st.sampled_from([None, None, None, "atol", "both", "rtol_none"])), "loss2": loss2}
    rank = draw(st.sampled_from([0, 0, 0, 1, 2]))
    batch = [draw(st.sampled_from([1, 2])) for _ in range(rank)]
    aop = draw(st.sampled_from(R.GEN_KINDS))
    bck = "exactsolve"
    if (aop == "dense" or r <= 5) and draw(st.booleans()):
        bck = "default"
    case = {**extra, "m": m, "n": n, "sv": sv, "dtype": "f64" if method == "davidson" else draw(st.sampled_from(["f64", "c128"])), "batch": batch,
            "aop": aop, "k": k, "mode": mode, "method": method, "bck": bck, "order": order,
            "use_vec": draw(st.sampled_from([True, True, True, False])), "seed": draw(st.integers(0, 2 ** 31 - 1))}
    if _svd_vectors_degenerate(case):
        if not ("svd_vectors_at_repeated_singular_values" in known and draw(st.sampled_from([True, False, False, False]))):
            case["use_vec"] = False          # repeated selected singular values: singular values only (see SITES)
    return case


# ------------------------------------------------------------------------------------------------ task degen_opts

DEGEN_OPTS = {"zero": {"degen_atol": 0.0, "degen_rtol": 0.0}, "rzero": {"degen_rtol": 0.0}, "azero_rtiny": {"degen_atol": 0.0, "degen_rtol": 1e-12},
              "tiny": {"degen_atol": 1e-13, "degen_rtol": 1e-12}}
PAIR_ROW_KINDS = ["same", "full", "v0", "v1", "v0", "v1", "vals", "rest"]
DENSE_METHODS = ["exacteig", None]          # task dense_gap: None = the documented default method (exacteig)

# task wide_spectrum: thresholds of the caller (or the defaults) on spectra spanning many orders of magnitude
WIDE_OPTS = {"default": {}, "none": {"degen_atol": None, "degen_rtol": None}, "rtol1e-5": {"degen_rtol": 1e-5},
             "rtol1e-3_atol0": {"degen_atol": 0.0, "degen_rtol": 1e-3}, "rtol1e-4_atol1e-9": {"degen_atol": 1e-9, "degen_rtol": 1e-4},
             "rtol1e-6_atol1e-12": {"degen_atol": 1e-12, "degen_rtol": 1e-6}}


def degen_thresholds(opts):
    """(atol, rtol) meant by a bck_options dict: None / absent = the documented defaults eps**0.6, eps**0.4"""
    atol, rtol = opts.get("degen_atol"), opts.get("degen_rtol")
    return (EPS ** 0.6 if atol is None else atol), (EPS ** 0.4 if rtol is None else rtol)


def wide_spectrum(case):
    """n simple eigenvalues spanning many orders of magnitude: one of magnitude S (sign bsign), a pair (c g, (c + 1) g) (sign psign)
    whose gap g = f (atol + rtol S), f < 1, is BELOW the threshold evaluated at the largest eigenvalue but far above the threshold
    evaluated at the pair itself (rtol (c + 1) g <= g / 90 for rtol <= 1e-3, c <= 10; atol <= g / 50), and n - 3 fillers in geometric
    progression (ratio >= 3) between the pair and S with signs fsigns.  Returns the ascending list and the two values of the pair."""
    atol, rtol = degen_thresholds(WIDE_OPTS[case["opts"]])
    n, S = case["n"], float(case["S"])
    g = float(case["f"]) * (atol + rtol * S)
    pair = [case["psign"] * case["c"] * g, case["psign"] * (case["c"] + 1.0) * g]
    top = (case["c"] + 1.0) * g
    nf = n - 3
    fill = [sg * top * (S / top) ** ((t + 1.0) / (nf + 1.0)) for t, sg in zip(range(nf), case["fsigns"])]
    return sorted(pair + fill + [case["bsign"] * S]), pair


class PairLoss:
    """l = sum_i wl_i e_i + sum_i cw_i Re x_i^H W x_i (svd: s_i and Re u_i^H W v_i) with *different* weights for the two members of the
    near-degenerate pair: well defined because the two eigenvalues are different.  kind: full | v0 / v1 (the vector term of one member of
    the pair only) | vals (values only, vectors not in the graph) | rest (values + vector terms of the other pairs: the cotangent of the
    vectors of the near-degenerate pair is exactly zero)."""
    def __init__(self, g, k, wshape, dtype, pair, kind="full"):
        self.W = gen.randn(g, wshape, dtype)
        if wshape[0] == wshape[1]:
            self.W = R.herm(self.W)
        self.wl = torch.randn((k,), generator=g, dtype=torch.float64)
        # weights of the two members of the pair: |cw_i - cw_j| >= (cw_i + cw_j) / 15.  The backward solves with the eigenvalue shifted
        # by delta = 1e-14 max(|e|, 1), which changes both 1/(e_i - e_j) terms of the pair in the same direction: relative error
        # (cw_i + cw_j) / |cw_i - cw_j| * delta / gap of the gradient, which the tolerance 1e4 eps max(|e|, 1) / gap covers 10 times
        self.cw = torch.linspace(1.0, 2.0, k, dtype=torch.float64) * float(torch.rand((), generator=g, dtype=torch.float64) + 0.5)
        self.kind = kind
        mask = torch.ones((k,), dtype=torch.float64)
        if kind in ("v0", "v1"):
            mask = torch.zeros((k,), dtype=torch.float64)
            mask[pair[int(kind[1])]] = 1.0
        elif kind == "rest":
            mask[pair[0]] = 0.0
            mask[pair[1]] = 0.0
        self.cw = self.cw * mask

    def __call__(self, ev, X, Y=None):
        lv = (self.wl * ev).sum() if self.kind in ("full", "vals", "rest") else 0.0
        if self.kind == "vals":
            return lv
        Y = X if Y is None else Y
        return lv + (self.cw * torch.einsum("ai,ab,bi->i", X.conj(), self.W, Y).real).sum()


def dense_eigh(A, M):
    """differentiable dense reference (Cholesky-reduced torch.linalg.eigh): E (n,), X (n,n) with X^H M X = I"""
    if M is None:
        return torch.linalg.eigh(A)
    L = torch.linalg.cholesky(M)
    Y = torch.linalg.solve_triangular(L, A, upper=False)
    A2 = R.herm(torch.linalg.solve_triangular(L, R.ct(Y), upper=False))
    E, Yv = torch.linalg.eigh(A2)
    return E, torch.linalg.solve_triangular(R.ct(L), Yv, upper=True)


def run_degen_opts(case):
    """the documented degeneracy thresholds: eigenvalues i, j are treated as degenerate iff |e_i - e_j| < degen_atol + degen_rtol*|e|,
    None means the default (eps**0.6 / eps**0.4), 0.0 means "no special treatment".  A pair with a tiny but non-zero gap that the
    caller's thresholds do NOT cover must get the full perturbation-theory gradient (with its 1/gap terms) of a loss that
    distinguishes the two eigenvectors - in the first backward pass and in every later one through the same graph (further rows of
    a Jacobian with retain_graph=True, passes after a graph-recording pass, the double backward of a second-order gradient).
    Reference: the same losses on a dense differentiable decomposition (torch.linalg.eigh, Cholesky-reduced with M; torch.linalg.svd),
    first and second order by autograd (all eigenvalues are simple)."""
    from xitorch.linalg import symeig, svd
    import xitorch
    torch.manual_seed(0)
    g = gen.seeded(case["seed"])
    g2 = gen.seeded(case["seed"] ^ 0x2B5A17C3)
    wide = case.get("spec") == "wide"
    wide_lam, wide_pair = wide_spectrum(case) if wide else (None, None)
    n, neig = case["n"], case["neig"]
    gap = abs(wide_pair[1] - wide_pair[0]) if wide else float(case["gap"])
    prob, method, hasM = case.get("prob", "eig"), case.get("method", "custom_exacteig"), bool(case.get("M", False))
    order, rows = int(case.get("order", 1)), list(case.get("rows", []))
    late = bool(case.get("late")) and order == 2
    first_graph = order == 2 or bool(case.get("first_graph"))
    dtype = R.DT[case.get("dtype", "f64")]
    low = case["mode"] == "lowest"
    opts = (WIDE_OPTS if wide else DEGEN_OPTS)[case["opts"]]
    dense = method in DENSE_METHODS
    labels = [("task=dense_gap(wide)" if wide else "task=dense_gap") if dense else ("task=wide_spectrum" if wide else "task=degen_opts"), "opts=" + case["opts"], "mode=" + case["mode"], ("gap=1e%d" % round(math.log10(gap))) if wide else ("gap=%g" % gap), "neig=%s" % ("n" if neig == n else "<n"),
              "do_prob=%s" % prob, "do_method=%s" % method, "do_M=%s" % hasM, "do_dtype=%s" % case.get("dtype", "f64"), "do_order=%d" % order,
              "do_passes=%d%s" % (1 + len(rows), "(late)" if late and rows else ""), "do_first_backward=%s" % ("recording" if first_graph else "plain")]
    base = [1.0, 1.0 + gap] + [2.0 + 0.7 * k for k in range(n - 2)]
    kw = {"method": method, "bck_options": dict(opts)}
    if method == "davidson":
        # (absolute residual test: 1e-10 is below the rounding floor eps |A| of the residual for |A| = 1e6)
        kw["min_eps"] = 1e-10 * max(1.0, float(case["S"]) / 1e4) if wide else 1e-10
    kappa = 1.0
    if prob == "eig":
        lam = torch.tensor(wide_lam if wide else (base if low else [-x for x in reversed(base)]), dtype=torch.float64)
        Q = R.rand_unitary(g, [], n, dtype)
        A0 = R.herm((Q * lam.to(dtype)) @ R.ct(Q))
        M0 = None
        if hasM:
            kappa = float(case.get("mkappa", 2.0))
            mu = torch.exp(torch.linspace(-0.5, 0.5, n, dtype=torch.float64) * math.log(kappa))
            Qm = R.rand_unitary(g, [], n, dtype)
            S = R.herm((Qm * mu.sqrt().to(dtype)) @ R.ct(Qm))
            M0 = R.herm((Qm * mu.to(dtype)) @ R.ct(Qm))
            A0 = R.herm(S @ A0 @ S)                        # pencil (A0, M0) has exactly the eigenvalues lam
        leaves = []
        for T0 in [A0] + ([M0] if hasM else []):
            K = gen.randn(g, (n, n), dtype)
            leaves.append((T0 + 0.5 * (K - R.ct(K))).requires_grad_())       # unconstrained leaf: herm() below removes the anti-Hermitian part
        names = ["A-leaf"] + (["M-leaf"] if hasM else [])
        sel = list(range(neig)) if low else list(range(n - neig, n))
        pair = (0, 1) if low else (neig - 2, neig - 1)
        evals_sel = [float(lam[i]) for i in sel]
        wshape = (n, n)

        def xi_out(lv):
            Aop = xitorch.LinearOperator.m(R.herm(lv[0]), is_hermitian=True)
            Mop = xitorch.LinearOperator.m(R.herm(lv[1]), is_hermitian=True) if hasM else None
            return symeig(Aop, neig=neig, mode=case["mode"], M=Mop, **kw)

        def ref_out(lv):
            E, X = dense_eigh(R.herm(lv[0]), R.herm(lv[1]) if hasM else None)
            return E[sel], X[:, sel]
        scale = float(lam.abs().max()) * math.sqrt(kappa)
    else:
        mm, nn = case["shape"]
        r = min(mm, nn)                                     # == n
        sv = base if low else [4.2 - x for x in reversed(base)]          # ascending, > 0; the pair is the lowest / the uppermost two
        if wide:
            sv = [math.sqrt(x) for x in wide_lam]           # (all positive for svd) the thresholds apply to the eigenvalues s^2 of A^H A
        U0 = R.rand_unitary(g, [], mm, dtype)[:, :r]
        V0 = R.rand_unitary(g, [], nn, dtype)[:, :r]
        A0 = (U0 * torch.tensor(sv, dtype=torch.float64).to(dtype)) @ R.ct(V0)
        leaves = [A0.clone().requires_grad_()]
        names = ["A-leaf"]
        sel = list(range(neig)) if low else list(range(r - neig, r))
        pair = (0, 1) if low else (neig - 2, neig - 1)
        evals_sel = [sv[i] ** 2 for i in sel]               # symeig works on A^H A / A A^H: the thresholds apply to s^2
        wshape = (mm, nn)

        def xi_out(lv):
            U, S, Vh = svd(xitorch.LinearOperator.m(lv[0], is_hermitian=False), k=neig, mode=case["mode"], **kw)
            return S, U, R.ct(Vh)

        def ref_out(lv):
            U, S, Vh = torch.linalg.svd(lv[0], full_matrices=False)
            ps = torch.tensor([r - 1 - i for i in sel])       # torch orders descending
            return S[ps], U[:, ps], R.ct(Vh)[:, ps]
        scale = max(sv) ** 2
    # the thresholds must not cover any pair of selected eigenvalues (for svd neither as singular values nor as eigenvalues s^2)
    if wide:
        atol, rtol = degen_thresholds(opts)
        evals_all = [float(x) for x in lam] if prob == "eig" else [x ** 2 for x in sv]     # the spectrum of the eigenproblem solved
        emax = max(abs(x) for x in evals_sel)
        # every two retrieved eigenvalues differ by >= 4 x the threshold evaluated at the larger of the two (whichever member of a
        # pair "relative" refers to, the pair is not degenerate), although the small pair is closer than the threshold evaluated at
        # the largest retrieved eigenvalue
        if not all(abs(a - b) >= 4 * (atol + rtol * max(abs(a), abs(b))) for i, a in enumerate(evals_sel) for b in evals_sel[i + 1:]):
            return discard("gap_within_threshold", labels)
        gap_e = min(abs(evals_all[i] - b) for i in sel for j, b in enumerate(evals_all) if j != i)      # 1/gap terms of the gradient
        psel = sorted(sel.index(i) for i in (wide_lam.index(q) for q in wide_pair) if i in sel)     # positions of the small pair among the retrieved
        big_sel = emax >= 0.99 * float(case["S"])
        pair = tuple(psel) if len(psel) == 2 else (0, 1)
        covered = len(psel) == 2 and gap < atol + rtol * emax          # closer than the threshold at the largest retrieved eigenvalue
        labels = labels + ["w_S=%g" % case["S"], "w_selected=%s%s" % ({0: "no_pair", 1: "half_pair", 2: "pair"}[len(psel)], "+largest" if big_sel else ""),
                           "w_pair_below_threshold_at_largest=%s" % covered, "w_range=1e%d" % round(math.log10(emax / min(abs(x) for x in evals_sel)))]
    else:
        atol = opts.get("degen_atol", EPS ** 0.6)
        rtol = opts.get("degen_rtol", EPS ** 0.4)
        emax = max(abs(x) for x in evals_sel)
        gap_e = min(abs(a - b) for i, a in enumerate(evals_sel) for b in evals_sel[i + 1:])
        if not min(gap_e, gap) >= 4 * (atol + rtol * max(emax, 1.5)):
            return discard("gap_within_threshold", labels)
    loss = PairLoss(g, neig, wshape, dtype, pair)
    with warnings.catch_warnings(record=True) as wlist:
        warnings.simplefilter("always")
        try:
            outs = xt_call(xi_out, leaves, _where="forward")
        except XitorchRaised as e:
            if method == "davidson" and e.kind.startswith(DAVIDSON_BREAKDOWN):
                return discard("forward_davidson_cholesky_breakdown(C05_finding)", labels)
            raise
    if [w for w in wlist if "onverge" in type(w.message).__name__]:
        return discard("forward_convergence_warning", labels)
    lx = loss(*outs)
    got = xt_call(torch.autograd.grad, lx, leaves, create_graph=first_graph, retain_graph=True, allow_unused=True, _where="backward")
    routs = ref_out(leaves)
    # the 1/gap terms amplify the mixing error of the two eigenvectors (LAPACK: eps |A| / gap; the backward's shift of the eigenvalue by
    # 1e-14 max(|e|, 1): 1e-14 max(|e|,1) / gap): relative accuracy 1e4 eps scale / gap, measured ~ 5e2 eps / gap
    rel1 = 1e-6 + 1e4 * EPS * max(scale, 1.0) * kappa / gap_e
    # absolute part: two backward-stable decompositions (LAPACK eigh of A, of L^-1 A L^-H, of A^H A, svd of A) differ by a rotation inside the
    # close pair by an angle theta <= c eps |A| cond(M) / gap (Davis-Kahan), which changes the coupling coefficient (cw_i - cw_j) x_j^H W x_i of
    # the 1/gap term by <= 2 theta |cw| |W| WHATEVER the size of the coefficient itself: when the coefficient happens to be small (|ref| << |cw| |W|
    # / gap) the error is not relative to |ref|.  Bound: 30 eps |A| cond(M)^2 max|cw| |W| / gap^2 with max|cw| <= 3, |W| <= 2 sqrt(rows cols)
    # (measured: c ~ 0.6 with the actual |W|, |cw_i - cw_j|); for the generated gaps it is 1e-4 .. 1e-2 of the typical |ref| ~ |cw| |W| / gap
    floor1 = 30 * EPS * max(scale, 1.0) * kappa ** 2 * 3.0 * 2.0 * math.sqrt(wshape[0] * wshape[1]) / gap_e ** 2
    info = " [bck_options=%r, %s, method %s, M %s, eigenvalue gap %g is not covered by the thresholds]" % (opts, prob, method, hasM, gap_e)
    if wide:
        info = (" [bck_options=%r, %s, method %s, M %s; retrieved eigenvalues %s: all simple, every two differ by >= 4 (degen_atol + degen_rtol max(|e_i|, |e_j|)); "
                "smallest gap %g, largest |e| %g]" % (opts, prob, method, hasM, ", ".join("%.4g" % x for x in evals_sel), gap_e, emax))

    if wide and method == "davidson":
        # the tolerance assumes eigenvectors accurate to rounding (eps |A| / gap: the search space has reached the full space, n <= 6).
        # A run that stopped earlier on its residual test (vectors accurate to min_eps / gap only) is not judged: forward accuracy is C05's
        Md = R.herm(leaves[1]).detach() if (prob == "eig" and hasM) else None
        for Xx, Xr in zip(outs[1:], routs[1:]):
            Xx, Xr = Xx.detach(), Xr.detach()
            MXx = Xx if Md is None else Md @ Xx
            sin = torch.linalg.vector_norm(Xx - Xr * (Xr.conj() * MXx).sum(0), dim=0)
            if not float(sin.max()) <= 1e3 * EPS * max(scale, 1.0) * kappa / gap_e:
                return discard("forward_davidson_not_converged_to_rounding", labels)

    def ref_fn(lobj, create_graph=False):
        gs = torch.autograd.grad(lobj(*routs), leaves, retain_graph=True, create_graph=create_graph, allow_unused=True)
        return [torch.zeros_like(x) if q is None else q for q, x in zip(gs, leaves)]
    ref = ref_fn(loss, create_graph=(order == 2))
    sc = max(maxabs(q) for q in ref)
    bad, worst = compare(got, ref, names, rel1, "degen_threshold", labels, info + " - a later violation kind than grad1: the pair was treated as degenerate", floor=floor1)
    if bad is not None:
        return bad
    labels = labels + [margin_label("do_err1/tol", worst)]

    def mkloss(kind):
        return PairLoss(g2, neig, wshape, dtype, pair, kind=kind)

    def first_again():
        return xt_call(torch.autograd.grad, lx, leaves, create_graph=first_graph, retain_graph=True, allow_unused=True, _where="backward_again")
    if rows and not late:
        bad, labels = repeated_backward(rows, first_again, got, outs, leaves, names, mkloss, ref_fn, rel1, labels, info, floor=floor1)
        if bad is not None:
            return bad
    if order == 1:
        return ok(labels, nontrivial=sc > 0 and (not wide or covered))
    C = [gen.randn(g, x.shape, x.dtype) for x in leaves]

    def contract(gs):
        return sum((c.conj() * q).sum().real for c, q in zip(C, gs) if q is not None)
    L1 = contract(got)
    if not (isinstance(L1, torch.Tensor) and L1.requires_grad):
        return violation("no_second_graph", "create_graph=True produced first-order gradients without a graph", labels)
    got2 = xt_call(torch.autograd.grad, L1, leaves, allow_unused=True, retain_graph=late, _where="backward2")
    if late:
        def second_again():
            return xt_call(torch.autograd.grad, L1, leaves, allow_unused=True, retain_graph=True, _where="backward2_again")
        bad, labels = repeated_backward(rows, second_again, got2, outs, leaves, names, mkloss, ref_fn, rel1, labels, info, what="grad2", floor=floor1)
        if bad is not None:
            return bad
    ref2 = torch.autograd.grad(contract(ref), leaves, allow_unused=True)
    ref2 = [torch.zeros_like(x) if q is None else q for q, x in zip(ref2, leaves)]
    cnorm = math.sqrt(sum(float((c.abs() ** 2).sum()) for c in C))
    # (second order: the derivative of the 1/gap term along C is ~ |C| / gap times larger, and so is the effect of the rotation)
    bad, worst = compare(got2, ref2, names, 10 * rel1, "degen_threshold_grad2", labels, info, floor=10 * floor1 * cnorm / gap_e)
    if bad is not None:
        return bad
    return ok(labels + [margin_label("do_err2/tol", worst)], nontrivial=sc > 0 and (not wide or covered))


@st.composite
def degen_opts_st(draw, tier="quick", dense=False):
    """dense=True (task dense_gap): the dense methods - "exacteig" by name or the default (method None) - whose backward
    (degen_symeig) differentiates the full decomposition and has its own, fixed degeneracy mask"""
    n = draw(st.integers(3, 5))
    prob = draw(st.sampled_from(["eig", "eig", "svd"]))
    method = draw(st.sampled_from(DENSE_METHODS if dense else ["custom_exacteig", "custom_exacteig", "davidson"]))
    order = draw(st.sampled_from([1, 1, 2]))
    rows = [draw(st.sampled_from(PAIR_ROW_KINDS)) for _ in range(draw(st.sampled_from([0, 1, 1, 2, 2, 3])))]
    case = {"n": n, "neig": draw(st.sampled_from([2, n])), "mode": draw(st.sampled_from(["lowest", "uppest"])),
            "gap": draw(st.sampled_from([2e-8, 1e-7, 3e-7])), "opts": draw(st.sampled_from(["zero", "zero", "rzero", "azero_rtiny", "tiny"])),
            "prob": prob, "method": method, "order": order, "rows": rows, "late": bool(rows) and order == 2 and draw(st.booleans()),
            "first_graph": order == 1 and draw(st.sampled_from([True, False, False])),
            "dtype": "f64" if method == "davidson" else draw(st.sampled_from(["f64", "f64", "c128"])),
            "seed": draw(st.integers(0, 2 ** 31 - 1))}
    if prob == "eig":
        case["M"] = draw(st.booleans())
        case["mkappa"] = draw(st.sampled_from([2.0, 4.0]))
    else:
        case["shape"] = draw(st.sampled_from([[n, n], [n, n + 1], [n + 2, n]]))
    return case


@st.composite
def wide_spectrum_st(draw, tier="quick", dense=False):
    """spectra spanning 2..8 orders of magnitude with default and caller-supplied thresholds (see wide_spectrum)"""
    n = draw(st.integers(3, 6))
    prob = draw(st.sampled_from(["eig", "eig", "eig", "svd"]))
    method = draw(st.sampled_from(DENSE_METHODS if dense else ["custom_exacteig", "custom_exacteig", "davidson"]))
    order = draw(st.sampled_from([1, 1, 1, 2]))
    rows = [draw(st.sampled_from(PAIR_ROW_KINDS)) for _ in range(draw(st.sampled_from([0, 0, 1, 2])))]
    pos = prob == "svd" or draw(st.sampled_from([True, False, False]))          # svd: eigenvalues s^2 > 0
    case = {"spec": "wide", "n": n, "neig": draw(st.sampled_from(sorted({n, n, max(2, n - 1), min(3, n)}))),
            "mode": draw(st.sampled_from(["lowest", "uppest", "uppermost"])),
            "S": draw(st.sampled_from([1e2, 1e4, 1e4, 1e6])), "f": draw(st.sampled_from([0.02, 0.1, 0.5])), "c": draw(st.sampled_from([0.5, 2.0, 10.0])),
            "psign": 1 if pos else draw(st.sampled_from([1, -1])), "bsign": 1 if pos else draw(st.sampled_from([1, -1])),
            "fsigns": [1 if pos else draw(st.sampled_from([1, -1])) for _ in range(n - 3)],
            "opts": draw(st.sampled_from(sorted(WIDE_OPTS))),
            "prob": prob, "method": method, "order": order, "rows": rows, "late": bool(rows) and order == 2 and draw(st.booleans()),
            "first_graph": order == 1 and draw(st.sampled_from([True, False, False])),
            "dtype": "f64" if method == "davidson" else draw(st.sampled_from(["f64", "f64", "c128"])),
            "seed": draw(st.integers(0, 2 ** 31 - 1))}
    if prob == "eig":
        case["M"] = draw(st.booleans())
        case["mkappa"] = draw(st.sampled_from([2.0, 4.0]))
    else:
        case["shape"] = draw(st.sampled_from([[n, n], [n, n + 1], [n + 2, n]]))
    return case


def tasks(tier):
    known = _known_sites()
    return [
        Task("eig", strategy=eig_case_st(tier, known=known), run=run_eig, examples={"quick": 4800, "thorough": 130000}),
        Task("svd", strategy=svd_case_st(tier, known=known), run=run_svd, examples={"quick": 2400, "thorough": 65000}),
        Task("degen_opts", strategy=degen_opts_st(tier), run=run_degen_opts, examples={"quick": 480, "thorough": 6000}),
        Task("wide_spectrum", strategy=wide_spectrum_st(tier), run=run_degen_opts, examples={"quick": 640, "thorough": 8000}),
        Task("dense_gap", strategy=st.one_of(degen_opts_st(tier, dense=True), degen_opts_st(tier, dense=True), wide_spectrum_st(tier, dense=True)),
             run=run_degen_opts, examples={"quick": 480, "thorough": 6000}),
    ]
