"""C06 — gradients of eigenpairs and singular triplets are exact, including exact degeneracy.

Task eig: symeig(A[, M]) with the operators built from *unconstrained dense leaf tensors* P (A = herm(P), all entries
free and with a non-zero anti-Hermitian part, so the degeneracy-breaking directions of the gradient are observed); loss

    l = sum_b beta_b [ sum_i (w_i e_i + q_i e_i^2/2) + a_b + a_b c_b / 2 + 0.3 a_b sum_i w_i e_i ],
    a_b = sum_i u_i Re x_i^H W1 x_i,   c_b = sum_i v_i Re x_i^H W2 x_i            (W1, W2 Hermitian)

with the weights w, q, u, v constant inside every group of exactly repeated eigenvalues: l then depends on the selected
eigenvectors only through the projectors of the groups and on the eigenvalues of a group only through symmetric
polynomials, i.e. it does not depend on the basis chosen inside a degenerate subspace, nor on phases/signs, and its
partial derivatives w.r.t. the eigenvalues are equal inside a group (both are needed for the gradient to exist).

Oracle, first order (all cases): closed-form perturbation theory on an independent dense eigendecomposition
(scipy.linalg.eigh of the dense A, M of every broadcast batch element), pbt/ref_c05.eig_pullback:
    d e_i = x_i^H (dA - e_i dM) x_i,
    d x_i = sum_{j not in group(i)} x_j x_j^H (dA - e_i dM) x_i / (e_i - e_j) - 1/2 sum_{j in group(i)} x_j x_j^H dM x_i,
pulled back to the leaves by autograd through the (plain torch) construction of the dense matrices.  It needs only the
gaps *between* groups, so it is valid at exact degeneracy.  It was cross-validated against central finite differences of the
loss on scipy's eigenpairs (degenerate and non-degenerate cases) and is compared on every run whose spectrum is entirely simple
with autograd through torch.linalg.eigh (self check; a disagreement is reported as discard `reference_self_check_failed`).
Second order: entirely simple spectrum -> autograd twice through a Cholesky-reduced torch.linalg.eigh of the same dense
matrices (contraction with random cotangents C); otherwise (torch's own double backward is wrong as soon as any two eigenvalues
coincide) -> 4th-order central finite difference (h = min(1e-3, gap lmin / (160 (1 + spread))), i.e. 2h = 1/20 of the distance at which a gap
could close) of <C, closed-form gradient> along a random unit direction D of leaf
space against <D, xitorch's double backward of <C, g>>.

Tolerance: tol = 1e3 n eps cond(M) max(spread/gap, 1)^2 relative to (1 + |reference|_max), where gap is the smallest distance
between a selected eigenvalue and any different eigenvalue and spread = ||A||/lambda_min(M); davidson (min_eps 1e-10,
returns by residual test or full space) adds 1e3 sqrt(n) min_eps spread / gap^2.  Second order: 10 tol (autograd reference), or
1e3 tol + 10 (tol/1e3)/h + 3e-6 (finite-difference reference: truncation <= ~3e-7, rounding of the closed form divided by h).  The evidence labels err*/tol record the
decade of the observed error/tolerance ratio (typically 1e-3 .. 1e-9).

Task svd: svd(A) for A built from dense leaves (rectangular, real/complex, operator kinds incl. matrix-free, adjoint, product), loss
sum_i (w_i s_i + q_i s_i^2/2) + a + a c/2 + ..., a = sum_i h_i Re u_i^H W1 v_i, weights constant inside groups of repeated singular
values.  Reference: the same closed form applied to the Jordan-Wielandt matrix [[0, A], [A^H, 0]] (eigenpairs (s_i, [u_i; v_i]/sqrt 2));
second order by autograd through torch.linalg.svd (all singular values simple) or the finite-difference scheme above.

Recorded findings (SITES; generated only when known_findings.json lists the site, otherwise avoided by construction):
  second_order_at_degeneracy             second-order gradients are wrong by O(1) when a repeated eigenvalue lies in the selected set
                                         (custom_exacteig, davidson) or anywhere in the spectrum (exacteig / default, which differentiates
                                         the full decomposition): the first-order formulas drop the within-group block terms, whose
                                         derivatives do not vanish.  First order is exact there.
  svd_vectors_at_repeated_singular_values   svd forms the second factor as A v_i / s_i outside symeig, so the eigenvalue cotangents differ
                                         inside a group and first-order gradients of vector-dependent losses are wrong by O(1).
"""
from __future__ import annotations

import math
import warnings

import numpy as np
import torch
from hypothesis import strategies as st

from pbt import gen
from pbt import ref_c05 as R
from pbt.harness import Task, ok, violation, discard, xt_call, XitorchRaised

PID = "C06"
RULE = ("eig: pencils with prescribed spectra, gaps >= 0.3 between the selected set and the rest and between groups, inside the selected set "
        "separated or exactly repeated pairs/triples; leaves = full unconstrained dense matrices P (A = herm(P), M = herm(Pm)) held by dense, "
        "matrix-free (mv / mv+mm / full), sum, difference and scaled operators; methods exacteig / custom_exacteig / davidson(min_eps 1e-10); "
        "neig < n and = n, lowest / uppermost, M absent / present (cond <= 10), batch patterns of A and M, f64 / c128; bck_options "
        "exactsolve or default; 1 in 6 with exactly diagonal A and M; loss basis-independent by construction (see module docstring); order 1 and 2. "
        "svd: m,n <= 6, tall/wide/square, operator kinds dense / matrix-free / adjoint / product / sum, singular values 0.6.. with gaps 0.3/0.5 "
        "and exact repeats. "
        "Non-trivial = the reference gradient is non-zero and (neig < n or M given or a degenerate group is selected or order 2); "
        "distinct by canonical case.")
ASSUMPTIONS = [
    "reference eigendecomposition: scipy.linalg.eigh (LAPACK) of the dense matrices built from the same leaves; closed-form first-order "
    "perturbation theory (ref_c05.eig_pullback) cross-validated against finite differences and, on every non-degenerate case, against "
    "autograd through torch.linalg.eigh",
    "tolerance 1e3 n eps cond(M) max(spread/gap,1)^2 (+ davidson: 1e3 sqrt(n) min_eps spread/gap^2) relative to 1 + max|reference|; second order x10 "
    "(autograd reference, entirely simple spectra) or x1000 + rounding/h + 3e-6 (4th-order finite difference of the closed-form gradient, step scaled to the gap)",
    "second order at exact degeneracy and svd vector-dependent losses at repeated singular values are recorded findings (see SITES): avoided by "
    "construction unless listed in known_findings.json",
    "a degenerate group never straddles the cut between selected and unselected eigenvalues (the selected subspace would be undefined)",
    "near-degenerate (gap 1e-3) spectra are not generated: the gradient is then legitimately of order 1/gap^2 and degen_rtol decides the branch",
    "backward linear solver: exactsolve (explicitly or as solve's default for dense / n <= 5 operators); Krylov backward solvers on the singular "
    "shifted system are not part of this check",
    "davidson: real dtype; with exact repeats multiplicities <= neig and neig divides n (rank-deficient expansion blocks are a recorded C05 finding)",
]
LEVEL_TEXT = ("Exploration against a closed-form perturbation-theory gradient evaluated on an independent LAPACK eigendecomposition, with the full "
              "dense matrix as leaf so that degeneracy-breaking directions are observable; second order against autograd-through-eigh or "
              "finite differences of the closed form.")
LEVEL_NOTE = "trusts scipy.linalg.eigh, torch autograd on plain-torch expressions, and the perturbation formulas stated in the module docstring"
TECHNIQUE = "Hypothesis property-based testing: analytic-gradient oracle (perturbation theory) + differentiable reference model + finite differences"
WALL = {"quick": 400, "thorough": 2400}

EPS = R.EPS
FD_H = 1e-3
DAVIDSON_BREAKDOWN = "exception:_LinAlgError@xitorch/_utils/tensor.py:tallqr"     # forward failure recorded under C05


# ------------------------------------------------------------------------------------------------ loss

def group_ids(vals_sel):
    """group ids of the selected prescribed eigenvalues (equal float <=> same group)"""
    ids, cur = [], 0
    for i, v in enumerate(vals_sel):
        if i > 0 and v != vals_sel[i - 1]:
            cur += 1
        ids.append(cur)
    return ids


def group_weights(g, gid, lo=-1.0, hi=1.0):
    ng = max(gid) + 1
    w = torch.rand((ng,), generator=g, dtype=torch.float64) * (hi - lo) + lo
    return w[torch.tensor(gid)]


class EigLoss:
    """l(E, X) for E (*batch,k), X (*batch,n,k); basis independent inside groups"""
    def __init__(self, g, gid, n, batch, dtype, use_vec=True):
        self.w = group_weights(g, gid)
        self.q = group_weights(g, gid)
        self.u = group_weights(g, gid)
        self.v = group_weights(g, gid)
        self.W1 = R.herm(gen.randn(g, (n, n), dtype))
        self.W2 = R.herm(gen.randn(g, (n, n), dtype))
        self.beta = torch.rand(tuple(batch), generator=g, dtype=torch.float64) + 0.5
        self.use_vec = use_vec

    def __call__(self, E, X):
        le = (self.w * E + 0.5 * self.q * E * E).sum(-1)
        if not self.use_vec:
            return (self.beta * le).sum()
        q1 = torch.einsum("...ai,ab,...bi->...i", X.conj(), self.W1, X).real
        q2 = torch.einsum("...ai,ab,...bi->...i", X.conj(), self.W2, X).real
        a = (self.u * q1).sum(-1)
        c = (self.v * q2).sum(-1)
        return (self.beta * (le + a + 0.5 * a * c + 0.3 * a * (self.w * E).sum(-1))).sum()


# ------------------------------------------------------------------------------------------------ references

def closed_form_grads(loss, Ad, Md, batch, sel_idx, same, leaves_fn, leaves, wrt):
    """first-order reference.  Ad, Md: dense matrices (detached) built from `leaves`; returns list of gradients w.r.t. `wrt`."""
    n = Ad.shape[-1]
    vals, vecs = R.ref_eigh(Ad, Md, batch)                       # (*batch,n), (*batch,n,n)
    sel = torch.tensor(sel_idx)
    Es = vals[..., sel].clone().requires_grad_()
    Xs = vecs[..., :, sel].clone().requires_grad_()
    l = loss(Es, Xs)
    gE, gX = torch.autograd.grad(l, [Es, Xs], allow_unused=True)
    gE = torch.zeros_like(Es) if gE is None else gE
    gX = torch.zeros_like(Xs) if gX is None else gX
    Abar = torch.zeros((*batch, n, n), dtype=Ad.dtype)
    Mbar = torch.zeros((*batch, n, n), dtype=Ad.dtype)
    for idx in np.ndindex(*batch) if batch else [()]:
        a, m = R.eig_pullback(vals[idx], vecs[idx], sel, same, gE[idx], gX[idx])
        Abar[idx] = a
        Mbar[idx] = m
    # pull back to the leaves through the dense construction
    Adense, Mdense = leaves_fn(leaves)
    pair = (Abar.conj() * Adense.expand(*batch, n, n)).sum().real
    if Mdense is not None:
        pair = pair + (Mbar.conj() * Mdense.expand(*batch, n, n)).sum().real
    gs = torch.autograd.grad(pair, wrt, allow_unused=True)
    return [torch.zeros_like(x) if g_ is None else g_ for g_, x in zip(gs, wrt)], float(l)


def eigh_autograd_loss(loss, leaves_fn, leaves, batch, sel_idx):
    """the same loss on a differentiable Cholesky-reduced torch.linalg.eigh (valid when the selected eigenvalues are simple)"""
    Ad, Md = leaves_fn(leaves)
    n = Ad.shape[-1]
    Ab = Ad.expand(*batch, n, n)
    if Md is not None:
        L = torch.linalg.cholesky(Md.expand(*batch, n, n))
        Y = torch.linalg.solve_triangular(L, Ab, upper=False)                       # L^-1 A
        A2 = torch.linalg.solve_triangular(L, R.ct(Y), upper=False)                  # L^-1 (L^-1 A)^H = L^-1 A L^-H
        A2 = R.herm(A2)
        E, Yv = torch.linalg.eigh(A2)
        X = torch.linalg.solve_triangular(R.ct(L), Yv, upper=True)
    else:
        E, X = torch.linalg.eigh(Ab)
    sel = torch.tensor(sel_idx)
    return loss(E[..., sel], X[..., :, sel])


def maxabs(t):
    return float(t.detach().abs().max()) if t.numel() else 0.0


def compare(got, ref, wrt_names, tol, what, labels, extra=""):
    """returns (violation or None, worst err/(tol*scale))"""
    worst = 0.0
    for gk, rk, nm in zip(got, ref, wrt_names):
        if gk is None:
            gk = torch.zeros_like(rk)
        if not bool(torch.isfinite(gk.detach().abs()).all()):
            return violation(what + "_nonfinite", "%s gradient w.r.t. %s is not finite%s" % (what, nm, extra), labels), float("inf")
        err = maxabs(gk - rk)
        sc = 1.0 + maxabs(rk)
        worst = max(worst, err / (tol * sc))
        if not err <= tol * sc:
            i = int((gk.detach() - rk.detach()).abs().reshape(-1).argmax())
            return violation(what, "%s gradient w.r.t. %s: max err %.3e > %.3e (|ref|max %.3e); at flat index %d got %s ref %s%s" % (
                what, nm, err, tol * sc, sc - 1.0, i, complex(gk.detach().reshape(-1)[i]) if gk.is_complex() else float(gk.detach().reshape(-1)[i]),
                complex(rk.detach().reshape(-1)[i]) if rk.is_complex() else float(rk.detach().reshape(-1)[i]), extra), labels), worst
    return None, worst


def margin_label(name, ratio):
    """decade of err/tol (evidence of how far typical errors stay below the tolerance)"""
    if ratio <= 0:
        return "%s=exact" % name
    return "%s=1e%+d" % (name, int(math.ceil(math.log10(ratio))))


# ------------------------------------------------------------------------------------------------ eig task

def prepare_eig(case):
    """everything run_eig needs, as a namespace (also used by the finite-difference cross-validation during development)"""
    import xitorch.linalg as xl
    torch.manual_seed(case["seed"] & 0x7FFFFFFF)
    g = gen.seeded(case["seed"])
    dtype = R.DT[case["dtype"]]
    lam = case["lam"]
    n = len(lam)
    hasM = case["batchM"] is not None
    k = n if case["neig"] is None else case["neig"]
    low = case["mode"] == "lowest"
    sel_idx = list(range(k)) if low else list(range(n - k, n))
    gid = group_ids([lam[i] for i in sel_idx])
    degenerate = len(set(gid)) < k
    method = case["method"]
    order = case["order"]
    labels = ["method=%s" % method, "mode=%s" % case["mode"], "M=%s" % (case["mop"] if hasM else "none"), "aop=%s" % case["aop"],
              "dtype=%s" % case["dtype"], "degenerate=%s" % degenerate, "structure=%s" % case.get("structure", "generic"), "neig=%s" % ("full" if k == n else "partial"),
              "order=%d" % order, "bck=%s" % case["bck"], "batch=%dx%d" % (len(case["batchA"]), -1 if not hasM else len(case["batchM"])),
              "wrt=%s" % case["wrt"], "loss=%s" % ("values" if not case["use_vec"] else "values+vectors"),
              "maxgroup=%d" % max(gid.count(x) for x in set(gid))]
    # a group must not straddle the cut
    if k < n:
        inside, outside = (lam[k - 1], lam[k]) if low else (lam[n - k], lam[n - k - 1])
        if inside == outside:
            return discard("group_straddles_cut", labels)
    p = R.build_pencil(g, lam, dtype, case["batchA"], case["batchM"], case["mkappa"], avals=[1.0, 2.0], bvals=[0.0, -1.0, 1.0], mvals=[1.0, 0.5],
                       structure=case.get("structure", "generic"))
    batch = p.batch
    # leaves: unconstrained dense matrices (an anti-Hermitian part is added: herm() inside the operators removes it)
    Aleaves = R.split_leaves(case["aop"], p.A, g)
    K = gen.randn(g, Aleaves[0].shape, dtype) * 0.2
    Aleaves[0] = Aleaves[0] + (K - R.ct(K))
    Mleaves = R.split_leaves(case["mop"], p.M, g) if hasM else []
    if hasM:
        K = gen.randn(g, Mleaves[0].shape, dtype) * 0.2
        Mleaves[0] = Mleaves[0] + (K - R.ct(K))
    wantA = case["wrt"] in ("A", "AM") or not hasM
    wantM = hasM and case["wrt"] in ("M", "AM")
    Aleaves = [t.clone().requires_grad_(wantA) for t in Aleaves]
    Mleaves = [t.clone().requires_grad_(wantM) for t in Mleaves]
    nA = len(Aleaves)
    wrt = [t for t in Aleaves + Mleaves if t.requires_grad]
    names = ["A-leaf%d" % i for i, t in enumerate(Aleaves) if t.requires_grad] + ["M-leaf%d" % i for i, t in enumerate(Mleaves) if t.requires_grad]

    def leaves_fn(leaves):
        Ad = R.dense_of(case["aop"], leaves[:nA], True)
        Md = R.dense_of(case["mop"], leaves[nA:], True) if hasM else None
        return Ad, Md

    loss = EigLoss(g, gid, n, batch, dtype, use_vec=case["use_vec"])
    same = R.groups_of(gid)
    bck = {"method": "exactsolve"} if case["bck"] == "exactsolve" else {}
    kwargs = {"bck_options": bck}
    if method != "default":
        kwargs["method"] = method
    if method == "davidson":
        kwargs["min_eps"] = 1e-10

    def xi_loss(leaves):
        Aop = R.make_operator(case["aop"], leaves[:nA], True)
        Mop = R.make_operator(case["mop"], leaves[nA:], True) if hasM else None
        E, X = xl.symeig(Aop, case["neig"], case["mode"], Mop, **kwargs)
        return loss(E, X)

    ns = type("EigSetup", (), {})()
    ns.__dict__.update(dict(n=n, k=k, lam=lam, hasM=hasM, sel_idx=sel_idx, gid=gid, degenerate=degenerate, method=method, order=order,
                            labels=labels, p=p, batch=batch, Aleaves=Aleaves, Mleaves=Mleaves, wrt=wrt, names=names, leaves_fn=leaves_fn,
                            loss=loss, same=same, xi_loss=xi_loss, g=g))
    return ns


def ref_loss_value(ns, leaves):
    """the loss evaluated on scipy's eigenpairs of the dense matrices built from `leaves` (plain number; for finite differences)"""
    Ad, Md = ns.leaves_fn([t.detach() for t in leaves])
    vals, vecs = R.ref_eigh(Ad, Md, ns.batch)
    sel = torch.tensor(ns.sel_idx)
    return float(ns.loss(vals[..., sel], vecs[..., :, sel]))


def run_eig(case):
    ns = prepare_eig(case)
    if not hasattr(ns, "xi_loss"):
        return ns                       # a discard verdict
    n, k, lam, hasM, sel_idx, degenerate, method, order = ns.n, ns.k, ns.lam, ns.hasM, ns.sel_idx, ns.degenerate, ns.method, ns.order
    labels, p, batch, Aleaves, Mleaves, wrt, names, leaves_fn = ns.labels, ns.p, ns.batch, ns.Aleaves, ns.Mleaves, ns.wrt, ns.names, ns.leaves_fn
    loss, same, xi_loss, g = ns.loss, ns.same, ns.xi_loss, ns.g
    with warnings.catch_warnings(record=True) as wlist:
        warnings.simplefilter("always")
        try:
            lx = xt_call(xi_loss, Aleaves + Mleaves, _where="forward")
        except XitorchRaised as e:
            if method == "davidson" and e.kind.startswith(DAVIDSON_BREAKDOWN):
                return discard("forward_davidson_cholesky_breakdown(C05_finding)", labels)
            raise
        warned = [w for w in wlist if "onverge" in type(w.message).__name__]
        if warned:
            return discard("forward_convergence_warning", labels)
        if not lx.requires_grad:
            return violation("no_graph", "loss of symeig outputs does not require grad although %d leaves do" % len(wrt), labels)
        got = xt_call(torch.autograd.grad, lx, wrt, create_graph=(order == 2), retain_graph=True, allow_unused=True, _where="backward")
        # the pull-back is linear in the cotangent: the same loss in other units (x 1e-9, x 1e6) must give the same gradient in those
        # units (a backward that compares cotangents with absolute thresholds is not)
        sc_units = float(case.get("units", 1.0))
        if sc_units != 1.0:
            got_u = xt_call(torch.autograd.grad, lx * sc_units, wrt, retain_graph=True, allow_unused=True, _where="backward")
            # rounding floor: gradients that are zero up to rounding (1e-16 of the loss scale) need not scale
            # (the loss is built from O(1) eigenvalues and O(1) weights: its natural scale is 1)
            floor = 1e-10 * abs(sc_units)
            for gk, gu, nm in zip(got, got_u, ns.names):
                a = torch.zeros(()) if gk is None else gk.detach() * sc_units
                b = torch.zeros(()) if gu is None else gu.detach()
                if (gk is None) != (gu is None) or maxabs(a - b) > 1e-6 * maxabs(a) + floor:
                    return violation("grad_not_linear_in_cotangent", "gradient w.r.t. %s of the loss times %g is not %g times the gradient of the loss: max |diff| %.3e, "
                                     "|expected| %.3e" % (nm, sc_units, sc_units, maxabs(a - b), maxabs(a)), labels + ["units=%g" % sc_units])
            labels = labels + ["units=%g" % sc_units]
    # ---------------------------------------------------------------- tolerances
    gap_lam = min([abs(lam[i] - lam[j]) for i in sel_idx for j in range(n) if lam[i] != lam[j]] or [1.0])
    gap = gap_lam * p.gapscale
    a_norm = max(float(torch.linalg.matrix_norm(p.A, 2).max()), R.leaves_scale(case["aop"], [t.detach() for t in Aleaves]))
    spread = max(a_norm / p.m_lmin, 1.0)
    tol = 1e3 * n * EPS * p.m_kappa * max(spread / gap, 1.0) ** 2
    if method == "davidson":
        tol += 1e3 * math.sqrt(n) * 1e-10 * spread / gap ** 2
    # ---------------------------------------------------------------- first order
    Ad, Md = leaves_fn([t.detach() for t in Aleaves + Mleaves])
    ref, lref = closed_form_grads(loss, Ad, Md, batch, sel_idx, same, leaves_fn, Aleaves + Mleaves, wrt)
    if not abs(float(lx) - lref) <= tol * (1 + abs(lref)):
        return violation("loss_value", "loss on xitorch's eigenpairs %.12g vs on the reference eigenpairs %.12g (tol %.2e): the loss is basis "
                         "independent, so the returned pairs are wrong" % (float(lx), lref, tol), labels)
    info = " [n=%d k=%d gap=%.3g spread=%.3g degenerate=%s]" % (n, k, gap, spread, degenerate)
    bad, worst = compare(got, ref, names, tol, "grad1", labels, info)
    if bad is not None:
        return bad
    labels = labels + [margin_label("err1/tol", worst)]
    refnz = any(maxabs(r) > 0 for r in ref)
    nontriv = refnz and (k < n or hasM or degenerate or order == 2)
    simple_all = len(set(lam)) == n
    if simple_all:
        # self check of the oracle: closed form vs autograd through torch.linalg.eigh (whose backward needs *all* eigenvalues simple)
        lt = eigh_autograd_loss(loss, leaves_fn, Aleaves + Mleaves, batch, sel_idx)
        ref_t = torch.autograd.grad(lt, wrt, create_graph=(order == 2), allow_unused=True)
        ref_t = [torch.zeros_like(x) if r is None else r for r, x in zip(ref_t, wrt)]
        for r1, r2 in zip(ref, ref_t):
            if not maxabs(r1 - r2) <= tol * (1 + maxabs(r1)):
                return discard("reference_self_check_failed", labels)
    if order == 1:
        return ok(labels, nontrivial=nontriv)
    # ---------------------------------------------------------------- second order
    C = [gen.randn(g, x.shape, x.dtype) for x in wrt]

    def contract(gs):
        tot = 0.0
        for c, gk in zip(C, gs):
            if gk is not None:
                tot = tot + (c.conj() * gk).sum().real
        return tot
    L1 = contract(got)
    if not (isinstance(L1, torch.Tensor) and L1.requires_grad):
        return violation("no_second_graph", "create_graph=True produced first-order gradients without a graph", labels)
    with warnings.catch_warnings():
        warnings.simplefilter("ignore")
        got2 = xt_call(torch.autograd.grad, L1, wrt, allow_unused=True, _where="backward2")
    if simple_all:
        # (torch.linalg.eigh's own double backward is wrong when *any* two eigenvalues coincide, also unselected ones)
        ref2 = torch.autograd.grad(contract(ref_t), wrt, allow_unused=True)
        ref2 = [torch.zeros_like(x) if r is None else r for r, x in zip(ref2, wrt)]
        bad, worst = compare(got2, ref2, names, 10 * tol, "grad2", labels, info)
        if bad is not None:
            return bad
        return ok(labels + ["ref2=autograd", margin_label("err2/tol", worst)], nontrivial=nontriv)
    # degenerate: directional finite difference of the closed-form gradient  d/dt <C, g(theta + t D)> = <D, H C>
    D = [gen.randn(g, x.shape, x.dtype) for x in wrt]
    D = [d / max(1.0, float(torch.linalg.vector_norm(d))) for d in D]

    def cf_at(t):
        moved, j = [], 0
        for x in Aleaves + Mleaves:
            if x.requires_grad:
                moved.append((x.detach() + t * D[j]).requires_grad_())
                j += 1
            else:
                moved.append(x.detach())
        w2 = [x for x in moved if x.requires_grad]
        Ad2, Md2 = leaves_fn([x.detach() for x in moved])
        r, _ = closed_form_grads(loss, Ad2, Md2, batch, sel_idx, same, leaves_fn, moved, w2)
        return float(contract(r))
    # step: a leaf perturbation t D (|D| <= 1 per leaf) moves the dense A, M by <= 2t and a pencil eigenvalue by <= 2t (1 + spread)/lmin;
    # the gradient is analytic in t until a gap closes, r = gap lmin / (4 (1 + spread)); 2h = r/20 keeps the 4th-order truncation
    # error below ~3e-7 of the derivative, the rounding error is (tol/1e3)/h
    fd_h = min(FD_H, gap * p.m_lmin / (160.0 * (1.0 + spread)))
    fd = (-cf_at(2 * fd_h) + 8 * cf_at(fd_h) - 8 * cf_at(-fd_h) + cf_at(-2 * fd_h)) / (12 * fd_h)      # 4th-order central difference
    sx = 0.0
    for d, g2 in zip(D, got2):
        if g2 is not None:
            if not bool(torch.isfinite(g2.abs()).all()):
                return violation("grad2_nonfinite", "second-order gradient is not finite" + info, labels)
            sx += float((d.conj() * g2).sum().real)
    tol2 = 1e3 * tol + 10 * (tol / 1e3) / fd_h + 3e-6
    labels = labels + [margin_label("err2fd/tol", abs(sx - fd) / (tol2 * (1 + abs(fd))))]
    if not abs(sx - fd) <= tol2 * (1 + abs(fd)):
        return violation("grad2_degenerate", "directional second derivative <D, H C>: xitorch %.10g, finite difference of the closed-form gradient %.10g "
                         "(tol %.2e)%s" % (sx, fd, tol2 * (1 + abs(fd)), info), labels)
    return ok(labels + ["ref2=fd_degenerate_selected" if degenerate else "ref2=fd_degenerate_unselected"], nontrivial=nontriv)



# ------------------------------------------------------------------------------------------------ svd task

class SvdLoss:
    """l(S, U, V) for S (*batch,k), U (*batch,m,k), V (*batch,n,k): invariant under simultaneous phase changes of (u_i, v_i) and under
    simultaneous rotations of the pairs of a group of repeated singular values"""
    def __init__(self, g, gid, m, n, batch, dtype, use_vec=True):
        self.w = group_weights(g, gid)
        self.q = group_weights(g, gid)
        self.h1 = group_weights(g, gid)
        self.h2 = group_weights(g, gid)
        self.W1 = gen.randn(g, (m, n), dtype)
        self.W2 = gen.randn(g, (m, n), dtype)
        self.beta = torch.rand(tuple(batch), generator=g, dtype=torch.float64) + 0.5
        self.use_vec = use_vec

    def __call__(self, S, U, V):
        ls = (self.w * S + 0.5 * self.q * S * S).sum(-1)
        if not self.use_vec:
            return (self.beta * ls).sum()
        t1 = torch.einsum("...ai,ab,...bi->...i", U.conj(), self.W1, V).real
        t2 = torch.einsum("...ai,ab,...bi->...i", U.conj(), self.W2, V).real
        a = (self.h1 * t1).sum(-1)
        c = (self.h2 * t2).sum(-1)
        return (self.beta * (ls + a + 0.5 * a * c + 0.3 * a * (self.w * S).sum(-1))).sum()


def embed(A):
    """Jordan-Wielandt matrix [[0, A], [A^H, 0]]: eigenpairs (+-s_i, [u_i; +-v_i]/sqrt 2) and |m-n| zeros"""
    m, n = A.shape[-2:]
    top = torch.cat([torch.zeros((*A.shape[:-2], m, m), dtype=A.dtype), A], dim=-1)
    bot = torch.cat([R.ct(A), torch.zeros((*A.shape[:-2], n, n), dtype=A.dtype)], dim=-1)
    return torch.cat([top, bot], dim=-2)


def svd_second_order_degenerate(sv, k, mode, method):
    r = len(sv)
    kk = r if k is None else k
    if method in ("exacteig", "default"):
        return len(set(sv)) < r
    sel = sv[:kk] if mode == "lowest" else sv[r - kk:]
    return len(set(sel)) < len(sel)


def run_svd(case):
    import xitorch.linalg as xl
    torch.manual_seed(case["seed"] & 0x7FFFFFFF)
    g = gen.seeded(case["seed"])
    dtype = R.DT[case["dtype"]]
    m, n = case["m"], case["n"]
    r = min(m, n)
    sv = case["sv"]
    batch = case["batch"]
    k = r if case["k"] is None else case["k"]
    low = case["mode"] == "lowest"
    pos = list(range(k)) if low else list(range(r - k, r))            # positions among the ascending singular values
    gid = group_ids([sv[i] for i in pos])
    degenerate = len(set(gid)) < k
    method, order = case["method"], case["order"]
    kind = case["aop"]
    labels = ["svd_method=%s" % method, "svd_mode=%s" % case["mode"], "svd_shape=%s" % ("tall" if m > n else ("wide" if m < n else "square")),
              "svd_aop=%s" % kind, "svd_dtype=%s" % case["dtype"], "svd_degenerate=%s" % degenerate, "svd_k=%s" % ("full" if k == r else "partial"),
              "svd_order=%d" % order, "svd_batch=%d" % len(batch), "svd_loss=%s" % ("values" if not case["use_vec"] else "values+vectors")]
    if k < r:
        inside, outside = (sv[k - 1], sv[k]) if low else (sv[r - k], sv[r - k - 1])
        if inside == outside:
            return discard("group_straddles_cut", labels)
    U0 = R.rand_unitary(g, batch, m, dtype)[..., :, :r]
    V0 = R.rand_unitary(g, batch, n, dtype)[..., :, :r]
    sc = R.pick(g, [1.0, 1.5], batch)
    S0 = sc[..., None] * torch.tensor(sv, dtype=torch.float64)
    A0 = (U0 * S0.to(dtype)[..., None, :]) @ R.ct(V0)
    leaves = [t.clone().requires_grad_() for t in R.split_leaves(kind, A0, g)]
    names = ["A-leaf%d" % i for i in range(len(leaves))]
    loss = SvdLoss(g, gid, m, n, batch, dtype, use_vec=case["use_vec"])
    same = R.groups_of(gid)
    kwargs = {"bck_options": {"method": "exactsolve"} if case["bck"] == "exactsolve" else {}}
    if method != "default":
        kwargs["method"] = method
    if method == "davidson":
        kwargs["min_eps"] = 1e-10

    def xi_loss(lv):
        Aop = R.make_operator(kind, lv, False)
        U, S, Vh = xl.svd(Aop, case["k"], case["mode"], **kwargs)
        return loss(S, U, R.ct(Vh))
    with warnings.catch_warnings(record=True) as wlist:
        warnings.simplefilter("always")
        try:
            lx = xt_call(xi_loss, leaves, _where="forward")
        except XitorchRaised as e:
            if method == "davidson" and e.kind.startswith(DAVIDSON_BREAKDOWN):
                return discard("forward_davidson_cholesky_breakdown(C05_finding)", labels)
            raise
        if [w for w in wlist if "onverge" in type(w.message).__name__]:
            return discard("forward_convergence_warning", labels)
        if not lx.requires_grad:
            return violation("no_graph", "loss of svd outputs does not require grad", labels)
        got = xt_call(torch.autograd.grad, lx, leaves, create_graph=(order == 2), allow_unused=True, _where="backward")
    # ---------------------------------------------------------------- reference through the Hermitian embedding
    N = m + n
    sel_idx = [N - r + i for i in pos]                       # +s_i are the r largest eigenvalues of the embedding, ascending
    rt2 = math.sqrt(2.0)

    def loss_H(E, Z):
        return loss(E, rt2 * Z[..., :m, :], rt2 * Z[..., m:, :])

    def leaves_fn(lv):
        return embed(R.dense_of(kind, lv, False)), None
    smin, smax = float(S0.min()), max(float(S0.max()), R.leaves_scale(kind, [t.detach() for t in leaves]))
    scmin = float(sc.min())
    gaps2 = [abs(sv[i] ** 2 - sv[j] ** 2) for i in pos for j in range(r) if sv[i] != sv[j]]
    gap_e = (min(gaps2) if gaps2 else smin ** 2 / scmin ** 2) * scmin ** 2          # gap of the eigen-problem of A^H A actually solved
    tol = 1e3 * max(m, n) * EPS * (smax / smin) ** 2 * max(smax ** 2 / gap_e, 1.0) ** 2
    if method == "davidson":
        tol += 1e3 * math.sqrt(max(m, n)) * 1e-10 * smax ** 2 / gap_e ** 2 / smin
    Hd, _ = leaves_fn([t.detach() for t in leaves])
    ref, lref = closed_form_grads(loss_H, Hd, None, batch, sel_idx, same, leaves_fn, leaves, leaves)
    info = " [m=%d n=%d k=%d gap(s^2)=%.3g smin=%.3g smax=%.3g degenerate=%s]" % (m, n, k, gap_e, smin, smax, degenerate)
    if not abs(float(lx) - lref) <= tol * (1 + abs(lref)):
        return violation("loss_value", "loss on xitorch's singular triplets %.12g vs on the reference triplets %.12g (tol %.2e)%s" % (
            float(lx), lref, tol, info), labels)
    bad, worst = compare(got, ref, names, tol, "grad1", labels, info)
    if bad is not None:
        return bad
    labels = labels + [margin_label("svd_err1/tol", worst)]
    nontriv = any(maxabs(x) > 0 for x in ref) and (k < r or m != n or degenerate or order == 2)
    simple_all = len(set(sv)) == r

    def svd_autograd_loss(lv):
        A = R.dense_of(kind, lv, False).expand(*batch, m, n)
        U, S, Vh = torch.linalg.svd(A, full_matrices=False)
        ps = torch.tensor([r - 1 - i for i in pos])              # torch orders descending
        return loss(S[..., ps], U[..., :, ps], R.ct(Vh)[..., :, ps])
    if simple_all:
        lt = svd_autograd_loss(leaves)
        ref_t = torch.autograd.grad(lt, leaves, create_graph=(order == 2), allow_unused=True)
        ref_t = [torch.zeros_like(x) if q is None else q for q, x in zip(ref_t, leaves)]
        for r1, r2 in zip(ref, ref_t):
            if not maxabs(r1 - r2) <= tol * (1 + maxabs(r1)):
                return discard("reference_self_check_failed", labels)
    if order == 1:
        return ok(labels, nontrivial=nontriv)
    C = [gen.randn(g, x.shape, x.dtype) for x in leaves]

    def contract(gs):
        tot = 0.0
        for c, gk in zip(C, gs):
            if gk is not None:
                tot = tot + (c.conj() * gk).sum().real
        return tot
    L1 = contract(got)
    if not (isinstance(L1, torch.Tensor) and L1.requires_grad):
        return violation("no_second_graph", "create_graph=True produced first-order gradients without a graph", labels)
    with warnings.catch_warnings():
        warnings.simplefilter("ignore")
        got2 = xt_call(torch.autograd.grad, L1, leaves, allow_unused=True, _where="backward2")
    if simple_all:
        ref2 = torch.autograd.grad(contract(ref_t), leaves, allow_unused=True)
        ref2 = [torch.zeros_like(x) if q is None else q for q, x in zip(ref2, leaves)]
        bad, worst = compare(got2, ref2, names, 10 * tol, "grad2", labels, info)
        if bad is not None:
            return bad
        return ok(labels + ["svd_ref2=autograd", margin_label("svd_err2/tol", worst)], nontrivial=nontriv)
    D = [gen.randn(g, x.shape, x.dtype) for x in leaves]
    D = [d / max(1.0, float(torch.linalg.vector_norm(d))) for d in D]

    def cf_at(t):
        moved = [(x.detach() + t * d).requires_grad_() for x, d in zip(leaves, D)]
        H2, _ = leaves_fn([x.detach() for x in moved])
        rr, _ = closed_form_grads(loss_H, H2, None, batch, sel_idx, same, leaves_fn, moved, moved)
        return float(contract(rr))
    # step as in run_eig: eigenvalues of the embedding move by <= 2t (1 + smax); gaps of +s_i to other s_j, to 0 and to -s
    gaps1 = [abs(sv[i] - sv[j]) for i in pos for j in range(r) if sv[i] != sv[j]] + [sv[0]]
    gap_h = min(gaps1) * scmin
    fd_h = min(FD_H, gap_h / (160.0 * (1.0 + smax)))
    fd = (-cf_at(2 * fd_h) + 8 * cf_at(fd_h) - 8 * cf_at(-fd_h) + cf_at(-2 * fd_h)) / (12 * fd_h)
    sx = 0.0
    for d, g2 in zip(D, got2):
        if g2 is not None:
            if not bool(torch.isfinite(g2.abs()).all()):
                return violation("grad2_nonfinite", "second-order gradient is not finite" + info, labels)
            sx += float((d.conj() * g2).sum().real)
    tol2 = 1e3 * tol + 10 * (tol / 1e3) / fd_h + 3e-6
    labels = labels + [margin_label("svd_err2fd/tol", abs(sx - fd) / (tol2 * (1 + abs(fd))))]
    if not abs(sx - fd) <= tol2 * (1 + abs(fd)):
        return violation("grad2_degenerate", "directional second derivative <D, H C>: xitorch %.10g, finite difference of the closed-form gradient %.10g "
                         "(tol %.2e)%s" % (sx, fd, tol2 * (1 + abs(fd)), info), labels)
    return ok(labels + ["svd_ref2=fd"], nontrivial=nontriv)


# ------------------------------------------------------------------------------------------------ strategies

@st.composite
def grouped_spectrum_st(draw, n, maxmult=3, simple=False):
    """ascending eigenvalues: groups of exactly repeated values (sizes 1..maxmult) separated by gaps in {0.5, 1.0, 1.5} (>= 0.3)"""
    vals = []
    cur = draw(st.sampled_from([-3.0, -1.0, -0.25, 0.5]))
    while len(vals) < n:
        size = 1 if simple else draw(st.sampled_from([1, 1, 1, 1, 2, 2, 3]))
        size = max(1, min(size, maxmult, n - len(vals)))
        vals += [cur] * size
        cur = cur + draw(st.sampled_from([0.5, 1.0, 1.5]))
    return vals


def cut_choices(lam, low):
    """values of neig for which no group straddles the cut"""
    n = len(lam)
    out = []
    for k in range(1, n + 1):
        if k == n:
            out.append(k)
        elif low and lam[k - 1] != lam[k]:
            out.append(k)
        elif (not low) and lam[n - k] != lam[n - k - 1]:
            out.append(k)
    return out


def selected_degenerate(lam, neig, mode):
    n = len(lam)
    k = n if neig is None else neig
    sel = lam[:k] if mode == "lowest" else lam[n - k:]
    return len(set(sel)) < len(sel)


def second_order_degenerate(lam, neig, mode, method):
    """region of the recorded finding: the second-order formulas drop the within-group block of the first-order changes.
    Implicit backward (custom_exacteig, davidson): a repeated eigenvalue inside the selected set.  Dense path (exacteig, also the
    default): a repeated eigenvalue anywhere, because the full decomposition is differentiated."""
    if method in ("exacteig", "default"):
        return len(set(lam)) < len(lam)
    return selected_degenerate(lam, neig, mode)


def _second_order_degenerate(case):
    if "sv" in case:
        return case.get("order") == 2 and svd_second_order_degenerate(case["sv"], case["k"], case["mode"], case["method"])
    return "lam" in case and case.get("order") == 2 and second_order_degenerate(case["lam"], case["neig"], case["mode"], case["method"])


# second-order gradients at an exact degeneracy are wrong (recorded finding, no small repair): generated only when
# known_findings.json lists this site, otherwise order 2 is drawn outside this region only
def _svd_vectors_degenerate(case):
    """svd composes the second factor as A v_i / s_i outside symeig, so the cotangents of the eigenvalues of A^H A differ inside a group of
    repeated singular values and the degenerate backward formula no longer applies: first-order gradients of basis-independent functions
    of the singular vectors are wrong by O(1) (recorded finding, no small repair)"""
    if "sv" not in case or not case.get("use_vec"):
        return False
    r = len(case["sv"])
    k = r if case["k"] is None else case["k"]
    sel = case["sv"][:k] if case["mode"] == "lowest" else case["sv"][r - k:]
    return len(set(sel)) < len(sel)


SITES = {"second_order_at_degeneracy": _second_order_degenerate, "svd_vectors_at_repeated_singular_values": _svd_vectors_degenerate}


def _known_sites():
    from pbt.harness import load_known
    return {e.get("site") for e in load_known(PID)}


@st.composite
def eig_case_st(draw, tier="quick", known=()):
    method = draw(st.sampled_from(["exacteig", "custom_exacteig", "custom_exacteig", "davidson", "default"]))
    n = draw(st.integers(2, 6 if tier == "quick" else 7))
    mode = draw(st.sampled_from(["lowest", "lowest", "uppest", "uppermost"]))
    low = mode == "lowest"
    order = draw(st.sampled_from([1, 1, 2]))
    # order 2 lies outside the recorded second-order finding only for (selected-)simple spectra: favour them by construction
    lam = draw(grouped_spectrum_st(n, simple=(order == 2 and draw(st.sampled_from([True, True, False])))))
    ks = cut_choices(lam, low)
    if method == "davidson":
        # rank-deficient expansion blocks (recorded C05 finding, c05.rank_deficient_expansion_region): with exact repeats every
        # multiplicity must be <= neig and neig must divide n (neig = n always qualifies)
        mm = 1
        run = 1
        for i in range(1, n):
            run = run + 1 if lam[i] == lam[i - 1] else 1
            mm = max(mm, run)
        if mm > 1:
            ks = [k for k in ks if k >= mm and n % k == 0]
    neig = draw(st.sampled_from(ks))
    if neig == n and draw(st.booleans()):
        neig = None
    dtype = "f64" if method == "davidson" else draw(st.sampled_from(["f64", "c128"]))
    rank = draw(st.sampled_from([0, 0, 0, 1, 2]))
    target = [draw(st.sampled_from([1, 2])) for _ in range(rank)]

    def part():
        drop = draw(st.integers(0, rank))
        return [1 if draw(st.sampled_from([False, False, True])) else d for d in target[drop:]]
    bA = part()
    bM = part() if draw(st.sampled_from([True, True, False])) else None
    aop = draw(st.sampled_from(R.HERM_KINDS))
    mop = draw(st.sampled_from(["dense", "dense", "mv", "full", "scaled", "add_du"]))
    alldense = aop in ("dense", "dense_scaled") and (bM is None or mop == "dense")
    bck = "exactsolve"
    if (alldense or n <= 5) and draw(st.booleans()):
        bck = "default"
    if order == 2 and second_order_degenerate(lam, neig, mode, method):
        if not ("second_order_at_degeneracy" in known and draw(st.sampled_from([True, False, False, False]))):
            order = 1
    return {"lam": lam, "dtype": dtype, "batchA": bA, "batchM": bM, "mkappa": draw(st.sampled_from([1.0, 2.0, 4.0, 10.0])),
            "aop": aop, "mop": mop, "method": method, "neig": neig, "mode": mode, "bck": bck,
            "structure": draw(st.sampled_from(["generic"] * 5 + ["diag"])),
            "wrt": draw(st.sampled_from(["AM", "AM", "A", "M"])), "use_vec": draw(st.sampled_from([True, True, True, False])),
            "units": draw(st.sampled_from([1.0, 1.0, 1.0, 1e-9, 1e-11, 1e6])),
            "order": order, "seed": draw(st.integers(0, 2 ** 31 - 1))}


@st.composite
def svd_case_st(draw, tier="quick", known=()):
    method = draw(st.sampled_from(["exacteig", "custom_exacteig", "custom_exacteig", "default", "davidson"]))
    m, n = draw(st.integers(1, 6)), draw(st.integers(1, 6))
    r = min(m, n)
    mode = draw(st.sampled_from(["lowest", "uppest", "uppest", "uppermost"]))
    order = draw(st.sampled_from([1, 1, 2]))
    simple = order == 2 and draw(st.sampled_from([True, True, False]))
    sv, cur = [], 0.6
    while len(sv) < r:
        size = 1 if simple else draw(st.sampled_from([1, 1, 1, 2, 2, 3]))
        size = max(1, min(size, r - len(sv)))
        sv += [cur] * size
        cur = cur + draw(st.sampled_from([0.3, 0.5]))
    ks = cut_choices(sv, mode == "lowest")
    if method == "davidson":
        mm, run = 1, 1
        for i in range(1, r):
            run = run + 1 if sv[i] == sv[i - 1] else 1
            mm = max(mm, run)
        if mm > 1:
            ks = [k for k in ks if k >= mm and r % k == 0]
    k = draw(st.sampled_from(ks))
    if k == r and draw(st.booleans()):
        k = None
    if order == 2 and svd_second_order_degenerate(sv, k, mode, method):
        if not ("second_order_at_degeneracy" in known and draw(st.sampled_from([True, False, False, False]))):
            order = 1
    rank = draw(st.sampled_from([0, 0, 0, 1, 2]))
    batch = [draw(st.sampled_from([1, 2])) for _ in range(rank)]
    aop = draw(st.sampled_from(R.GEN_KINDS))
    bck = "exactsolve"
    if (aop == "dense" or r <= 5) and draw(st.booleans()):
        bck = "default"
    case = {"m": m, "n": n, "sv": sv, "dtype": "f64" if method == "davidson" else draw(st.sampled_from(["f64", "c128"])), "batch": batch,
            "aop": aop, "k": k, "mode": mode, "method": method, "bck": bck, "order": order,
            "use_vec": draw(st.sampled_from([True, True, True, False])), "seed": draw(st.integers(0, 2 ** 31 - 1))}
    if _svd_vectors_degenerate(case):
        if not ("svd_vectors_at_repeated_singular_values" in known and draw(st.sampled_from([True, False, False, False]))):
            case["use_vec"] = False          # repeated selected singular values: singular values only (see SITES)
    return case


# ------------------------------------------------------------------------------------------------ task degen_opts

def run_degen_opts(case):
    """the documented degeneracy thresholds: eigenvalues i, j are treated as degenerate iff |e_i - e_j| < degen_atol + degen_rtol*|e|,
    None means the default (eps**0.6 / eps**0.4), 0.0 means "no special treatment".  A pair with a tiny but non-zero gap that the
    caller's thresholds do NOT cover must get the full perturbation-theory gradient (with its 1/gap terms) of a loss that
    distinguishes the two eigenvectors."""
    from xitorch.linalg import symeig
    import xitorch
    torch.manual_seed(0)
    g = gen.seeded(case["seed"])
    n, neig, gap = case["n"], case["neig"], float(case["gap"])
    DTd = torch.float64
    lam = torch.tensor([1.0, 1.0 + gap] + [2.0 + 0.7 * k for k in range(n - 2)], dtype=DTd)
    if case["mode"] == "uppest":
        lam = -lam.flip(0)
    Q = R.rand_unitary(g, [], n, DTd).to(DTd)
    A0 = (Q * lam) @ Q.T
    K = torch.randn((n, n), generator=g, dtype=DTd)
    P = (0.5 * (A0 + A0.T) + 0.5 * (K - K.T)).requires_grad_()
    opts = {"zero": {"degen_atol": 0.0, "degen_rtol": 0.0}, "rzero": {"degen_rtol": 0.0}, "azero_rtiny": {"degen_atol": 0.0, "degen_rtol": 1e-12},
            "tiny": {"degen_atol": 1e-13, "degen_rtol": 1e-12}}[case["opts"]]
    labels = ["task=degen_opts", "opts=" + case["opts"], "mode=" + case["mode"], "gap=%g" % gap, "neig=%s" % ("n" if neig == n else "<n")]
    W = torch.randn((n, n), generator=g, dtype=DTd)
    W = 0.5 * (W + W.T)
    cw = torch.linspace(1.0, 2.0, neig, dtype=DTd)
    wl = torch.randn((neig,), generator=g, dtype=DTd)

    def lossf(ev, X):
        return (wl * ev).sum() + (cw * torch.einsum("ai,ab,bi->i", X, W, X)).sum()
    Aop = xitorch.LinearOperator.m(0.5 * (P + P.T), is_hermitian=True)
    ev, X = xt_call(symeig, Aop, neig=neig, mode=case["mode"], method="custom_exacteig", bck_options=dict(opts), _where="forward")
    got, = xt_call(torch.autograd.grad, lossf(ev, X), (P,), _where="backward")
    # reference: closed-form pull-back on LAPACK eigenpairs, every eigenvalue its own group (the thresholds do not cover the gap)
    atol = opts.get("degen_atol", EPS ** 0.6)
    rtol = opts.get("degen_rtol", EPS ** 0.4)
    if not gap >= 4 * (atol + rtol * 1.5):
        return discard("gap_within_threshold", labels)
    la, Xa = torch.linalg.eigh(0.5 * (P.detach() + P.detach().T))
    sel = torch.arange(neig) if case["mode"] == "lowest" else torch.arange(n - neig, n)
    lr = la[sel].clone().requires_grad_()
    Xr = Xa[:, sel].clone().requires_grad_()
    G_lam, G_X = torch.autograd.grad(lossf(lr, Xr), (lr, Xr))
    Abar, _ = R.eig_pullback(la, Xa, sel, torch.eye(neig, dtype=torch.bool), G_lam, G_X)
    ref = 0.5 * (Abar + Abar.T)
    sc = float(ref.abs().max())
    err = float((got - ref).abs().max())
    # the 1/gap terms amplify the LAPACK mixing error eps/gap of the two eigenvectors: relative accuracy ~ 1e3*eps/gap
    tol = (1e-6 + 1e4 * EPS / gap) * (1 + sc)
    if not err <= tol:
        return violation("degen_threshold", "bck_options=%r, eigenvalue gap %g (not covered by the thresholds): gradient differs from perturbation theory by %.3e "
                         "(|ref| = %.3e, tol %.3e) - the pair was treated as degenerate" % (opts, gap, err, sc, tol), labels)
    return ok(labels, nontrivial=sc > 0)


@st.composite
def degen_opts_st(draw, tier="quick"):
    n = draw(st.integers(3, 5))
    return {"n": n, "neig": draw(st.sampled_from([2, n])), "mode": draw(st.sampled_from(["lowest", "uppest"])),
            "gap": draw(st.sampled_from([2e-8, 1e-7, 3e-7])), "opts": draw(st.sampled_from(["zero", "zero", "rzero", "azero_rtiny", "tiny"])),
            "seed": draw(st.integers(0, 2 ** 31 - 1))}


def tasks(tier):
    known = _known_sites()
    return [
        Task("eig", strategy=eig_case_st(tier, known=known), run=run_eig, examples={"quick": 4800, "thorough": 130000}),
        Task("svd", strategy=svd_case_st(tier, known=known), run=run_svd, examples={"quick": 2400, "thorough": 65000}),
        Task("degen_opts", strategy=degen_opts_st(tier), run=run_degen_opts, examples={"quick": 160, "thorough": 1600}),
    ]
