"""C09 — a function gives the same results however its parameters are supplied.

Differential check across *function kinds*.  One mathematical function of leaf tensors theta_1..theta_k (a small grammar:
affine map built from outer products + pointwise nonlinearity + non-tensor scaling, the "effective" tensors being
the leaves themselves, squares, products, affine images or aliases of other effective tensors) is realised

  * as the anchor: a plain function with every effective tensor passed explicitly (kind "pure"), and
  * as one object kind: the kinds of pbt/gen.py (nn, nn_nested, em, em_cont, em_nn, sib1, sib2) and the kinds built
    here (pure_inner: plain function of the *leaves*, derivations inside; jit: torch.jit.script function with the
    non-tensor parameters interleaved; nn_buf: nn.Module whose non-differentiable leaves are buffers; nn_tied /
    nn_tied_nested: nn.Module holding each leaf Parameter under two names / in two sub-modules; em_two: ONE
    EditableModule providing both the integrand and the log-density of mcquad as two methods with separate name lists),

and both are run through one functional {rootfinder, equilibrium, minimize, solve_ivp (rk4, rk45, ...), quad, mcquad
(deterministic samplers), jac, hess}.  Values, first-order leaf gradients of a random contraction and second-order
leaf gradients (gradient of a random contraction of the first-order gradients) must agree.

Task "rounds": two uses of the functional on ONE object.  Between them the owner of the object does what owners do: an
optimiser step on the leaves (in place), derived tensors computed again and stored again, list / dict / sub-module
attributes bound to NEW containers, entries replaced inside the existing containers, a dict rebuilt in another key order,
Parameters registered again in another order.  Each round is compared with a fresh pure-function anchor for the values
the object holds in THAT round.

Tolerance (derived, see ASSUMPTIONS): both sides execute the same algorithm on bitwise the same function values; only
the order in which gradient contributions are accumulated differs.  Every generated problem is a contraction
(Lipschitz constant <= 0.4, Jacobians with singular values in [0.6, 1.4]) of dimension <= 9, so the amplification of a
reordering error N*eps (N <= 1e5 accumulated terms) is below 10: TAU = 1e-9 relative to (1 + max|reference|).
Two classes legitimately differ by more and carry their own derived bound: the default (loose, rtol=1e-6) Krylov
backward of the optimisers above 5 unknowns, and the adaptive steppers' backward (the augmented adjoint state is laid
out per *supplied* tensor, so the step-size controller sees a different error norm for each kind).  For the same
reason the second-order gradients of the fixed-step steppers are compared at TAU with a *matched* anchor (a pure
function with explicit parameters that supplies exactly the tensors the object kind supplies) and with the canonical
anchor only within the scheme's truncation bound (see DISCRETISATION).

A disagreement says that two representations of one function give different results, not which of them is wrong:
the solve_ivp / mcquad defects found by this check (a tensor supplied together with a tensor computed from it was
differentiated through twice) sat in the *anchor* and in the EditableModule kinds alike and were exposed by the kinds
that supply leaves (nn.Module, pure_inner); a closed form decided (regress/C09/ivp_*.json, mcquad_*.json).
"""
from __future__ import annotations

import os

import torch
from hypothesis import strategies as st

from pbt import gen
from pbt.harness import Task, ok, violation, discard, xt_call

PID = "C09"

# Defect D11 (mcquad backward differentiates without allow_unused) is owned by the C16 engineer.  While it is not
# repaired the generator keeps away from it by construction: no unused tensor in mcquad cases, and second-order mcquad
# cases always have a differentiable tensor in log p (otherwise `epf` is an unused input of the inner backward).
AVOID_D11 = False

RULE = ("case = functional in {rootfinder, equilibrium, minimize, solve_ivp rk4/rk45 (thorough: + euler, rk38, rk23), quad, mcquad "
        "(_dummy1d / mhcustom with a deterministic step), jac, hess} x object kind in {nn, nn_nested, em, em_cont, em_nn, sib1, sib2 "
        "(pbt/gen.py), pure_inner, jit, nn_buf, nn_tied, nn_tied_nested, em_two (built here)} x recipe of 2-3 effective tensors from 1-3 "
        "leaves (id, square, product, affine, alias) x which effective tensors are passed explicitly x unused tensor (explicit / "
        "object-held) x non-tensor parameter x which leaves require grad x order 1/2 x n in 1..4 (optimisers also 6..7, thorough 9: "
        "Krylov backward) x backward-solver options x tensor/tuple outputs and states.  Each case runs the anchor (kind pure) and the "
        "object kind on the same numbers.  rounds: the same on one object twice, with between the rounds {leaves updated in place or not} x "
        "{object-held tensors derived again (new objects) or kept} x {containers / sub-modules re-bound to new ones, entries replaced in place, dict "
        "order reversed / Parameters re-registered in reverse}; both rounds non-trivial.  Non-trivial = object kind != pure and at least one reference leaf gradient is non-zero; "
        "distinct by canonical case.")
ASSUMPTIONS = [
    "float64 only; the anchor (pure function, explicit tensors) is validated against external references by C04/C08/C13/C16/C17",
    "tolerance TAU=1e-9*(1+max|ref|): same algorithm on bitwise equal function values, contraction constant <=0.4, Jacobian singular "
    "values in [0.6,1.4], <=1e5 accumulated terms => reordering error < 1e5*eps*10",
    "optimisers with the default Krylov backward (n>5: bicgstab/cg, rtol=1e-6): both results solve the same linear system to "
    "relative residual 1e-6, kappa<=2.4 => first order 1e-5, second order 1e-4 (relative to 1+max|ref|)",
    "adaptive solve_ivp (rtol=atol=1e-9): forward values TAU (identical steps); gradients 1e3*(atol+rtol) first order, 1e4*(atol+rtol) "
    "second order, because the adjoint state and hence the step-size control differ legitimately between kinds",
    "fixed-step solve_ivp, second order, nonlinear derivation (theta^2, products) made inside the function: the continuous-adjoint "
    "discretisation depends on which tensors are supplied, so the TAU comparison uses a matched anchor (pure function with explicit "
    "parameters supplying exactly the tensors the object kind supplies) and the canonical anchor is compared within the truncation "
    "bound 0.2*h^4 (Euler: 1.0*h); first order and values are layout-independent and compared at TAU with the canonical anchor",
    "forward solves are run to f_tol=1e-11 (contraction => error < 2e-11), so a differing stopping decision could not exceed TAU",
    "rounds: names and the aliasing pattern of the object never change; graphs of tensors derived outside the function are retained by the "
    "caller in round 1 when they are used again; siblings kept by the caller keep their tensor objects between the rounds while "
    "AVOID_SIBLING_SNAPSHOT is set (defect D55, repaired: the flag is off; regress/C09/sibling_snapshot_after_reassignment.json)",
    "mcquad: no unused tensors and a differentiable log-p tensor at second order while AVOID_D11 is set (defect D11, owned by C16); "
    "nsamples == nburnout for mhcustom (insensitive to defect D10); time points never require grad (defect D14)",
]
LEVEL_TEXT = ("Differential exploration: every generated function is run through every functional as a pure function and as one of thirteen "
              "object kinds; values and first/second-order leaf gradients are compared at summation-order tolerance.")
LEVEL_NOTE = ("trusts the pure-function kind (validated externally by C04/C08/C13/C16/C17) and torch autograd outside xitorch; sizes <= 9, "
              "float64, contraction families only")
TECHNIQUE = "Hypothesis property-based testing: differential oracle across function kinds (anchor = pure function)"
WALL = {"quick": 240, "thorough": 1500}

DT = torch.float64
TAU = 1e-9
OWN_KINDS = ["pure_inner", "jit", "nn_buf", "nn_tied", "nn_tied_nested", "em_two"]
ALL_KINDS = list(gen.OBJ_KINDS) + OWN_KINDS
NN_LEAF_KINDS = ("nn", "nn_nested", "em_nn", "sib2", "nn_tied", "nn_tied_nested")
OPTIMISERS = ("rootfinder", "equilibrium", "minimize")


# ------------------------------------------------------------------ the function families (all scriptable)

def _mat(e0, e1):
    # n x n matrix with spectral norm <= 1
    return torch.outer(torch.sin(e0), torch.cos(e1)) / e0.numel()


def _act(z, form: int):
    # |act'| <= 1
    if form == 0:
        return torch.tanh(z)
    elif form == 1:
        return torch.sin(z)
    else:
        return z / torch.sqrt(1.0 + z * z)


def _pot(z, form: int):
    # antiderivative of _act
    if form == 0:
        return torch.log(torch.cosh(z))
    elif form == 1:
        return -torch.cos(z)
    else:
        return torch.sqrt(1.0 + z * z)


def fam_root(y, e0, e1, e2, sc: float, form: int):
    return y - (0.2 * sc) * _act(torch.mv(_mat(e0, e1), y) + e2, form)


def fam_equil(y, e0, e1, e2, sc: float, form: int):
    return (0.2 * sc) * _act(torch.mv(_mat(e0, e1), y) + e2, form)


def fam_min(y, e0, e1, e2, sc: float, form: int):
    z = torch.mv(_mat(e0, e1), y) + e2
    return 0.5 * (y * y).sum() + (0.2 * sc) * _pot(z, form).sum() - 0.3 * (y * torch.sin(e2)).sum()


def fam_ivp(t, y, e0, e1, e2, sc: float, form: int):
    return (0.3 * sc) * _act(torch.mv(_mat(e0, e1), y) + e2, form) * (1.0 + 0.5 * torch.sin(t)) - 0.2 * y


def fam_quad(x, e0, e1, e2, sc: float, form: int):
    return sc * _act(e0 * x + e1, form) * e2


def fam_logp(x, e0, e1, e2, sc: float, form: int):
    # unnormalised log density of a one-element x; curvature in [0.7, 1.3]
    xx = x.sum()
    return -0.5 * xx * xx * (1.0 + 0.1 * sc * torch.sin(e0 + e1 * e2).mean())


FAMILY = {"rootfinder": fam_root, "equilibrium": fam_equil, "minimize": fam_min, "ivp": fam_ivp, "quad": fam_quad,
          "mcquad": fam_quad, "logp": fam_logp, "jac": fam_root, "hess": fam_min}
_SCRIPTED = {}


def scripted(fam):
    if fam.__name__ not in _SCRIPTED:
        _SCRIPTED[fam.__name__] = torch.jit.script(fam)
    return _SCRIPTED[fam.__name__]


def make_core(fam, form, tup):
    """core(xs, eff, scale) in the convention of pbt/gen.py; two effective tensors are completed by a derived third"""
    def core(xs, eff, sc):
        e = list(eff)
        if len(e) == 2:
            e.append(0.5 * e[1] + 0.1 * e[0])
        if tup == "state":                   # solve_ivp with a tuple state: xs = (t, (y1, y2))
            t, ys = xs
            y = torch.cat([q.reshape(-1) for q in ys])
            out = fam(t, y, e[0], e[1], e[2], float(sc), form)
            k = ys[0].numel()
            return (out[:k].reshape(ys[0].shape), out[k:].reshape(ys[1].shape))
        xs = [x if isinstance(x, torch.Tensor) else torch.as_tensor(x, dtype=DT) for x in xs]
        out = fam(*xs, e[0], e[1], e[2], float(sc), form)
        if tup == "out":                     # tuple-valued integrand
            return (out, (out * out).sum().reshape(1))
        return out
    return core


# ------------------------------------------------------------------ function kinds built here

def make_leaves(values, req, kinds):
    """leaf tensors for a function realised in `kinds` (a leaf shared by two functions must suit both): nn.Module kinds
    need Parameters (a Parameter is also a valid explicit argument); nn_buf keeps its non-differentiable leaves as buffers"""
    param_all = any(k in NN_LEAF_KINDS for k in kinds)
    param_req = any(k == "nn_buf" for k in kinds)
    out = []
    for v, r in zip(values, req):
        if param_all or (param_req and r):
            out.append(torch.nn.Parameter(v.clone(), requires_grad=bool(r)))
        else:
            out.append(v.clone().requires_grad_(bool(r)))
    return out


def _unused_tensor(as_param):
    base = torch.full((2,), 0.37, dtype=DT)
    return torch.nn.Parameter(base) if as_param else base.requires_grad_()


def eff_levels(spec):
    """per effective tensor: "eff" if the representation supplies the effective tensor itself to the functional
    (explicitly or as an object attribute), "leaf" if it supplies the leaves and derives the tensor inside the function"""
    kind, derive = spec["kind"], spec["derive"]
    neff = len(derive)
    explicit = list(spec.get("explicit") or [kind == "pure"] * neff) if kind in gen.KINDS else [False] * neff
    obj_idx = [j for j in range(neff) if not explicit[j]]
    lev = []
    for j in range(neff):
        if explicit[j] or kind in ("pure", "em", "em_cont", "sib1", "jit", "em_two"):
            lev.append("eff")
        elif kind == "sib2":
            lev.append("eff" if obj_idx.index(j) % 2 == 0 else "leaf")
        else:
            lev.append("leaf")
    return lev


def _base_rec(derive, j):
    while derive[j][0] == "alias":
        j = derive[j][1]
    return derive[j]


def nonlinear_leaf_level(spec):
    """True if some supplied leaf enters through a nonlinear derivation made inside the function"""
    return any(lv == "leaf" and _base_rec(spec["derive"], j)[0] in ("sq", "mul") for j, lv in enumerate(eff_levels(spec)))


def build_matched(core, leaves, spec):
    """pure function with explicit parameters that supplies exactly the tensors the representation `spec` supplies
    (its explicit effective tensors, its object-held effective tensors, its object-held leaves)"""
    derive = spec["derive"]
    neff = len(derive)
    lev = eff_levels(spec)
    eff_out = gen.derive_all(derive, leaves)
    eff_js = [j for j in range(neff) if lev[j] == "eff"]
    leaf_js = [j for j in range(neff) if lev[j] == "leaf"]
    need = sorted({i for j in leaf_js for i in _base_rec(derive, j)[1:]})
    scale = float(spec.get("scale", 1.0))
    nontensor = bool(spec.get("nontensor"))
    info = {"obj": None, "objs": [], "unused": None}
    params = [eff_out[j] for j in eff_js] + [leaves[i] for i in need]
    if spec.get("unused"):
        info["unused"] = _unused_tensor(False)
        params.append(info["unused"])
    if nontensor:
        params.append(scale)
    ntail = len(params)

    def fcn(*args):
        xs, tail = args[:len(args) - ntail], args[len(args) - ntail:]
        effs = [None] * neff
        for k, j in enumerate(eff_js):
            effs[j] = tail[k]
        leafview = {i: tail[len(eff_js) + q] for q, i in enumerate(need)}
        for j in leaf_js:
            effs[j] = gen.derive_one(_base_rec(derive, j), leafview, None)
        return core(xs, effs, tail[-1] if nontensor else scale)
    return fcn, tuple(params), info


def build(core, fam, form, leaves, spec):
    """(fcn, params, info) with fcn(*xs, *params) == core(xs, derive(leaves), scale) for every kind"""
    kind = spec["kind"]
    if kind == "matched":
        return build_matched(core, leaves, spec["of"])
    if kind in gen.KINDS:
        return gen.build_function(core, leaves, spec)
    derive = spec["derive"]
    scale = float(spec.get("scale", 1.0))
    nontensor = bool(spec.get("nontensor"))
    unused_mode = spec.get("unused")
    nleaves = len(leaves)
    info = {"obj": None, "objs": [], "unused": None}

    if kind == "pure_inner":
        params = list(leaves)
        if unused_mode:
            info["unused"] = _unused_tensor(False)
            params.append(info["unused"])
        if nontensor:
            params.append(scale)
        ntail = len(params)

        def fcn(*args):
            xs, tail = args[:len(args) - ntail], args[len(args) - ntail:]
            eff = gen.derive_all(derive, list(tail[:nleaves]))
            return core(xs, eff, tail[-1] if nontensor else scale)
        return fcn, tuple(params), info

    if kind == "jit":
        # scripted family function; the effective tensors and BOTH non-tensor parameters (float, int) are explicit
        eff = gen.derive_all(derive, leaves)
        assert len(eff) == 3
        return scripted(fam), (eff[0], eff[1], eff[2], scale, int(form)), info

    if kind == "em_two":
        return build_em_two(core, leaves, spec, None, None, None)[0]

    if kind in ("nn_buf", "nn_tied", "nn_tied_nested"):
        params = []
        if unused_mode == "explicit":
            info["unused"] = _unused_tensor(False)
            params.append(info["unused"])
        elif unused_mode == "object":
            info["unused"] = _unused_tensor(True)
        if nontensor:
            params.append(scale)
        ntail = len(params)

        class Sub(torch.nn.Module):
            def __init__(self, w):
                super().__init__()
                self.w = w

        class OwnNN(torch.nn.Module):
            def __init__(self):
                super().__init__()
                for i, lf in enumerate(leaves):
                    if kind == "nn_buf":
                        if isinstance(lf, torch.nn.Parameter):
                            setattr(self, "p%d" % i, lf)
                        else:
                            self.register_buffer("p%d" % i, lf)
                    elif kind == "nn_tied":
                        setattr(self, "p%d" % i, lf)
                    else:
                        self.add_module("s%d" % i, Sub(lf))
                if info["unused"] is not None and unused_mode == "object":
                    self.unused = info["unused"]
                # second names of the same Parameters, registered after everything else
                for i, lf in enumerate(leaves):
                    if kind == "nn_tied":
                        setattr(self, "q%d" % i, lf)
                    elif kind == "nn_tied_nested":
                        self.add_module("r%d" % i, Sub(lf))

            def first(self, i):
                return getattr(self, "s%d" % i).w if kind == "nn_tied_nested" else getattr(self, "p%d" % i)

            def second(self, i):
                if kind == "nn_tied":
                    return getattr(self, "q%d" % i)
                if kind == "nn_tied_nested":
                    return getattr(self, "r%d" % i).w
                return getattr(self, "p%d" % i)

            def forward(self, *args):
                xs, tail = (args[:len(args) - ntail], args[len(args) - ntail:]) if ntail else (args, ())
                effs = []
                for j, rec in enumerate(derive):
                    op = rec[0]
                    if op == "id":
                        effs.append(self.first(rec[1]) if j % 2 == 0 else self.second(rec[1]))
                    elif op == "sq":
                        effs.append(self.first(rec[1]) * self.second(rec[1]))
                    elif op == "mul":
                        effs.append(self.first(rec[1]) * self.second(rec[2]))
                    elif op == "lin":
                        effs.append(2.0 * self.second(rec[1]) + 0.5)
                    elif op == "alias":
                        effs.append(effs[rec[1]])
                    else:
                        raise ValueError(rec)
                return core(xs, effs, tail[-1] if nontensor else scale)
        m = OwnNN()
        info["obj"] = m
        info["objs"] = [m]
        return m, tuple(params), info
    raise ValueError(kind)


def build_em_two(core, leaves, spec, pcore, pleaves, pspec):
    """ONE EditableModule whose method `evaluate` is the function and whose method `logp` is a second function
    (mcquad's log-density) with its own parameter names; a tensor may be held under names of both methods"""
    import xitorch

    def side(sp, lv, pre):
        eff = gen.derive_all(sp["derive"], lv)
        names = ["%s%d" % (pre, j) for j in range(len(eff))]
        return eff, names, bool(sp.get("nontensor")), float(sp.get("scale", 1.0))
    feff, fnames, fnt, fsc = side(spec, leaves, "t")
    two = pspec is not None
    if two:
        peff, pnames, pnt, psc = side(pspec, pleaves, "w")
    unused = _unused_tensor(False) if spec.get("unused") else None

    class EMTwo(xitorch.EditableModule):
        def __init__(self):
            for nm, t in zip(fnames, feff):
                setattr(self, nm, t)
            if two:
                for nm, t in zip(pnames, peff):
                    setattr(self, nm, t)
            if unused is not None:
                self.unused = unused

        def evaluate(self, *args):
            xs = args[:-1] if fnt else args
            return core(xs, [getattr(self, nm) for nm in fnames], args[-1] if fnt else fsc)

        def logp(self, *args):
            xs = args[:-1] if pnt else args
            return pcore(xs, [getattr(self, nm) for nm in pnames], args[-1] if pnt else psc)

        def getparamnames(self, methodname, prefix=""):
            if methodname == "evaluate":
                return [prefix + nm for nm in fnames] + ([prefix + "unused"] if unused is not None else [])
            elif methodname == "logp":
                return [prefix + nm for nm in pnames]
            raise KeyError(methodname)
    obj = EMTwo()
    info = {"obj": obj, "objs": [obj], "unused": unused}
    first = (obj.evaluate, (fsc,) if fnt else (), info)
    second = (obj.logp, (psc,) if pnt else (), {"obj": obj, "objs": [obj], "unused": None}) if two else None
    return first, second


# ------------------------------------------------------------------ running one kind through one functional

BCK = {
    "default": {},
    "exact": {"method": "exactsolve"},
    "bicgstab": {"method": "bicgstab", "rtol": 1e-12, "atol": 1e-14},
    "gmres": {"method": "gmres", "rtol": 1e-12, "atol": 1e-14},
    "cg": {"method": "cg", "rtol": 1e-12, "atol": 1e-14},
}
IVP_TOL = 1e-9


MC_BOUNDS = {"sym": (-2.0, 2.0), "asym": (-1.0, 3.0), "inf": (float("-inf"), float("inf"))}


def _mc_step(x, *pparams):
    return 0.6 * x + 0.35


def call_functional(case, fcn, params, consts, y_in, pfcn=None, pparams=None):
    """list of output tensors of the functional for this representation of the function"""
    import xitorch.optimize as xo
    import xitorch.integrate as xi
    import xitorch.grad as xg
    func = case["func"]
    opt = case["opt"]
    if func in OPTIMISERS:
        kw = {"f_tol": 1e-11, "maxiter": 400}
        if opt["method"] == "gd":
            kw = {"step": 0.7, "gamma": 0.0, "maxiter": 400, "f_tol": 0.0, "f_rtol": 0.0, "x_tol": 1e-12, "x_rtol": 0.0}
        elif opt["method"] == "anderson_acc":
            kw = {"f_tol": 1e-11, "maxiter": 400, "msize": 3}
        y = xt_call(getattr(xo, func), fcn, consts["y"], params=params, bck_options=dict(BCK[opt["bck"]]),
                    method=opt["method"], _where="forward", **kw)
        return [y]
    if func == "ivp":
        ts = torch.tensor(opt["ts"], dtype=DT)
        kw = {"rtol": IVP_TOL, "atol": IVP_TOL} if opt["method"] in ("rk45", "rk23") else {}
        if opt["tup"]:
            k = (y_in.numel() + 1) // 2
            y0 = (y_in[:k], y_in[k:])
        else:
            y0 = y_in
        yt = xt_call(xi.solve_ivp, fcn, ts, y0, params=params, method=opt["method"], _where="forward", **kw)
        return list(yt) if isinstance(yt, (tuple, list)) else [yt]
    if func == "quad":
        xl, xu = opt["xl"], opt["xu"]
        if opt["tlim"]:
            xl, xu = torch.tensor(xl, dtype=DT), torch.tensor(xu, dtype=DT)
        res = xt_call(xi.quad, fcn, xl, xu, params=params, n=opt["n"], _where="forward")
        return list(res) if isinstance(res, (tuple, list)) else [res]
    if func == "mcquad":
        if opt["method"] == "_dummy1d":
            x0 = torch.tensor(0.1, dtype=DT)
            lb, ub = MC_BOUNDS[opt["bounds"]]
            kw = {"nsamples": opt["ns"], "lb": lb, "ub": ub}
        else:
            x0 = torch.tensor([0.2], dtype=DT)
            kw = {"nsamples": opt["ns"], "nburnout": opt["ns"], "custom_step": _mc_step}
        res = xt_call(xi.mcquad, fcn, pfcn, x0, fparams=params, pparams=pparams, method=opt["method"], _where="forward", **kw)
        return list(res) if isinstance(res, (tuple, list)) else [res]
    if func == "jac":
        J = xt_call(xg.jac, fcn, (y_in,) + tuple(params), idxs=0, _where="forward")
        return [xt_call(J.mv, consts["v"], _where="mv"), xt_call(J.rmv, consts["u"], _where="rmv"),
                xt_call(J.fullmatrix, _where="fullmatrix")]
    if func == "hess":
        H = xt_call(xg.hess, fcn, (y_in,) + tuple(params), idxs=0, _where="forward")
        return [xt_call(H.mv, consts["v"], _where="mv"), xt_call(H.fullmatrix, _where="fullmatrix")]
    raise ValueError(func)


class Built:
    """one representation of the function(s) of a case: leaves, callable(s), explicit parameters, the objects behind them"""


def build_all(case, spec, pspec, consts):
    func = case["func"]
    form = case["form"]
    opt = case["opt"]
    fam = FAMILY[func]
    tup = None
    if opt.get("tup"):
        tup = "state" if func == "ivp" else "out"
    kinds = [spec["kind"]] + ([pspec["kind"]] if pspec is not None else [])
    b = Built()
    b.spec, b.pspec = spec, pspec
    b.leaves = make_leaves(consts["vals"], case["req"], kinds)
    b.pfcn = b.pparams = b.pinfo = None
    b.pleaves = []
    b.pl = None
    if func == "mcquad":
        if case["pshare"]:
            b.pl = [b.leaves[0]]
        else:
            b.pl = make_leaves(consts["pvals"], [case["preq"]], kinds)
            b.pleaves = b.pl
    if func == "mcquad" and spec["kind"] == "em_two":
        (b.fcn, b.params, b.info), (b.pfcn, b.pparams, b.pinfo) = build_em_two(make_core(fam, form, tup), b.leaves, spec,
                                                                              make_core(fam_logp, form, None), b.pl, pspec)
    else:
        b.fcn, b.params, b.info = build(make_core(fam, form, tup), fam, form, b.leaves, spec)
        if func == "mcquad":
            b.pfcn, b.pparams, b.pinfo = build(make_core(fam_logp, form, None), fam_logp, form, b.pl, pspec)
    return b


def run_round(case, b, consts, retain=False):
    """run the functional on the representation `b` as it is now; returns detached values, first- and second-order gradients.
    retain: keep the graphs of the tensors derived outside the function alive (they are used again in a later round)"""
    torch.manual_seed(case["seed"] & 0x7FFFFFFF)       # xitorch consumes the global RNG (Krylov set-up probe)
    func = case["func"]
    info, pinfo, leaves, pleaves = b.info, b.pinfo, b.leaves, b.pleaves
    extra = [info["unused"]] if info["unused"] is not None else []
    if func == "mcquad" and pinfo["unused"] is not None:
        extra.append(pinfo["unused"])
    y_in = consts["y"].clone().requires_grad_(bool(case["yreq"]))
    outs = call_functional(case, b.fcn, b.params, consts, y_in, b.pfcn, b.pparams)

    g = gen.seeded(case["seed"] + 17)
    W = [gen.randn(g, tuple(o.shape)) for o in outs]
    loss = sum((o * w).sum() for o, w in zip(outs, W))
    allleaves = list(leaves) + list(pleaves)
    diff = [lf for lf in allleaves if lf.requires_grad] + ([y_in] if y_in.requires_grad else [])
    res = {"vals": [o.detach() for o in outs], "graph": bool(loss.requires_grad), "g1": None, "g2": None, "unused": None,
           "nleaf": len(diff) - (1 if y_in.requires_grad else 0)}
    wrt = diff + extra
    if not wrt or not loss.requires_grad:
        return res
    second = case["order"] == 2
    g1 = xt_call(torch.autograd.grad, loss, wrt, create_graph=second, retain_graph=True if (second or retain) else None, allow_unused=True,
                 _where="backward")
    res["g1"] = [torch.zeros_like(x) if gk is None else gk.detach() for gk, x in zip(g1[:len(diff)], diff)]
    res["unused"] = [None if gk is None else gk.detach() for gk in g1[len(diff):]]
    if second and diff:
        C = [gen.randn(g, tuple(x.shape)) for x in diff]
        terms = [(c * gk).sum() for c, gk in zip(C, g1[:len(diff)]) if gk is not None and gk.requires_grad]
        if terms:
            g2 = xt_call(torch.autograd.grad, sum(terms), diff, retain_graph=True if retain else None, allow_unused=True, _where="backward2")
            res["g2"] = [torch.zeros_like(x) if gk is None else gk.detach() for gk, x in zip(g2, diff)]
    return res


def evaluate(case, spec, pspec, consts):
    """build one representation and run it once"""
    torch.manual_seed(case["seed"] & 0x7FFFFFFF)
    return run_round(case, build_all(case, spec, pspec, consts), consts)


def tolerances(case):
    """(tau_values, tau_first, tau_second), each relative to 1 + max|reference|"""
    func, opt = case["func"], case["opt"]
    if func in OPTIMISERS and opt["bck"] == "default" and case["n"] > 5:
        return TAU, 1e-5, 1e-4
    if func == "ivp" and opt["method"] in ("rk45", "rk23"):
        return TAU, 1e3 * 2 * IVP_TOL, 1e4 * 2 * IVP_TOL
    if func == "ivp" and nonlinear_leaf_level(case["spec"]):
        # fixed-step second order against the canonical anchor: see DISCRETISATION below
        hmax = max(abs(b - a) for a, b in zip(opt["ts"][:-1], opt["ts"][1:]))
        order, const = {"euler": (1, 1.0)}.get(opt["method"], (4, 0.2))
        return TAU, TAU, max(TAU, const * hmax ** order)
    return TAU, TAU, TAU


# DISCRETISATION.  solve_ivp's backward integrates the continuous adjoint system with the forward scheme; the adjoint
# state carries one block per *supplied* tensor.  For a fixed-step scheme the first-order result does not depend on
# whether a leaf or a tensor derived from it is supplied (the two blocks are related by a constant linear map and the
# scheme is linear in them), but the second-order result does when the derivation is nonlinear (theta^2, products):
# the term  d(d eff/d theta)/d theta * dL/d eff  is obtained by exact differentiation in one layout and as a re-integrated
# quadrature in the other, which differ by the scheme's truncation error (observed 4e-9 at h=0.25 for RK4).  Therefore,
# second order + fixed step + nonlinear derivation inside the function is compared (a) at TAU with a *matched* anchor, a
# pure function with explicit parameters supplying exactly the tensors the object kind supplies, and (b) with the
# canonical anchor only within a truncation bound: N_steps * C * h^5 <= 0.2 * T * h^4 with T <= 1 and C <= 0.2 for RK4 / RK38 on
# these families (all derivatives of the right-hand side up to order five are bounded by ~10); 1.0 * h for Euler.


def pure_spec(spec):
    return {"kind": "pure", "derive": spec["derive"], "explicit": None, "unused": "explicit" if spec.get("unused") else None,
            "nontensor": spec.get("nontensor"), "scale": spec.get("scale", 1.0)}


def _cmp(name, got, ref, tau, labels, what):
    for k, (a, b) in enumerate(zip(got, ref)):
        if a.shape != b.shape:
            return violation(name + "_shape", "%s #%d: shape %s vs anchor %s" % (what, k, tuple(a.shape), tuple(b.shape)), labels)
        sc = float(b.abs().max()) if b.numel() else 0.0
        err = float((a - b).abs().max()) if b.numel() else 0.0
        if not err <= tau * (1.0 + sc):
            return violation(name, "%s #%d differs from the pure-function anchor: got %s, anchor %s (err %.3e, tol %.3e)" % (
                what, k, a.reshape(-1).tolist()[:5], b.reshape(-1).tolist()[:5], err, tau * (1.0 + sc)), labels)
    return None


def make_consts(case, rnd=0):
    """numbers of the case; rnd > 0: the leaf values after the owner's update between two rounds (same y, u, v)"""
    n = case["n"]
    g = gen.seeded(case["seed"])
    nleaves = len(case["req"])
    consts = {
        "vals": [torch.rand((n,), generator=g, dtype=DT) * 2 - 1 for _ in range(nleaves)],
        "pvals": [torch.rand((n,), generator=g, dtype=DT) * 2 - 1],
        "y": torch.rand((n,), generator=g, dtype=DT) - 0.5,
        "v": gen.randn(g, (n,)), "u": gen.randn(g, (n,)),
    }
    if case["func"] in OPTIMISERS and case["opt"]["y0"] == "zero":
        consts["y"] = torch.zeros((n,), dtype=DT)
    if rnd:
        g2 = gen.seeded(case["seed"] + 7919 * rnd)
        consts["vals"] = [torch.rand((n,), generator=g2, dtype=DT) * 2 - 1 for _ in range(nleaves)]
        consts["pvals"] = [torch.rand((n,), generator=g2, dtype=DT) * 2 - 1]
    return consts


def case_labels(case):
    spec = case["spec"]
    pspec = case.get("pspec")
    func, opt, n = case["func"], case["opt"], case["n"]
    recs = [r[0] for r in spec["derive"]]
    labels = ["func=" + func + (":" + str(opt["method"]) if "method" in opt else ""), "kind=" + spec["kind"], "order=%d" % case["order"],
              "n=%s" % ("6+" if n > 5 else "1-4"), "unused=%s" % spec.get("unused"), "nontensor=%s" % bool(spec.get("nontensor")),
              "alias=%s" % ("alias" in recs), "derived=%s" % any(r in ("sq", "mul", "lin") for r in recs),
              "req=%s" % "".join("1" if r else "0" for r in case["req"]),
              "explicit=%s" % ("mixed" if spec.get("explicit") and any(spec["explicit"]) else "none"),
              "supplied=%s" % "+".join(sorted(set(eff_levels(spec))))]
    if func in OPTIMISERS:
        labels.append("bck=%s/%s" % (opt["bck"], "6+" if n > 5 else "1-4"))
    if opt.get("tup"):
        labels.append("tuple=%s" % func)
    if func == "mcquad":
        labels += ["pkind=" + pspec["kind"], "pshare=%s" % bool(case["pshare"])]
    return labels


def judge(case, got, ref, consts, labels, pre=""):
    """(violation or None, the reference has a non-zero leaf gradient); `pre` prefixes the violation kinds"""
    spec = case["spec"]
    func, opt = case["func"], case["opt"]
    tv, t1, t2 = tolerances(case)
    if len(got["vals"]) != len(ref["vals"]):
        return violation(pre + "values_count", "%d outputs vs %d for the anchor" % (len(got["vals"]), len(ref["vals"])), labels), False
    bad = _cmp(pre + "values:" + func, got["vals"], ref["vals"], tv, labels, "output")
    if bad:
        return bad, False
    if got["graph"] != ref["graph"]:
        return violation(pre + "graph", "output requires_grad=%s, anchor %s" % (got["graph"], ref["graph"]), labels), False
    for u in (got["unused"] or []):
        if u is not None and float(u.abs().max()) != 0.0:
            return violation(pre + "unused_grad", "a tensor that does not enter the function received the gradient %s" % u.tolist(), labels), False
    if (got["g1"] is None) != (ref["g1"] is None) or (got["g1"] is not None and len(got["g1"]) != len(ref["g1"])):
        return violation(pre + "grad1_missing", "first-order gradients present=%s, anchor %s" % (got["g1"] is not None, ref["g1"] is not None), labels), False
    nonzero = False
    if ref["g1"] is not None:
        bad = _cmp(pre + "grad1:" + func, got["g1"], ref["g1"], t1, labels, "first-order gradient w.r.t. leaf")
        if bad:
            return bad, False
        nonzero = any(float(b.abs().max()) > 0 for b in ref["g1"][:ref["nleaf"]] if b.numel())
    if case["order"] == 2:
        if t2 > TAU and func == "ivp" and opt["method"] not in ("rk45", "rk23"):
            if "anchor2=matched" not in labels:
                labels.append("anchor2=matched")
            refm = evaluate(case, {"kind": "matched", "of": spec, "derive": spec["derive"]}, None, consts)
            for name, a, b in (("values", got["vals"], refm["vals"]), ("grad1", got["g1"] or [], refm["g1"] or []),
                               ("grad2", got["g2"] or [], refm["g2"] or [])):
                if len(a) != len(b):
                    return violation(pre + "%s_missing:%s" % (name, func), "%d vs %d tensors for the matched anchor" % (len(a), len(b)), labels), False
                bad = _cmp(pre + "%s:%s" % (name, func), a, b, TAU, labels, name + " (matched pure-function anchor)")
                if bad:
                    return bad, False
        if (got["g2"] is None) != (ref["g2"] is None):
            return violation(pre + "grad2_missing", "second-order gradients present=%s, anchor %s" % (got["g2"] is not None, ref["g2"] is not None), labels), False
        if ref["g2"] is not None:
            bad = _cmp(pre + "grad2:" + func, got["g2"], ref["g2"], t2, labels, "second-order gradient w.r.t. leaf")
            if bad:
                return bad, False
    return None, nonzero


def run_case(case):
    torch.manual_seed(case["seed"] & 0x7FFFFFFF)
    spec = case["spec"]
    pspec = case.get("pspec")
    consts = make_consts(case)
    labels = case_labels(case)
    ref = evaluate(case, pure_spec(spec), pure_spec(pspec) if pspec else None, consts)
    got = evaluate(case, spec, pspec, consts)
    bad, nonzero = judge(case, got, ref, consts, labels)
    if bad:
        return bad
    return ok(labels, nontrivial=nonzero)


# ------------------------------------------------------------------ two rounds on one object (task "rounds")
#
# Between two uses of a functional the owner of the object does what owners of such objects legitimately do: an optimiser
# step on the leaves (in place, under no_grad), the derived tensors computed again from the leaves and stored again, a list /
# dict / sub-module attribute bound to a NEW container holding the same or the re-derived tensors, entries replaced inside
# the existing containers, a dict rebuilt in another key order, Parameters registered again in another order.  The function
# the object represents in round 2 is the mathematical function of the values the leaves hold THEN; the anchor is a fresh
# pure function of those values.  The structure (names, which names share a tensor) never changes.

# Defect found by this task (D55, repaired in /repo; regress/C09/sibling_snapshot_after_reassignment.json): a sibling kept by the caller hands
# the functionals the tensors its object held when make_sibling was called (PureFunction.objparams() returns a snapshot), so
# after the owner re-assigns a tensor the functional evaluates - and differentiates - the old one.  While it is not repaired
# the sibling kinds keep their tensor objects between the rounds (counted by the label sibling_tensors_kept).
AVOID_SIBLING_SNAPSHOT = os.environ.get("C09_SIBLING_SNAPSHOT", "test") == "avoid"     # repaired in /repo (D55): the region is generated
SIB_KINDS = ("sib1", "sib2")

ROUND_KINDS = ["em", "em_cont", "em_cont", "em_cont", "em_nn", "em_nn", "nn", "nn_nested", "nn_nested", "sib1", "sib2", "nn_buf", "nn_tied",
               "nn_tied_nested", "em_two"]
EFF_HOLDERS = ("em", "em_cont", "sib1", "sib2", "em_two", "jit")       # kinds that are handed tensors derived OUTSIDE the function


def _reregister(mod, reverse):
    """the owner deletes and re-assigns the directly held Parameters of an nn.Module (same objects), optionally in reverse order"""
    items = list(mod._parameters.items())
    for name, _ in items:
        delattr(mod, name)
    for name, prm in (reversed(items) if reverse else items):
        setattr(mod, name, prm)


def _explicit_layout(spec):
    neff = len(spec["derive"])
    explicit = list(spec.get("explicit") or [spec["kind"] == "pure"] * neff)
    if spec["kind"] == "pure":
        explicit = [True] * neff
    return [j for j in range(neff) if explicit[j]], [j for j in range(neff) if not explicit[j]]


def update_object(spec, leaves, fcn, params, info, hist):
    """apply the owner's between-rounds actions to one representation; returns the explicit parameters of the next call"""
    kind = spec["kind"]
    how, fresh = hist["how"], bool(hist["fresh"] or hist["step"])
    derive = spec["derive"]
    eff = gen.derive_all(derive, leaves) if fresh else None      # derived again from the (possibly updated) leaves: new tensor objects
    params = list(params)
    if kind in gen.KINDS:
        exp_idx, obj_idx = _explicit_layout(spec)
        if fresh:
            for k, j in enumerate(exp_idx):
                params[k] = eff[j]
    elif kind == "jit" and fresh:
        params[:3] = eff[:3]
    obj = info["obj"]
    if kind in ("em", "sib1", "em_two") or (kind == "sib2"):
        # tensors held as direct attributes t<j> (sib2: the EditableModule member holds every other object-held tensor)
        for name in [nm for nm in obj.getparamnames("evaluate" if kind != "sib2" else "part") if nm != "unused"]:
            j = int(name[1:])
            setattr(obj, name, eff[j] if fresh else getattr(obj, name))
        if kind == "sib2":
            _reregister(info["objs"][1], how == "reorder")
    elif kind == "em_cont":
        names = [nm for nm in obj.getparamnames("evaluate") if nm != "unused"]
        held = {nm: (eff[j] if fresh else xitorch_get(obj, nm)) for nm, j in zip(names, obj_idx)}
        lst_names = sorted([nm for nm in names if nm.startswith("lst[")], key=lambda nm: int(nm[4:-1]))
        dct_names = [nm for nm in names if nm.startswith("dct[")]
        if how == "inplace":
            for nm in lst_names:
                obj.lst[int(nm[4:-1])] = held[nm]
            for nm in dct_names:
                obj.dct[nm[5:-2]] = held[nm]
        else:
            obj.lst = [held[nm] for nm in lst_names]
            obj.dct = {nm[5:-2]: held[nm] for nm in (reversed(dct_names) if how == "reorder" else dct_names)}
    elif kind == "em_nn":
        if how == "inplace":
            _reregister(obj.mod, False)
        else:
            obj.mod = type(obj.mod)()               # a new sub-module holding the same leaf Parameters
            if how == "reorder":
                _reregister(obj.mod, True)
        info["objs"] = [obj, obj.mod]
    elif kind in ("nn", "nn_buf", "nn_tied"):
        _reregister(obj, how == "reorder")
    elif kind == "nn_nested":
        if how == "inplace":
            _reregister(obj.first, False)
            _reregister(obj.second[0], False)
        else:
            old1, old2 = obj.first, obj.second[0]
            idx = lambda m: [int(nm[1:]) for nm in m._parameters if nm.startswith("w")]
            new1, new2 = type(old1)(idx(old1)), type(old2)(idx(old2))
            if "unused" in old2._parameters:
                new2.unused = old2.unused
            if how == "reorder":
                _reregister(new1, True)
                _reregister(new2, True)
            obj.first = new1
            obj.second = torch.nn.ModuleList([new2])
    elif kind == "nn_tied_nested":
        subs = list(obj._modules.items())
        for name, sub in (reversed(subs) if how == "reorder" else subs):
            if how == "inplace":
                _reregister(sub, False)
            else:
                delattr(obj, name)
                obj.add_module(name, type(sub)(sub.w))
    return tuple(params)


def xitorch_get(obj, name):
    from xitorch._utils.attr import get_attr
    return get_attr(obj, name)


def run_rounds(case):
    torch.manual_seed(case["seed"] & 0x7FFFFFFF)
    spec = case["spec"]
    pspec = case.get("pspec")
    hist = case["hist"]
    labels = case_labels(case) + ["hist=%s/%s/%s" % (hist["how"], "fresh" if (hist["fresh"] or hist["step"]) else "same", "step" if hist["step"] else "nostep")]
    sib = spec["kind"] in SIB_KINDS or (pspec is not None and pspec["kind"] in SIB_KINDS)
    if sib:
        labels.append("sibling_tensors_kept=%s" % (not (hist["fresh"] or hist["step"])))
        if AVOID_SIBLING_SNAPSHOT and (hist["fresh"] or hist["step"]):
            return discard("sibling_snapshot_defect", labels)
    consts1 = make_consts(case)
    consts2 = make_consts(case, 1) if hist["step"] else consts1
    pure, ppure = pure_spec(spec), (pure_spec(pspec) if pspec else None)
    ref1 = evaluate(case, pure, ppure, consts1)
    b = build_all(case, spec, pspec, consts1)
    got1 = run_round(case, b, consts1, retain=True)
    bad, nonzero1 = judge(case, got1, ref1, consts1, labels)
    if bad:
        return bad
    # ---- between the rounds
    if hist["step"]:
        with torch.no_grad():
            for lf, v in zip(b.leaves, consts2["vals"]):
                lf.copy_(v)
            for lf, v in zip(b.pleaves, consts2["pvals"]):
                lf.copy_(v)
    if spec["kind"] == "em_two" and pspec is not None:
        for nm, t in zip(["w%d" % j for j in range(len(pspec["derive"]))], gen.derive_all(pspec["derive"], b.pl)):
            if hist["fresh"] or hist["step"]:
                setattr(b.info["obj"], nm, t)
    b.params = update_object(spec, b.leaves, b.fcn, b.params, b.info, hist)
    if pspec is not None and spec["kind"] != "em_two":
        b.pparams = update_object(pspec, b.pl, b.pfcn, b.pparams, b.pinfo, hist)
    ref2 = evaluate(case, pure, ppure, consts2)
    got2 = run_round(case, b, consts2)
    bad, nonzero2 = judge(case, got2, ref2, consts2, labels, pre="round2:")
    if bad:
        return bad
    return ok(labels, nontrivial=nonzero1 and nonzero2)


@st.composite
def rounds_st(draw, tier="quick"):
    case = draw(case_st(tier, kinds=ROUND_KINDS))
    step = draw(st.booleans())
    sib = case["spec"]["kind"] in SIB_KINDS or ("pspec" in case and case["pspec"]["kind"] in SIB_KINDS)
    if sib and AVOID_SIBLING_SNAPSHOT:
        case["hist"] = {"step": False, "fresh": False, "how": draw(st.sampled_from(["rebind", "inplace", "reorder"]))}
        return case
    case["hist"] = {"step": step, "fresh": step or draw(st.booleans()), "how": draw(st.sampled_from(["rebind", "rebind", "inplace", "reorder"]))}
    return case


# ------------------------------------------------------------------ strategies

@st.composite
def spec_st(draw, kinds, nleaves, neff, allow_unused=True):
    kind = draw(st.sampled_from(kinds))
    if kind == "jit":
        neff = 3
    nleaves = min(nleaves, neff)
    derive = []
    for j in range(neff):
        ops = ["id", "id", "sq", "mul", "lin"] + (["alias", "alias"] if j >= nleaves else [])
        op = draw(st.sampled_from(ops))
        i = j if j < nleaves else draw(st.integers(0, nleaves - 1))
        if op == "mul":
            derive.append(["mul", i, draw(st.integers(0, nleaves - 1))])
        elif op == "alias":
            derive.append(["alias", draw(st.integers(0, j - 1))])
        else:
            derive.append([op, i])
    if kind in gen.KINDS:
        explicit = [draw(st.sampled_from([False, False, True])) for _ in range(neff)]
        if all(explicit):
            explicit[draw(st.integers(0, neff - 1))] = False
    else:
        explicit = None
    unused = draw(st.sampled_from([None, None, None, "explicit", "object"])) if allow_unused else None
    if kind == "jit":
        unused = None
    if kind == "pure_inner" and unused == "object":
        unused = "explicit"
    if kind == "em_two" and unused == "explicit":
        unused = "object"
    nontensor = True if kind == "jit" else draw(st.booleans())
    spec = {"kind": kind, "derive": derive, "explicit": explicit, "unused": unused, "nontensor": nontensor,
            "scale": draw(st.sampled_from([1.0, 0.5, 2.0, -1.5])), "nleaves": nleaves}
    if kind == "sib2":
        spec["sib3"] = draw(st.booleans())      # a plain function between the two members of the sibling (pbt/gen.py)
    return spec


FUNC_WEIGHTS = {
    "quick": ["rootfinder"] * 4 + ["equilibrium"] * 3 + ["minimize"] * 3 + ["ivp"] * 3 + ["quad"] * 3 + ["mcquad"] * 3 + ["jac"] * 2 + ["hess"] * 2,
}


@st.composite
def case_st(draw, tier="quick", kinds=ALL_KINDS, funcs=None):
    func = draw(st.sampled_from(funcs or FUNC_WEIGHTS["quick"]))
    order = draw(st.sampled_from([1, 2, 2]))
    opt = {}
    n = draw(st.integers(1, 4))
    allow_unused = True
    if func in OPTIMISERS:
        big = [6, 7] + ([9] if tier == "thorough" else [])
        n = draw(st.sampled_from([1, 2, 3, 4] + big + big))
        methods = {"rootfinder": [None, None, "broyden1", "newton", "broyden2"],
                   "equilibrium": [None, None, "anderson_acc", "newton"],
                   "minimize": [None, None, "newton", "gd"]}[func]
        opt["method"] = draw(st.sampled_from(methods))
        opt["bck"] = draw(st.sampled_from(["default", "default", "exact", "bicgstab", "gmres"]))
        opt["y0"] = draw(st.sampled_from(["zero", "rand"]))
    elif func == "ivp":
        meths = ["rk4", "rk4", "rk4", "rk45"] + (["euler", "rk38", "rk23"] if tier == "thorough" else [])
        opt["method"] = draw(st.sampled_from(meths))
        if opt["method"] in ("rk45", "rk23"):
            n = min(n, 3)
        npts = draw(st.integers(2, 3))
        t0 = draw(st.sampled_from([0.0, 0.25, -0.5]))
        steps = [draw(st.sampled_from([0.125, 0.25, 0.5])) for _ in range(npts - 1)]
        sign = draw(st.sampled_from([1.0, 1.0, -1.0]))
        ts = [t0]
        for h in steps:
            ts.append(ts[-1] + sign * h)
        opt["ts"] = ts
        opt["tup"] = n >= 2 and draw(st.sampled_from([False, False, True]))
    elif func == "quad":
        opt["n"] = draw(st.integers(2, 7))
        opt["xl"] = draw(st.sampled_from([-1.0, 0.0, 0.5]))
        opt["xu"] = draw(st.sampled_from([1.5, 2.0, -0.5]))
        opt["tlim"] = draw(st.booleans())
        opt["tup"] = draw(st.sampled_from([False, False, True]))
    elif func == "mcquad":
        opt["method"] = draw(st.sampled_from(["_dummy1d", "_dummy1d", "mhcustom"]))
        opt["ns"] = draw(st.integers(3, 6))
        if opt["method"] == "_dummy1d":
            opt["bounds"] = draw(st.sampled_from(["sym", "asym", "inf"]))
        opt["tup"] = draw(st.sampled_from([False, False, True]))
        allow_unused = not AVOID_D11
    nleaves = draw(st.integers(1, 3))
    neff = draw(st.integers(2, 3))
    spec = draw(spec_st(kinds, nleaves, neff, allow_unused))
    nleaves = spec.pop("nleaves")
    if spec["kind"] == "jit":
        opt["tup"] = False
        if func == "quad":
            opt["tlim"] = True
    req = [draw(st.sampled_from([True, True, True, False])) for _ in range(nleaves)]
    case = {"func": func, "n": n, "form": draw(st.integers(0, 2)), "order": order, "opt": opt, "spec": spec, "req": req,
            "yreq": func in ("jac", "hess") or (func == "ivp" and draw(st.booleans())),
            "seed": draw(st.integers(0, 2 ** 31 - 1))}
    if func == "mcquad":
        pkinds = ["em_two"] if spec["kind"] == "em_two" else [k for k in kinds if k != "em_two"] or kinds
        pspec = draw(spec_st(pkinds, 1, draw(st.integers(2, 3)), allow_unused and spec["kind"] != "em_two"))
        pspec.pop("nleaves")
        case["pspec"] = pspec
        case["pshare"] = draw(st.booleans())
        case["preq"] = draw(st.sampled_from([True, True, False]))
        if AVOID_D11 and order == 2:
            # a differentiable tensor must enter log p
            if case["pshare"]:
                req[0] = True
            else:
                case["preq"] = True
    return case


def tasks(tier):
    tied = ["nn_tied", "nn_tied_nested"]
    # the small focused tasks run first so that a wall-clock guard cannot starve them
    return [
        Task("krylov2", strategy=case_st(tier, funcs=list(OPTIMISERS)).map(_force_krylov), run=run_case,
             examples={"quick": 240, "thorough": 4500}),
        Task("tied", strategy=case_st(tier, kinds=tied), run=run_case, examples={"quick": 240, "thorough": 3500}),
        Task("twomethods", strategy=case_st(tier, kinds=["em_two"], funcs=["mcquad"]), run=run_case,
             examples={"quick": 120, "thorough": 2000}),
        Task("rounds", strategy=rounds_st(tier), run=run_rounds, examples={"quick": 320, "thorough": 6000}),
        Task("kinds", strategy=case_st(tier), run=run_case, examples={"quick": 2400, "thorough": 50000}),
    ]


def _force_krylov(case):
    """optimiser cases with more than 5 unknowns, second order, iterative backward (the path of defect D19)"""
    case = dict(case)
    case["n"] = 6 + case["seed"] % 2
    case["order"] = 2
    case["opt"] = dict(case["opt"])
    if case["opt"]["bck"] == "exact":
        case["opt"]["bck"] = "default"
    return case
